import sys, time
from pedal import *
from pedal.core.report import MAIN_REPORT
from pedal.sandbox.commands import *
from pedal.source.sections import separate_into_sections, next_section, stop_sections
from pedal.source import verify
print("== C15 phantom")
contextualize_report("print('a')\ndef f():\n    return 1\n")
run(); call('f'); print(get_output(), repr(get_raw_output()))
print("== C05 BaseException")
contextualize_report("class B(BaseException): pass\nprint('x')\nraise B()")
so, sl = sys.stdout, time.sleep
try:
    run()
except BaseException as e:
    sys.stdout = so
    print("escaped", type(e).__name__, 'sleep patched:', time.sleep is not sl)
    sb=get_sandbox(); print("stacks", len(sb._current_patches), len(sb._current_stdout))
    for p in sb._current_patches.pop(): p.stop()
print("== C04 str raises")
contextualize_report("class E(Exception):\n    def __str__(self): raise ValueError('no')\nraise E()")
try:
    run(); print("returned", get_exception())
except BaseException as e:
    print("escaped", type(e).__name__, e, sys.stdout is so)
print("== C04 exit")
for code in ["exit()", "import sys\nsys.exit(3)", "raise SystemExit", "def f(): f()\nf()", "x = eval('1')", "import pedal", "open('x.py')", "x = (", "a\0b"]:
    contextualize_report(code)
    try:
        run(); e=get_exception(); print(repr(code)[:25], "->", type(e).__name__, [ (f.label,f.category, f.location.line if f.location else None) for f in MAIN_REPORT.feedback])
    except BaseException as ex:
        sys.stdout = so
        print(repr(code)[:25], "ESCAPED", type(ex).__name__, ex)
print("== C17 runtime line in section")
code = "a = 1\n##### Part 1\nb = 2\nc = 1/0\n##### Part 2\nprint(zz)\n"
contextualize_report(code)
separate_into_sections()
next_section(); verify(); run()
from pedal.tifa import tifa_analysis
print([(f.label, f.location.line if f.location else None) for f in MAIN_REPORT.feedback])
print(MAIN_REPORT.feedback[-1].message[-200:])
next_section(); verify(); t=tifa_analysis(); run()
print([(f.label, f.location.line if f.location else None) for f in MAIN_REPORT.feedback])
print({k:[(i.fields.get('name'), i.location.line) for i in v] for k,v in t.issues.items()})
next_section()
print([(f.label, f.category) for f in MAIN_REPORT.feedback][-1], repr(MAIN_REPORT.submission.main_code)[:40])
stop_sections(); print(MAIN_REPORT.submission.main_code == code)

import subprocess, json, sys, textwrap
from pedal import *
from pedal.core.report import MAIN_REPORT
from pedal.sandbox.commands import *
progs = {
 'arith': "a = 7 // 2\nb = 7 % 3\nc = 2 ** 10\nd = 7 / 2\nprint(a, b, c, d)\n",
 'print_sep': "print(1, 2, sep='-', end='!')\nprint()\nprint('x', end='')\n",
 'input': "n = input('Name? ')\nm = input()\nprint('Hi', n, m)\n",
 'loops': "t = 0\nfor i in range(5):\n    t += i\nwhile t > 3:\n    t -= 2\nprint(t)\n",
 'func': "def f(x, y=2):\n    return x * y\nr = f(3)\nprint(r)\n",
 'class': "class A:\n    def __init__(self, v):\n        self.v = v\n    def __repr__(self):\n        return f'A({self.v})'\na = A(3)\nprint(a, A.__module__, A.__qualname__)\n",
 'name_main': "if __name__ == '__main__':\n    print('main')\nprint(__name__)\n",
 'try': "try:\n    x = 1/0\nexcept ZeroDivisionError as e:\n    print('caught', e)\nfinally:\n    y = 2\n",
 'exc_line': "a = 1\nb = [1,2]\nc = b[5]\n",
 'exc_in_func': "def g():\n    return int('x')\nz = 1\ng()\n",
 'comp': "s = [i*i for i in range(4) if i % 2]\nd = {k: len(k) for k in ['a','bb']}\nt = tuple(s)\nprint(s, d, t)\n",
 'import_math': "import math\nfrom random import seed\nprint(math.floor(2.5), math.pi)\n",
 'globals_builtin': "x = len([1,2])\ny = sorted([3,1])\nz = sum(y)\nprint(x, y, z)\n",
 'stdout_write': "import sys\nsys.stdout.write('raw')\nsys.stdout.write('\\n')\nprint('ok', file=sys.stdout)\n",
 'stderr': "import sys\nprint('err', file=sys.stderr)\nprint('out')\n",
 'sleep': "import time\nt0 = time.time()\ntime.sleep(0.01)\nprint('slept')\n",
 'del_global': "x = 1\ndel x\ny = 'x' in dir()\nprint(y)\n",
 'locals_call': "def h():\n    q = 5\n    return sorted(locals())\nprint(h())\n",
 'global_stmt': "c = 0\ndef inc():\n    global c\n    c += 1\ninc(); inc()\nprint(c)\n",
 'nested_data': "d = {'a': [1, (2, 3)], 'b': None, 'c': {4, 5}}\nprint(d['a'][1][0])\n",
 'str_methods': "s = ' Hello, World '\nprint(s.strip().lower().split(', '), s.find('W'), s[::-1])\n",
 'recursion_ok': "def fact(n):\n    return 1 if n < 2 else n * fact(n-1)\nprint(fact(10))\n",
 'raise_custom': "class MyErr(Exception):\n    pass\nraise MyErr('bad')\n",
 'open_missing': "f = open('definitely_missing.txt')\n",
 'exit_call': "print('a')\nexit()\nprint('b')\n",
 'eval_use': "x = eval('1+1')\nprint(x)\n",
 'dunder_file': "print('__file__' in dir())\n",
 'builtins_access': "import builtins\nprint(builtins.len([1]))\n",
 'isinstance_input': "v = input()\nprint(type(v).__name__, v.isdigit())\n",
 'vars_names': "_ = 3\nresult = _ + 1\nprint(result)\n",
}
REF = r'''
import sys, io, json, runpy, traceback
code = open(sys.argv[1]).read()
buf = io.StringIO(); real = sys.stdout; sys.stdout = buf
g = {'__name__':'__main__'}
outcome = None
try:
    exec(compile(code, 'answer.py', 'exec'), g)
except BaseException as e:
    tb = traceback.extract_tb(e.__traceback__)
    lines = [fr.lineno for fr in tb if fr.filename=='answer.py']
    outcome = [type(e).__name__, lines[-1] if lines else None]
sys.stdout = real
names = sorted(k for k,v in g.items() if not k.startswith('__') and type(v).__name__ not in ('module',))
vals = {k: repr(g[k]) for k in names if isinstance(g[k], (int,float,str,list,dict,tuple,set,bool,type(None)))}
print(json.dumps({'out': buf.getvalue(), 'names': names, 'vals': vals, 'outcome': outcome}))
'''
open('/tmp/ref.py','w').write(REF)
INJECT={'input','open','compile','eval','exec','globals','exit','__import__'}
diffs=0
for name, code in progs.items():
    open('/tmp/prog.py','w').write(code)
    r = subprocess.run(['/venv/bin/python','-I','/tmp/ref.py','/tmp/prog.py'], input="Ada\nBob\n7\n", capture_output=True, text=True)
    try: ref=json.loads(r.stdout.strip().splitlines()[-1])
    except Exception: print(name, 'REF FAIL', r.stdout[-200:], r.stderr[-300:]); continue
    contextualize_report(code)
    sb=get_sandbox(); set_input(["Ada","Bob","7"])
    try:
        run()
    except BaseException as e:
        print(name, "SANDBOX ESCAPED", type(e).__name__); continue
    data=sb.data
    names=sorted(k for k,v in data.items() if not k.startswith('__') and type(v).__name__!='module' and k not in INJECT)
    vals={k: repr(data[k]) for k in names if isinstance(data[k], (int,float,str,list,dict,tuple,set,bool,type(None)))}
    exc=sb.exception
    outcome=None
    if exc is not None:
        outcome=[type(exc).__name__, sb.feedback.location.line if sb.feedback and sb.feedback.location else None]
    out=sb.raw_output
    # normalise prompt echo: plain writes prompt without newline
    out_n = out.replace("Name? \n","Name? ").replace("\n\n","\n",0)
    problems=[]
    if ref['outcome']!=outcome: problems.append(('outcome', ref['outcome'], outcome))
    if ref['names']!=names: problems.append(('names', sorted(set(ref['names'])^set(names))))
    if ref['vals']!=vals: problems.append(('vals', {k:(ref['vals'].get(k),vals.get(k)) for k in set(ref['vals'])|set(vals) if ref['vals'].get(k)!=vals.get(k)}))
    if ref['out']!=out_n: problems.append(('out', ref['out'], out))
    if problems:
        diffs+=1; print(name, problems)
print("programs", len(progs), "differing", diffs)

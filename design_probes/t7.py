from pedal import *
from pedal.core.report import MAIN_REPORT
from pedal.resolvers import simple
from pedal.sandbox.commands import *
from pedal.tifa import tifa_analysis
print("== C02 reserved label")
clear_report()
Feedback(label="set_correct_no_errors", category="complete", message="bad", correct=False)
r = simple.resolve(); print(r.correct, r.title, r.message, r.score)
print("== C06 builtin-named global")
contextualize_report("def compile(items):\n    return len(items)\nx = compile([1,2])\n")
run(); print("run exc", get_exception()); print(call('compile',[1,2,3])); print(get_exception())
contextualize_report("def f(x):\n    return x\n_ = 5\n")
run(); r=call('f', float('inf')); print('inf ->', repr(r), type(get_exception()).__name__); print(get_student_data().get('_'))
r=call('f', float('nan')); print('nan ->', repr(r))
r=call('f', {1,2}); print('set ->', repr(r)); r=call('f', frozenset()); print(repr(r)); r=call('f', set()); print(repr(r))
r=call('f', 1e22); print(repr(r)); r=call('f', -0.0); print(repr(r))
r=call('f', b'ab'); print(repr(r)); r=call('f', 1+2j); print(repr(r)); r=call('f', range(3)); print(repr(r))
print("== C09 for zero")
def issues(code):
    contextualize_report(code)
    t = tifa_analysis()
    return t.success, {k:[(i.fields.get('name'), i.location.line) for i in v] for k,v in t.issues.items()}
print(issues("xs = input()\nfor i in xs:\n    x = 1\nprint(x)\n"))
print(issues("c = input()\nwhile c:\n    x = 1\n    c = input()\nprint(x)\n"))
print(issues("c = input()\nif c:\n    x = 1\nprint(x)\n"))
print(issues("c = input()\nif c:\n    x = 1\nelse:\n    print(x)\n"))
print(issues("def f():\n    print(y)\nf()\ny=1\n"))
print(issues("def f():\n    print(y)\ny=1\nf()\n"))
print(issues("c = input()\nif c:\n    x = 1\nelif c == 'a':\n    x = 2\nelse:\n    x = 3\nprint(x)\n"))
print(issues("c = input()\nx = 1\nif c:\n    print(x)\n"))
print(issues("c = input()\nx = 1\nif c:\n    x = 2\nelse:\n    x = 3\nprint(x)"))

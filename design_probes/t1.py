from pedal.core.commands import *
from pedal.core.report import MAIN_REPORT
from pedal.resolvers import simple
import traceback
def t(f):
    clear_report()
    try:
        f(); r=simple.resolve(); print(r.label, r.title, r.message, r.correct, r.score, r._scores)
    except Exception as e:
        traceback.print_exc(limit=2)
print("-- label+fields")
t(lambda:(gently("x",label="foo",fields={'a':1}), suppress(label="foo",fields={'a':1})))
print("-- label no fields")
t(lambda:(gently("x",label="foo",fields={'a':1}), suppress(label="foo")))
print("-- cat None")
t(lambda:(Feedback(label="foo",message="hi")))
print("-- cat+label+fields")
t(lambda:(gently("x",label="foo",fields={'a':1}), suppress("instructor","foo",fields={'a':1})))
print("-- score True")
t(lambda:(gently("x",label="foo",score=True),))
print("-- score 1e-5")
t(lambda:(gently("x",label="foo",score=1e-5),explain("y",score=0.25)))
print("-- score neg")
t(lambda:(gently("x",label="foo",score=-0.5,activate=False),explain("y",score=0.25)))
print("-- score '+20%'")
t(lambda:(give_partial("+20%"),give_partial("20%"), give_partial(".5"), explain("y",score="-10%")))

import itertools, sys
from pedal import *
from pedal.tifa import tifa_analysis
VARS=['x','y']
def atoms():
    for v in VARS:
        yield ('as', v, None)
        for r in VARS: yield ('as', v, r)
        yield ('pr', v)
KINDS=sys.argv[1].split(',')
def blocks(n, depth):
    if n==0:
        yield []; return
    for a in atoms():
        for rest in blocks(n-1, depth):
            yield [a]+rest
    if depth>0:
        for k in range(1, n):
            for kind in KINDS:
                for t in range(1,k+1):
                    e=k-t
                    if kind!='if' and e>0: continue
                    for tb in blocks(t, depth-1):
                        for eb in blocks(e, depth-1):
                            for rest in blocks(n-1-k, depth):
                                yield [(kind, tb, eb)]+rest
def render(b, ind, lines):
    for s in b:
        if s[0]=='as': lines.append(ind + f"{s[1]} = {s[2] if s[2] else 1}")
        elif s[0]=='pr': lines.append(ind + f"print({s[1]})")
        else:
            head={'if':'if c:','wh':'while c:','for':'for i in c:'}[s[0]]
            lines.append(ind + head)
            render(s[1], ind+"    ", lines)
            if s[2]:
                lines.append(ind + "else:")
                render(s[2], ind+"    ", lines)
def number(b, ctr):
    out=[]
    for s in b:
        if s[0] in ('if','wh','for'):
            ln=ctr[0]; ctr[0]+=1
            tb=number(s[1],ctr)
            if s[2]: ctr[0]+=1
            eb=number(s[2],ctr)
            out.append((s[0],tb,eb,ln))
        else:
            out.append(s+(ctr[0],)); ctr[0]+=1
    return out
def paths(b):
    res=[[]]
    for s in b:
        if s[0]=='if':
            tp=paths(s[1]); ep=paths(s[2])
            res=[p+q for p in res for q in tp+ep]
        elif s[0] in ('wh','for'):
            bp=paths(s[1])
            alts=[[]]+bp+[p+q for p in bp for q in bp]
            res=[p+q for p in res for q in alts]
        elif s[0]=='as':
            ev=([('r',s[2],s[3])] if s[2] else [])+[('w',s[1],s[3])]
            res=[p+ev for p in res]
        else:
            res=[p+[('r',s[1],s[2])] for p in res]
    return res
def oracle(nb):
    reads={}
    for p in paths(nb):
        assigned=set()
        for k,v,l in p:
            if k=='r':
                reads.setdefault((v,l),[]).append(v in assigned)
                if v not in assigned: break   # real execution stops with NameError
            else: assigned.add(v)
    return {k for k,bs in reads.items() if not all(bs)}
bad=0;n=0;shown=0
for size in range(1,5):
    for b in blocks(size, 2):
        lines=["c = input()"]; render(b,"",lines); code="\n".join(lines)+"\n"
        need=oracle(number(b,[2]))
        contextualize_report(code); t=tifa_analysis(); n+=1
        got=set()
        for lab in ('initialization_problem','possible_initialization_problem','read_out_of_scope'):
            for i in t.issues.get(lab,[]): got.add((i.fields['name'], i.location.line))
        miss=need-got
        if miss:
            bad+=1
            if shown<6: shown+=1; print("MISSED", miss, "\n"+code)
print(KINDS, "programs", n, "missed", bad)

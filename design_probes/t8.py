from pedal import *
from pedal.core.report import MAIN_REPORT
from pedal.tifa import tifa_analysis
def an(code):
    contextualize_report(code)
    n0=len(MAIN_REPORT.feedback)+len(MAIN_REPORT.ignored_feedback)
    try:
        t = tifa_analysis()
        n1=len(MAIN_REPORT.feedback)+len(MAIN_REPORT.ignored_feedback)
        t2 = tifa_analysis()
        n2=len(MAIN_REPORT.feedback)+len(MAIN_REPORT.ignored_feedback)
        return t.success, (str(t.error)[:60] if t.error else None), n1-n0, n2-n1
    except BaseException as e:
        return 'RAISED', type(e).__name__, str(e)[:60]
progs = {
 'walrus': "if (n := 3) > 2:\n    print(n)\n",
 'match': "x = 1\nmatch x:\n    case 1:\n        print('a')\n    case _:\n        print('b')\n",
 'try': "try:\n    x = 1\nexcept ValueError as e:\n    print(e)\nfinally:\n    print(x)\n",
 'with': "with open('f') as f:\n    print(f.read())\n",
 'lambda': "f = lambda a, b=2: a+b\nprint(f(1))\n",
 'class': "class A:\n    def __init__(self, x):\n        self.x = x\n    def m(self):\n        return self.x\na = A(1)\nprint(a.m())\n",
 'global': "x = 1\ndef f():\n    global x\n    x = 2\nf()\nprint(x)\n",
 'star': "a, *b = [1,2,3]\nprint(a, b)\n",
 'dictcomp': "d = {k: v for k, v in [(1,2)]}\nprint(d)\n",
 'fstring': "x = 1\nprint(f'{x!r:>10}')\n",
 'async': "async def f():\n    await g()\n",
 'yield': "def g():\n    yield 1\nfor i in g():\n    print(i)\n",
 'del': "x = 1\ndel x\n",
 'assert': "x = 1\nassert x == 1, 'no'\n",
 'raise': "raise ValueError('x')\n",
 'slice': "x = [1,2,3]\nprint(x[1:2], x[::2])\n",
 'augsub': "x = [1,2]\nx[0] += 1\nprint(x)\n",
 'nested_def': "def f():\n    def g():\n        return 1\n    return g()\nprint(f())\n",
 'decorator': "def d(f):\n    return f\n@d\ndef g():\n    return 1\nprint(g())\n",
 'kwargs': "def f(*a, **k):\n    return a, k\nprint(f(1, x=2))\n",
 'chained': "a = b = 1\nprint(a, b)\n",
 'ternary': "x = 1 if True else 'a'\nprint(x)\n",
 'set': "s = {1,2}\ns.add(3)\nprint(s)\n",
 'str_methods': "s = 'a b'\nprint(s.split(), s.upper(), s.replace('a','b'), s.find('a'), s.strip().title())\n",
 'list_methods': "l = [3,1]\nl.sort()\nl.append(2)\nl.extend([1])\nl.insert(0, 1)\nprint(l.pop(), l.index(1), l.count(1))\nl.reverse()\nl.remove(1)\n",
 'dict_methods': "d = {'a': 1}\nprint(d.keys(), d.values(), d.items(), d.get('a'), d.pop('a'))\nd.update({'b': 2})\n",
 'builtins': "print(abs(-1), len([1]), max(1,2), min([1,2]), sum([1]), round(1.5), int('1'), float('1'), str(1), bool(0), list('ab'), sorted([2,1]), range(3), type(1), isinstance(1,int), enumerate([1]), zip([1],[2]), map(str,[1]), filter(None,[1]), reversed([1]), any([1]), all([1]), ord('a'), chr(97), input('x'), open('f'), divmod(1,2), pow(2,3), repr(1), hex(1), set([1]), dict(), tuple([1]))\n",
 'import': "import math\nimport random\nfrom math import sqrt\nprint(math.pi, sqrt(4), random.randint(1,2))\n",
 'import_unknown': "import foo.bar\nprint(foo.bar.baz)\n",
 'tuple_add': "x = (1,2) + (3,)\nprint(x)\n",
 'floordiv': "a = 1.5\nb = 2\nc = a // b\nprint(c)\n",
 'str_mod': "print('%d' % 3)\n",
 'nonlocal': "def f():\n    x = 1\n    def g():\n        nonlocal x\n        x = 2\n    g()\n    return x\nprint(f())\n",
 'while_else': "i = 0\nwhile i < 3:\n    i += 1\nelse:\n    print(i)\n",
 'listcomp_if': "print([x for x in range(3) if x])\n",
 'recursion': "def f(n):\n    if n == 0:\n        return 1\n    return n * f(n-1)\nprint(f(3))\n",
 'typehint': "def f(a: int, b: list[str]) -> dict[str, int]:\n    return {}\nx: int = 1\nprint(f(1, ['a']), x)\n",
 'dataclass': "from dataclasses import dataclass\n@dataclass\nclass P:\n    x: int\np = P(1)\nprint(p.x)\n",
 'deep': "x = " + "("*50 + "1" + ")"*50 + "\nprint(x)\n",
 'bigsum': "x = " + "+".join(["1"]*1500) + "\nprint(x)\n",
}
for k,v in progs.items():
    print(k, an(v))

import random
from pedal import *
from pedal.core.report import MAIN_REPORT
from pedal.source import verify
from pedal.source.sections import separate_into_sections, next_section, stop_sections
from pedal.tifa import tifa_analysis
rng=random.Random(5)
bad={}
for it in range(400):
    nsec=rng.randint(0,4)
    chunks=[]
    for k in range(nsec+1):
        body=[rng.choice(["a = 1","print(a)","","b = a + 1","# c","   "]) for _ in range(rng.randint(0,4))]
        chunks.append(body)
    lines=[]; starts=[]  # whole-file first line number of each chunk
    for k,body in enumerate(chunks):
        if k>0: lines.append(f"##### Part {k}")
        starts.append(len(lines)+1)
        lines+=body
    # plant a syntax error or undefined read in a random later section
    plant=None
    if nsec>0 and rng.random()<0.7:
        k=rng.randint(1,nsec); kind=rng.choice(['syntax','tifa'])
        pos=rng.randint(0,len(chunks[k]))
        idx=starts[k]-1+pos
        lines.insert(idx, "x = (" if kind=='syntax' else "print(zz)")
        plant=(k,kind,idx+1)
    code="\n".join(lines)+("\n" if rng.random()<0.8 else "")
    independent=rng.random()<0.5
    contextualize_report(code)
    separate_into_sections(independent=independent)
    src=MAIN_REPORT['source']
    if ''.join(src['sections'])!=code: bad.setdefault('lossy',[]).append(code)
    try:
        for k in range(1,nsec+1):
            next_section()
            mc=MAIN_REPORT.submission.main_code
            exp = src['sections'][2*k] if independent else ''.join(src['sections'][:2*k+1])
            if mc!=exp: bad.setdefault('wrong-section',[]).append((k,independent))
            if plant and plant[0]==k:
                if plant[1]=='syntax':
                    verify()
                    got=[f.location.line for f in MAIN_REPORT.feedback if f.category=='syntax' and f.label!='blank_source']
                else:
                    if verify():
                        t=tifa_analysis(); got=[i.location.line for i in t.issues.get('initialization_problem',[]) if i.fields['name']=='zz']
                    else: got=['unparsable']
                if got[:1]!=[plant[2]] and got!=['unparsable']: bad.setdefault(('line',plant[1],independent),[]).append((got,plant[2]))
        stop_sections()
        if MAIN_REPORT.submission.main_code!=code: bad.setdefault('not-restored',[]).append(1)
    except Exception as e:
        bad.setdefault(('EXC',type(e).__name__),[]).append(str(e)[:50])
print({k:(len(v),v[:2]) for k,v in bad.items()})

import random, ast
from pedal import *
from pedal.core.feedback import Feedback
from pedal.core.report import MAIN_REPORT
from pedal.resolvers import simple
from pedal.sandbox.commands import *
rng=random.Random(7)

from pedal.sandbox.sandbox import Sandbox
def append_output(self, raw_output, context):
    self.raw_output += raw_output
    context.output = raw_output
    if raw_output:
        lines = raw_output.rstrip().split("\n")
        lines = [line.rstrip() for line in lines]
        self.output.extend(lines)
Sandbox.append_output = append_output
# ---- C15
mism=0
for case in range(2000):
    contextualize_report("def f(s):\n    print(s, end='')\n    return 1\ndef g():\n    return input('p?')\n")
    run()
    sb=get_sandbox()
    raw=""; lines=[]; q=[]
    for step in range(rng.randint(1,8)):
        op=rng.randint(0,5)
        if op<=2:
            s=rng.choice(["", "a", "a\n", "a \n\nb  \n", "\n", " ", "x\ty\n\n", "\x0c\n", "a\nb"])
            call('f', s)
            raw+=s
            if s: lines += [l.rstrip() for l in s.rstrip().split("\n")]
        elif op==3:
            v=call('g'); exp = q.pop(0) if q else '0'
            raw+="p?\n"; lines+=["p?"]
            if v!=exp: mism+=1; print("C15 input mismatch", v, exp)
        elif op==4:
            clear_output(); raw=""; lines=[]
        else:
            items=[str(rng.randint(0,9)) for _ in range(rng.randint(0,2))]
            if rng.random()<0.5: set_input(items); q=list(items)
            else: queue_input(*items); q+=items
        if sb.raw_output!=raw: mism+=1; print("C15 raw mismatch", repr(sb.raw_output), repr(raw)); break
        if sb.output!=lines:
            # tolerate the known phantom: count separately
            mism+=1
            if mism<4: print("C15 lines mismatch", sb.output, lines)
            break
print("C15 mismatching histories (incl. known phantom)", mism)

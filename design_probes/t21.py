import ast, random, glob, re
from pedal import *
from pedal.core.report import MAIN_REPORT
from pedal.source import verify
from pedal.cait.cait_api import find_asts
from pedal.cait.find_node import find_operation, find_function_calls
from pedal.assertions.static import *
rng=random.Random(3)
srcs=[open(f).read() for f in glob.glob('/repo/examples/**/*.py',recursive=True)+glob.glob('/repo/tests/datafiles/*.py')]
srcs=[s for s in srcs if len(s)<4000]
ok=[]
for s in srcs:
    try: ast.parse(s); ok.append(s)
    except Exception: pass
print("sources", len(ok))
# ---- C08 find_asts vs walk, find_operation vs walk
SYM={'==':ast.Eq,'<':ast.Lt,'<=':ast.LtE,'>=':ast.GtE,'>':ast.Gt,'!=':ast.NotEq,'is':ast.Is,'is not':ast.IsNot,'in':ast.In,'not in':ast.NotIn,
 'and':ast.And,'or':ast.Or,'+':ast.Add,'-':ast.Sub,'*':ast.Mult,'/':ast.Div,'//':ast.FloorDiv,'%':ast.Mod,'**':ast.Pow,'>>':ast.RShift,'<<':ast.LShift,'|':ast.BitOr,'^':ast.BitXor,'&':ast.BitAnd,'@':ast.MatMult,'not':ast.Not,'~':ast.Invert}
extra="a = 1 <= 2 >= 3\nb = 1 << 2 >> 3\nc = ~1 @ 2 ^ 3 | 4 & 5\nd = not (1 is not None) and (2 not in [3]) or 5 // 2 % 3 ** 2\n"
bad={}
for s in ok[:25]+[extra]:
    contextualize_report(s); tree=ast.parse(s)
    for name in ['For','While','If','Call','Name','Assign','FunctionDef','Return','BinOp','Compare','List','Dict','Str','Num','Bool','Constant','Attribute','Import','ImportFrom']:
        got=len(find_asts(name))
        if name in('Str','Num','Bool'):
            pred={'Str':lambda v:isinstance(v,str),'Num':lambda v:isinstance(v,(int,float)) and not isinstance(v,bool),'Bool':lambda v:isinstance(v,bool)}[name]
            exp=sum(1 for n in ast.walk(tree) if isinstance(n,ast.Constant) and pred(n.value))
        else:
            exp=sum(1 for n in ast.walk(tree) if type(n).__name__==name)
        if got!=exp: bad.setdefault(('find_asts',name),[]).append((got,exp))
    for sym,cls in SYM.items():
        got=len(find_operation(sym))
        exp=sum(1 for n in ast.walk(tree) if isinstance(n,cls))
        if sym in('-','+'):  # binary only
            exp=sum(1 for n in ast.walk(tree) if isinstance(n,ast.BinOp) and isinstance(n.op,cls))
        if got!=exp: bad.setdefault(('find_operation',sym),[]).append((got,exp))
print("C08", {k:v[:3] for k,v in bad.items()})
# thresholds
contextualize_report("x = 1 + 2 + 3\nprint(x)\nprint(x)\n")
print("C08 thresholds", [(n, bool(ensure_operation('+', at_least=n))) for n in range(0,5)], [(m, bool(prevent_operation('+', at_most=m))) for m in range(0,4)],
      [(n, bool(ensure_function_call('print', at_least=n))) for n in range(0,4)], [(m, bool(prevent_function_call('print', at_most=m))) for m in range(0,4)])
# ---- C12 mutation fuzz
raised={}; mism=0; n=0
chars=list("()[]{}:,.=+-*'\"\\ \t\n#") + ["\x00","\x0c","\r","é"," ","if","def","  "]
for it in range(6000):
    s=rng.choice(ok)
    lines=s.split("\n"); k=rng.randint(0,max(0,len(lines)-12)); s="\n".join(lines[k:k+rng.randint(1,12)])
    for m in range(rng.randint(0,3)):
        if not s: break
        p=rng.randrange(len(s)+1)
        if rng.random()<0.5: s=s[:p]+rng.choice(chars)+s[p:]
        else: s=s[:p]+s[p+1:]
    try:
        ast.parse(s); cp=None
    except SyntaxError as e: cp=('SE', e.lineno)
    except Exception as e: cp=('OTHER', type(e).__name__)
    contextualize_report(s); n+=1
    try:
        verify()
    except Exception as e:
        raised[(type(e).__name__, cp)] = raised.get((type(e).__name__, cp),0)+1; continue
    syn=[f for f in MAIN_REPORT.feedback if f.category=='syntax' and f.label!='blank_source']
    if (cp is None) != (len(syn)==0): mism+=1
    elif cp and cp[0]=='SE' and syn[0].location.line != cp[1]: mism+=1
print("C12 cases", n, "verify raised", raised, "mismatch", mism)

import sys, time, threading
from pedal import *
from pedal.core.report import MAIN_REPORT
from pedal.sandbox.commands import *
so = sys.stdout
def show(tag):
    sb = get_sandbox()
    print(tag, 'exc=', type(sb.exception).__name__, 'stacks=', len(sb._current_patches), len(sb._current_stdout),
          'stdout_restored=', sys.stdout is so, 'rt_fb=', [f.label for f in MAIN_REPORT.feedback if f.category=='runtime'], file=so)
for name, code in [('busy', "while True:\n    pass\n"),
                   ('prints', "i=0\nwhile True:\n    i+=1\n    if i%100000==0: print(i)\n"),
                   ('swallow', "while True:\n    try:\n        while True: pass\n    except BaseException:\n        pass\n"),
                   ]:
    contextualize_report(code)
    sb = get_sandbox(); sb.allowed_time = 0.3
    t0=time.time()
    try:
        run(threaded=True)
    except BaseException as e:
        print(name, "ESCAPED", type(e).__name__, file=so)
    dt=time.time()-t0
    show(f"{name} after {dt:.2f}s")
    time.sleep(0.5)
    show(f"{name} +0.5s")
    try:
        run("print('next')\nx=1\n", filename='answer.py')
    except BaseException as e:
        sys.stdout = so
        print("next ESCAPED", type(e).__name__, e, file=so)
    print("   next output:", get_sandbox().output, repr(get_sandbox().raw_output)[:60], 'alive threads', threading.active_count(), file=so)
    show("   after next")
    sys.stdout = so

from pedal import *
from pedal.core.report import MAIN_REPORT
from pedal.sandbox.feedbacks import runtime_error, type_error
from pedal.types.normalize import get_pedal_type_from_value
from pedal.types.new_types import is_subtype
print("== override inheritance")
t0, t1 = runtime_error.title, type_error.title
runtime_error.override(title="X"); type_error.override(title="Y")
clear_report()
print(runtime_error.title == t0, type_error.title == t1, runtime_error.title, type_error.title)
runtime_error.title = t0; type_error.title="Type Error"
print("== tuple type")
t = get_pedal_type_from_value((1,'a'))
print(is_subtype(t,t), is_subtype(t,t))
print("== proxy")
contextualize_report("def f(x):\n    return x\n")
run()
import io, contextlib
def tryop(name, fn):
    buf=io.StringIO()
    try:
        with contextlib.redirect_stdout(buf):
            r = fn()
        print(name, '->', repr(r), type(r).__name__, 'stdout=',repr(buf.getvalue()))
    except BaseException as e:
        print(name, 'EXC', type(e).__name__, str(e)[:60])
p2 = call('f', 2); pl = call('f',[2]); ps=call('f','ab'); pf=call('f',2.5)
import math
tryop("p2*3", lambda: p2*3)
tryop("3*p2", lambda: 3*p2)
tryop("float(p2)", lambda: float(p2))
tryop("math.trunc(pf)", lambda: math.trunc(pf))
tryop("[1]+pl", lambda: [1]+pl)
tryop("pl+[1]", lambda: pl+[1])
tryop("1 & p(set)", lambda: 1 & call('f', {1}))
tryop("p2 & {1}", lambda: p2 & {1})
tryop("8>>p2", lambda: 8>>p2)
tryop("p2>>1", lambda: p2>>1)
tryop("'a' in ps", lambda: 'a' in ps)
tryop("ps in 'xabx'", lambda: ps in 'xabx')
tryop("complex(p2)", lambda: complex(p2))
tryop("round(pf)", lambda: round(pf))
tryop("math.floor(pf)", lambda: math.floor(pf))
tryop("isinstance(p2,int)", lambda: isinstance(p2,int))
tryop("hash(p2)", lambda: hash(p2))
tryop("p2 ** 2", lambda: p2 ** 2)
tryop("2 ** p2", lambda: 2 ** p2)
tryop("pow(p2,2,3)", lambda: pow(p2,2,3))
tryop("divmod(7,p2)", lambda: divmod(7,p2))
tryop("-p2", lambda: -p2)
tryop("'%d' % p2", lambda: '%d' % p2)
tryop("ps % 1", lambda: call('f','%d') % 1)
tryop("p2 < 'a'", lambda: p2 < 'a')
from pedal.sandbox.result import len as plen
tryop("plen([1,2])", lambda: plen([1,2]))
tryop("plen(pl)", lambda: plen(pl))

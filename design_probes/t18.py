import random, ast
from pedal import *
from pedal.core.feedback import Feedback
from pedal.core.report import MAIN_REPORT
from pedal.resolvers import simple
from pedal.sandbox.commands import *
rng=random.Random(7)
# ---- C03
mism=0
for case in range(20000):
    clear_report()
    fbs=[]
    for i in range(rng.randint(1,5)):
        k=rng.randint(-50,100)
        form=rng.randint(0,5)
        score={0:k/100,1:f"+{abs(k)}%",2:f"-{abs(k)}%",3:f"{abs(k)/100}",4:None,5:f"+{abs(k)/100}"}[form]
        kw=dict(label=f"l{i}", category=rng.choice(["instructor","runtime","specification","complete","weird"]),
                valence=rng.choice([None,-1,0,1]), muted=rng.choice([None,False,True]), unscored=rng.choice([None,False,True]),
                activate=rng.random()<0.6, message="m", score=score)
        fbs.append(Feedback(**kw))
    sup=None
    if rng.random()<0.3:
        sup=rng.choice(["instructor","runtime"]); suppress(sup)
    r=simple.resolve()
    if r.label=="set_correct_no_errors" and r.score==1: continue
    tot=0
    for f in fbs:
        if sup and f.category==sup: continue
        if f.unscored or f.score is None: continue
        s=f.score
        if isinstance(s,str):
            neg=s.startswith('-'); v=float(s.strip('+-%')); v = v/100 if s.endswith('%') else v
        else:
            neg = s<0; v=abs(s)
        awards = (bool(f) and f.valence!=-1) or (not bool(f) and f.valence==-1)
        if awards: tot += -v if neg else v
    if round(tot,2)!=r.score:
        mism+=1
        if mism<4: print("C03 MISMATCH", r.score, round(tot,2), [(f.score,f.valence,bool(f),f.muted,f.unscored,f.category) for f in fbs], sup)
print("C03 mismatches", mism)
# ---- C15
mism=0
for case in range(300):
    contextualize_report("def f(s):\n    print(s, end='')\n    return 1\ndef g():\n    return input('p?')\n")
    run()
    sb=get_sandbox()
    raw=""; lines=[]; q=[]
    for step in range(rng.randint(1,8)):
        op=rng.randint(0,5)
        if op<=2:
            s=rng.choice(["", "a", "a\n", "a \n\nb  \n", "\n", " ", "x\ty\n\n", "\x0c\n", "a\nb"])
            call('f', s)
            raw+=s
            if s: lines += [l.rstrip() for l in s.rstrip().split("\n")]
        elif op==3:
            v=call('g'); exp = q.pop(0) if q else '0'
            raw+="p?\n"; lines+=["p?"]
            if v!=exp: mism+=1; print("C15 input mismatch", v, exp)
        elif op==4:
            clear_output(); raw=""; lines=[]
        else:
            items=[str(rng.randint(0,9)) for _ in range(rng.randint(0,2))]
            if rng.random()<0.5: set_input(items); q=list(items)
            else: queue_input(*items); q+=items
        if sb.raw_output!=raw: mism+=1; print("C15 raw mismatch", repr(sb.raw_output), repr(raw)); break
        if sb.output!=lines:
            # tolerate the known phantom: count separately
            mism+=1
            if mism<4: print("C15 lines mismatch", sb.output, lines)
            break
print("C15 mismatching histories (incl. known phantom)", mism)

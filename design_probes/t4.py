from pedal.core.commands import contextualize_report, clear_report
from pedal.core.report import MAIN_REPORT
from pedal.source import verify
import ast, traceback
def t(code):
    contextualize_report(code)
    try:
        cp = None
        try:
            ast.parse(code); cp='ok'
        except SyntaxError as e:
            cp=(type(e).__name__, e.lineno, e.offset, e.msg)
        except Exception as e:
            cp=('OTHER', type(e).__name__, str(e))
        r = verify()
        fb=[(f.label, f.category, f.location.line if f.location else None) for f in MAIN_REPORT.feedback]
        print(repr(code)[:40], 'cpython=',cp, 'verify=',r, fb, MAIN_REPORT['source']['success'])
    except Exception as e:
        print(repr(code)[:40], 'cpython=',cp, 'VERIFY RAISED', type(e).__name__, e)
for c in ["a=1", "a=", "  a=1", "if x:\npass", "a\0b", "", "  \n\t", "x = (", "'''abc", "a\tb", "\x0c a=1", "a=1\r\nb=2\r", "def f():\n\treturn 1\n        return 2", "é = 1", "x = 1 +\n", "(" * 300 + ")" * 300, "f(**)", "print 'a'", "x = 0777", "a = 1\n b = 2", "\\", "a = '\\x'", "x = [1,2\n", "def f(:\n pass", "class", "-"*100000+"1"]:
    t(c)

from pedal import *
from pedal.core.report import MAIN_REPORT
from pedal.core.feedback import Feedback
from pedal.core.commands import set_pools
clear_report()
class bad_cond(Feedback):
    category='instructor'
    def condition(self): raise KeyError('boom')
class bad_msg(Feedback):
    category='instructor'
    message_template="{nope}"
def show(tag, mk):
    n0=(len(MAIN_REPORT.feedback), len(MAIN_REPORT.ignored_feedback))
    fb=None
    try:
        fb = mk(); r='returned'
    except Exception as e:
        r='raised '+type(e).__name__
    n1=(len(MAIN_REPORT.feedback), len(MAIN_REPORT.ignored_feedback))
    last = (MAIN_REPORT.feedback+MAIN_REPORT.ignored_feedback)
    print(tag, r, n0,'->',n1, 'bool', bool(fb) if fb is not None else None)
show("bad_cond", lambda: bad_cond())
print("  status", MAIN_REPORT.ignored_feedback[-1]._status)
show("bad_msg", lambda: bad_msg())
print("  status", (MAIN_REPORT.ignored_feedback[-1]._status, MAIN_REPORT.ignored_feedback[-1].label))
show("bad_msg inactive", lambda: bad_msg(activate=False))
show("gently", lambda: gently("x"))
show("gently off", lambda: gently("x", activate=False))
show("delay", lambda: Feedback(category='instructor', delay_condition=True))
show("template fmt", lambda: Feedback(category='instructor', message_template="L{line:line} {name:name} {v}", fields={'line':3,'name':'x','v':[1]}))
print("  msg", MAIN_REPORT.feedback[-1].message)
show("extra kw", lambda: Feedback(category='instructor', message_template="{a}", a=5))
print("  msg", MAIN_REPORT.feedback[-1].message)
print("== pools leak")
clear_report()
set_pools(2); gently.override_for_pool('A', title='POOL-A'); gently.override_for_pool('B', title='POOL-B')
clear_report()
print(MAIN_REPORT.pools, MAIN_REPORT.chosen_pool, Feedback._pools)
from pedal.resolvers import simple
gently("hi"); r=simple.resolve(); print(r.title)
Feedback._pools.clear(); MAIN_REPORT.pools=[]; MAIN_REPORT.chosen_pool=None

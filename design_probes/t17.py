import random, traceback
from pedal.core.commands import *
from pedal.core.feedback import Feedback
from pedal.core.report import MAIN_REPORT
from pedal.resolvers import simple
ORDER=["highest","syntax","mistakes","instructor","algorithmic","runtime","student","specification","positive","instructions","uncategorized","lowest"]
ALIAS={'parser':'syntax','verifier':'syntax','instructor':'instructor','analyzer':'algorithmic'}
CATS=["syntax","Runtime","instructor","algorithmic","specification","student","positive","instructions","uncategorized","system","complete","style","weird","mistakes"]
PRIOS=[None,"high","medium","low","highest","lowest","syntax","student","parser","analyzer","junk","Runtime"]
KINDS=[None,"Mistake","Compliment","Instructional","Result"]
def key(f):
    cat=(f.category or 'uncategorized').lower()
    pr='medium'
    if f.priority is not None:
        pr=f.priority.lower(); pr=ALIAS.get(pr,pr)
    v=ORDER.index(cat) if cat in ORDER else len(ORDER)
    if pr in ORDER: v=ORDER.index(pr); pr='medium'
    return v*10+{'low':7,'medium':5,'high':3}.get(pr,1)
def suppressed(f, sups):
    for (c,l,flds) in sups:
        if c is not None:
            cc=c.lower(); cc=ALIAS.get(cc,cc)
            if f.category.lower()!=cc: continue
            if l is True: return True   # any category-wide entry suppresses
        # label matching
    # emulate precisely per docs: category-wide; category+label(+fields); label(+fields)
    for (c,l,flds) in sups:
        flds=flds or {}
        if c is not None:
            cc=c.lower(); cc=ALIAS.get(cc,cc)
            if f.category.lower()==cc and l is not True and f.label.lower()==l.lower() and all(f.fields.get(k)==v for k,v in flds.items()): return True
        else:
            if f.label==l and all(f.fields.get(k)==v for k,v in flds.items()): return True
    return False
rng=random.Random(1)
mism=0; errs={}
for case in range(20000):
    clear_report()
    fbs=[]
    for i in range(rng.randint(0,4)):
        kw=dict(label=rng.choice(["a","b","C"]), category=rng.choice(CATS), priority=rng.choice(PRIOS), kind=rng.choice(KINDS),
                muted=rng.choice([None,False,True]), activate=rng.random()<0.75, message=f"m{i}", title=rng.choice([None,f"t{i}"]),
                correct=rng.choice([None,False,True]), fields=rng.choice([{}, {'k':1},{'k':2,'j':1}]))
        if rng.random()<0.2: kw['else_message']="e"
        fbs.append(Feedback(**kw))
    sups=[]
    for i in range(rng.randint(0,2)):
        form=rng.randint(0,3)
        c=rng.choice(CATS+["parser","analyzer"]); l=rng.choice(["a","b","C","c"]); fl=rng.choice([{'k':1},{'k':2},{'j':1,'k':2}])
        s={0:(c,True,None),1:(c,l,None),2:(None,l,None),3:(c,l,fl)}[form]   # label+fields form excluded (known crash)
        sups.append(s); suppress(s[0], s[1], s[2])
    try:
        r=simple.resolve()
    except Exception as e:
        errs[type(e).__name__+str(e)[:40]]=errs.get(type(e).__name__+str(e)[:40],0)+1; continue
    elig=[f for f in fbs if f and not f.muted and f.kind!="Compliment" and not suppressed(f,sups)]
    if elig:
        best=min(elig,key=lambda f:(key(f), fbs.index(f)))
        exp=(best.label, best.title or best.label, best.message)
        expc=all(bool(f.correct) for f in elig)
    else:
        exp=("set_correct_no_errors","Complete","Great work!"); expc=True
    got=(r.label,r.title,r.message)
    if got!=exp or r.correct!=expc:
        mism+=1
        if mism<=5:
            print("MISMATCH", got, r.correct, "expected", exp, expc)
            for f in fbs: print("   ", f.label,f.category,f.priority,f.kind,f.muted,bool(f),f.correct,f.fields, key(f))
            print("   sups",sups)
print("mismatches",mism,"errors",errs)

import operator, math, io, contextlib, itertools
from pedal.sandbox.result import SandboxResult
class U:
    def __init__(s,v): s.v=v
    def __add__(s,o): return U(s.v+(o.v if isinstance(o,U) else o))
    def __radd__(s,o): return U(o+s.v)
    def __eq__(s,o): return isinstance(o,U) and s.v==o.v
    def __hash__(s): return hash(s.v)
    def __repr__(s): return f"U({s.v})"
vals={'int':3,'negint':-2,'float':2.5,'bool':True,'str':'ab','fmt':'%d','list':[1,2],'tuple':(1,2),'dict':{1:2},'set':{1,2},'none':None,'complex':1+2j,'user':U(1)}
binops={'+':operator.add,'-':operator.sub,'*':operator.mul,'/':operator.truediv,'//':operator.floordiv,'%':operator.mod,'**':operator.pow,
 '<<':operator.lshift,'>>':operator.rshift,'&':operator.and_,'|':operator.or_,'^':operator.xor,'@':operator.matmul,
 '<':operator.lt,'<=':operator.le,'>':operator.gt,'>=':operator.ge,'==':operator.eq,'!=':operator.ne,
 'in':lambda a,b: a in b,'getitem':lambda a,b:a[b],'divmod':divmod}
unops={'neg':operator.neg,'pos':operator.pos,'abs':abs,'invert':operator.invert,'len':len,'hash':hash,'bool':bool,'str':str,'repr':repr,
 'format':lambda a: format(a,''),'int':int,'float':float,'complex':complex,'round':round,'trunc':math.trunc,'floor':math.floor,'ceil':math.ceil,
 'iter':lambda a:list(iter(a)),'isinst':lambda a:(isinstance(a,int),isinstance(a,str),isinstance(a,list)),'index':operator.index,'reversed':lambda a:list(reversed(a)),
 'round1':lambda a: round(a,1),'sum':lambda a: sum(a),'sorted':lambda a: sorted(a),'fstr':lambda a: f"{a}"}
def run(f,*a):
    buf=io.StringIO()
    try:
        with contextlib.redirect_stdout(buf):
            r=f(*a)
        if isinstance(r, SandboxResult) or type(r).__name__=='SandboxResult' or hasattr(r,'_actual_value'):
            try: r=object.__getattribute__(r,'value')
            except Exception: pass
        return ('ok', r, buf.getvalue())
    except RecursionError: return ('exc','RecursionError',buf.getvalue())
    except Exception as e: return ('exc',type(e).__name__,buf.getvalue())
def same(a,b):
    if a[0]!=b[0]: return False
    if a[0]=='exc': return True   # both fail: fine
    try:
        eq = (a[1]==b[1]) and type(a[1])==type(b[1])
    except Exception: eq=False
    return eq and b[2]==''
bad={}
W=lambda v: SandboxResult(v)
for on,f in binops.items():
    for (ln,lv),(rn,rv) in itertools.product(vals.items(),repeat=2):
        real=run(f,lv,rv)
        for place,(a,b) in {'L':(W(lv),rv),'R':(lv,W(rv)),'B':(W(lv),W(rv))}.items():
            got=run(f,a,b)
            if got[0]=='ok' and got[1] is NotImplemented: bad.setdefault((on,place,'NotImplemented leaked'),[]).append((ln,rn))
            elif real[0]=='ok' and not same(real,got):
                why = got[1] if got[0]=='exc' else ('stdout' if got[2] else f'value {got[1]!r}!={real[1]!r}')
                bad.setdefault((on,place,str(why)[:40]),[]).append((ln,rn))
            elif real[0]=='exc' and got[0]=='ok':
                bad.setdefault((on,place,'succeeds where real fails'),[]).append((ln,rn))
for on,f in unops.items():
    for ln,lv in vals.items():
        real=run(f,lv); got=run(f,W(lv))
        if real[0]=='ok' and not same(real,got):
            why = got[1] if got[0]=='exc' else ('stdout' if got[2] else f'value {got[1]!r}!={real[1]!r}')
            bad.setdefault((on,'U',str(why)[:40]),[]).append(ln)
        elif real[0]=='exc' and got[0]=='ok':
            bad.setdefault((on,'U','succeeds where real fails'),[]).append(ln)
for k,v in sorted(bad.items()):
    print(k, len(v), v[:6])
print("pow3", run(pow, W(2),2,3), run(pow,2,2,3))

from pedal import *
from pedal.tifa import tifa_analysis
from pedal.types.builtin import *
import pedal.types.builtin as b
calls = ["abs(-1)", "len([1])", "max(1,2)", "min([1,2])", "sum([1])", "round(1.5)", "int('1')", "float('1')", "str(1)", "bool(0)", "list('ab')", "sorted([2,1])", "range(3)", "type(1)", "isinstance(1,int)", "enumerate([1])", "zip([1],[2])", "map(str,[1])", "filter(None,[1])", "reversed([1])", "any([1])", "all([1])", "ord('a')", "chr(97)", "input('x')", "open('f')", "divmod(1,2)", "pow(2,3)", "repr(1)", "hex(1)", "set([1])", "dict()", "tuple([1])", "print(1)", "id(1)", "bin(1)", "oct(1)", "callable(1)", "frozenset([1])", "bytes(1)", "complex(1)", "iter([1])", "next(iter([1]))", "globals()", "locals()", "vars()", "dir()", "format(1)", "hash(1)", "getattr(1,'a')", "hasattr(1,'a')", "slice(1)", "super()", "object()", "issubclass(int,int)", "exit()", "quit()", "help()", "eval('1')", "exec('1')", "compile('1','','eval')", "ascii(1)", "memoryview(b'')", "bytearray(1)", "staticmethod(1)", "classmethod(1)", "property()", "__import__('m')", "breakpoint()", "delattr(1,'a')", "setattr(1,'a',1)"]
for c in calls:
    contextualize_report(f"x = {c}\nprint(x)\n")
    t = tifa_analysis()
    if not t.success:
        print(c, '->', t.error)
print(sorted(k for k in dir(b) if not k.startswith('_'))[:60])

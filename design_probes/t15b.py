import itertools, sys
from pedal import *
from pedal.tifa import tifa_analysis
# mini language: ('as', var, readvar|None) ; ('pr', var) ; ('if', [then], [else])
VARS=['x','y']
def atoms():
    for v in VARS:
        yield ('as', v, None)
        for r in VARS: yield ('as', v, r)
        yield ('pr', v)
def blocks(n, depth):
    # all statement lists of exactly n atoms-or-ifs total size
    if n==0:
        yield []; return
    for a in atoms():
        for rest in blocks(n-1, depth):
            yield [a]+rest
    if depth>0:
        for k in range(1, n):  # if consumes 1 + size of bodies = k+1 <= n
            for t in range(0,k+1):
                e=k-t
                if t==0: continue  # then-body must be nonempty
                for tb in blocks(t, depth-1):
                    for eb in blocks(e, depth-1):
                        for rest in blocks(n-1-k, depth):
                            yield [('if', tb, eb)]+rest
def render(b, ind, lines):
    for s in b:
        if s[0]=='as':
            lines.append(ind + f"{s[1]} = {s[2] if s[2] else 1}")
        elif s[0]=='pr':
            lines.append(ind + f"print({s[1]})")
        else:
            lines.append(ind + "if c:")
            render(s[1], ind+"    ", lines)
            if s[2]:
                lines.append(ind + "else:")
                render(s[2], ind+"    ", lines)
def number(b, ctr):
    out=[]
    for s in b:
        if s[0]=='if':
            ln=ctr[0]; ctr[0]+=1
            tb=number(s[1],ctr)
            if s[2]:
                ctr[0]+=1
            eb=number(s[2],ctr)
            out.append(('if',tb,eb,ln))
        else:
            out.append(s+(ctr[0],)); ctr[0]+=1
    return out
def paths(b):
    # list of traces: each trace list of ('r',var,line)/('w',var,line)
    res=[[]]
    for s in b:
        if s[0]=='if':
            tp=paths(s[1]); ep=paths(s[2])
            res=[p+q for p in res for q in tp+ep]
        elif s[0]=='as':
            ev=([('r',s[2],s[3])] if s[2] else [])+[('w',s[1],s[3])]
            res=[p+ev for p in res]
        else:
            res=[p+[('r',s[1],s[2])] for p in res]
    return res
def oracle(nb):
    ps=paths(nb)
    reads={}  # (var,line) -> list of bool assigned-before per path containing it
    for p in ps:
        assigned=set()
        for k,v,l in p:
            if k=='r': reads.setdefault((v,l),[]).append(v in assigned)
            else: assigned.add(v)
    init={}
    for key,bs in reads.items():
        init[key]='ok' if all(bs) else ('none' if not any(bs) else 'some')
    # unused: per var, per path: read after last assignment?
    unused={}
    for v in VARS:
        st=[]
        for p in ps:
            last=None
            for i,(k,vv,l) in enumerate(p):
                if k=='w' and vv==v: last=i
            if last is None: continue
            st.append(any(k=='r' and vv==v for k,vv,l in p[last+1:]))
        if st:
            unused[v]='all' if all(st) else ('none' if not any(st) else 'some')
    return init, unused
bad=0; n=0; stats={}; shown=0; shown2=0
for size in range(1,5):
    for b in blocks(size, 2):
        lines=["c = input()"]
        render(b,"",lines)
        code="\n".join(lines)+"\n"
        nb=number(b,[2])
        init,unused=oracle(nb)
        contextualize_report(code)
        t=tifa_analysis()
        n+=1
        got={}
        for lab in ('initialization_problem','possible_initialization_problem','read_out_of_scope'):
            for i in t.issues.get(lab,[]):
                got.setdefault((i.fields['name'], i.location.line), set()).add(lab)
        ok=True; why=[]
        for key,cls in init.items():
            g=got.get(key,set())
            exp = set() if cls=='ok' else ({'initialization_problem'} if cls=='none' else {'possible_initialization_problem'})
            if cls=='none':
                good = g and g <= {'initialization_problem','read_out_of_scope'}
            else:
                good = g==exp
            if not good: ok=False; why.append((key,cls,g))
        for key in got:
            if key not in init and key[0]!='c': ok=False; why.append(('extra',key,got[key]))
        un={i.fields['name'] for i in t.issues.get('unused_variable',[])}
        for v,cls in unused.items():
            if cls=='none' and v not in un: ok=False; why.append(('unused-missing',v))
            if cls=='all' and v in un: ok=False; why.append(('unused-spurious',v))
        if not ok:
            bad+=1
            clean = all(cls=='ok' for cls in init.values())
            kinds = tuple(sorted({w[0] if isinstance(w[0],str) else 'init' for w in why}))
            stats[(clean,kinds)] = stats.get((clean,kinds),0)+1
            if clean and shown<10:
                shown+=1; print("MISMATCH-CLEAN", why, "\n"+code)
            elif 'init' in kinds and shown2<6:
                shown2+=1; print("MISMATCH-INIT", why, "\n"+code)
print("programs", n, "mismatches", bad, stats)

import itertools, re, operator
from pedal import *
from pedal.core.report import MAIN_REPORT
from pedal.assertions.runtime import *
contextualize_report("def ident(x):\n    return x\ndef boom():\n    return 1/0\n")
run()
vals={'i1':1,'i2':2,'f1':1.0,'f1c':1.0005,'f1d':1.002,'bT':True,'sA':'Ab.','sa':'ab','sb':'b','l12':[1,2],'l21':[2,1],'t12':(1,2),'d':{'a':1},'s12':{1,2},'s1':{1},'s3':{3},'none':None,'n3':3,'lnest':[1,[2.0005]],'lnest2':[1,[2.0]],'e':[]}
def rel_eq(a,b):
    # documented: float tolerance .001, string normalisation, containers recursive
    from pedal.utilities.comparisons import equality_test
    return equality_test(a,b,False,.001) or equality_test(b,a,False,.001)   # order-free reading
def R(f):
    def g(a,b):
        try: return bool(f(a,b))
        except Exception: return None   # unevaluable => relation does not hold
    return g
rels={
 'assert_less':R(operator.lt),'assert_less_equal':R(operator.le),'assert_greater':R(operator.gt),'assert_greater_equal':R(operator.ge),
 'assert_in':R(lambda a,b: a in b),'assert_not_in':R(lambda a,b: a not in b),
 'assert_is':R(lambda a,b: a is b),'assert_is_not':R(lambda a,b: a is not b),
 'assert_length_equal':R(lambda a,b: len(a)==b),'assert_length_not_equal':R(lambda a,b: len(a)!=b),
 'assert_length_less':R(lambda a,b: len(a)<b),'assert_length_greater_equal':R(lambda a,b: len(a)>=b),
 'assert_contains_subset':R(lambda a,b: all(x in b for x in a)),'assert_not_contains_subset':R(lambda a,b: not all(x in b for x in a)),
}
unary={'assert_true':R(lambda a,_: bool(a)),'assert_false':R(lambda a,_: not bool(a)),'assert_is_none':R(lambda a,_: a is None),'assert_is_not_none':R(lambda a,_: a is not None)}
import pedal.assertions.runtime as rt
bad={}
def check(name, fn, args, expect, tag):
    MAIN_REPORT.feedback.clear(); MAIN_REPORT.ignored_feedback.clear()
    try:
        fb=fn(*args)
        silent = not bool(fb)
    except Exception as e:
        silent = f"RAISED {type(e).__name__}"
    want_silent = (expect is True)
    if silent is not want_silent:
        bad.setdefault((name, 'false-pass' if silent is True else ('false-fail' if silent is False else silent)),[]).append(tag)
for name,rel in rels.items():
    fn=getattr(rt,name)
    for (an,a),(bn,b) in itertools.product(vals.items(),repeat=2):
        exp=rel(a,b)
        for wrap in ('rr','pr','rp','pp'):
            if 'is' in name and wrap!='rr' and not isinstance(a,(type(None),bool)) : pass
            A = call('ident',a) if wrap[0]=='p' else a
            B = call('ident',b) if wrap[1]=='p' else b
            if name in ('assert_is','assert_is_not') and wrap!='rr':
                # identity through repr round trip is not preserved for non-singletons; restrict to singletons
                if not (a is None or isinstance(a,bool)) or not (b is None or isinstance(b,bool)): continue
            check(name, fn, (A,B), exp, (an,bn,wrap))
for name,rel in unary.items():
    fn=getattr(rt,name)
    for an,a in vals.items():
        for wrap in ('r','p'):
            A = call('ident',a) if wrap=='p' else a
            check(name, fn, (A,), rel(a,None), (an,wrap))
    check(name, fn, (call('boom'),), None, ('ERROR-operand',))
for name in rels:
    check(name, getattr(rt,name), (call('boom'), 1), None, ('ERROR-left',))
    check(name, getattr(rt,name), (1, call('boom')), None, ('ERROR-right',))
# equality
for (an,a),(bn,b) in itertools.product(vals.items(),repeat=2):
    for wrap in ('rr','pr','rp','pp'):
        A = call('ident',a) if wrap[0]=='p' else a
        B = call('ident',b) if wrap[1]=='p' else b
        e=rel_eq(a,b)
        check('assert_equal', rt.assert_equal, (A,B), e, (an,bn,wrap))
        check('assert_not_equal', rt.assert_not_equal, (A,B), (not e), (an,bn,wrap))
check('assert_equal', rt.assert_equal,(call('boom'),1),None,('ERROR-left',)); check('assert_not_equal', rt.assert_not_equal,(call('boom'),1),None,('ERROR-left',))
for k,v in sorted(bad.items()):
    print(k, len(v), v[:5])

import itertools, operator
from pedal import *
from pedal.tifa import tifa_analysis
from pedal.types.new_types import is_subtype
from pedal.types.normalize import get_pedal_type_from_value, normalize_type
vals = {'int':'3', 'float':'2.5', 'str':"'ab'", 'list':'[1, 2]', 'tuple':'(1, 2)', 'bool': 'True'}
ops = ['+','-','*','/','//','%','**','<<','>>','|','^','&','<','<=','>','>=','==','!=','in','not in']
bad=[]
for op in ops:
    for (ln,lv),(rn,rv) in itertools.product(vals.items(), repeat=2):
        code = f"a = {lv}\nb = {rv}\nc = a {op} b\nprint(c)\n"
        try:
            ns={}
            exec(code.replace("print(c)",""), ns); real=('ok', type(ns['c']).__name__, ns['c'])
        except TypeError as e:
            real=('TypeError',)
        except Exception as e:
            real=('other', type(e).__name__)
        contextualize_report(code)
        t = tifa_analysis()
        inc = 'incompatible_types' in t.issues
        if not t.success:
            bad.append((op,ln,rn,'TIFA FAIL',str(t.error)[:50])); continue
        if real[0]=='TypeError' and not inc:
            bad.append((op,ln,rn,'MISSED TypeError'))
        elif real[0]=='ok' and not inc:
            ty = t.top_level_variables['c'].type
            try:
                vt = get_pedal_type_from_value(real[2])
                conf = is_subtype(vt, ty)
            except Exception as e:
                conf = 'EXC '+type(e).__name__+str(e)[:40]
            if conf is not True:
                bad.append((op,ln,rn,'NONCONFORM', str(ty), real[1], conf))
        elif real[0]=='ok' and inc:
            bad.append((op,ln,rn,'FALSE ALARM(not in property)'))
for b in bad: print(b)

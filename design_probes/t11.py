import ast, glob
from pedal.cait.cait_api import find_matches
from pedal.core.commands import contextualize_report
from pedal.tifa import tifa_analysis
from pedal.types.new_types import is_subtype
from pedal.types.normalize import get_pedal_type_from_value
# C11 self-match of every statement (recursively) of sample programs
srcs = []
for f in glob.glob('/repo/examples/**/*.py', recursive=True)[:40] + glob.glob('/repo/tests/datafiles/*.py'):
    try:
        s=open(f).read(); ast.parse(s); srcs.append((f,s))
    except Exception: pass
fails = {}
total=0
for f,s in srcs:
    tree = ast.parse(s)
    try:
        contextualize_report(s)
    except Exception as e:
        continue
    for node in ast.walk(tree):
        if isinstance(node, ast.stmt):
            try:
                pat = ast.unparse(node)
                ast.parse(pat)
            except Exception:
                continue
            total+=1
            try:
                ms = find_matches(pat)
                ok = len(ms) >= 1
                why = 'nomatch'
            except Exception as e:
                ok = False; why = type(e).__name__+':'+str(e)[:50]
            if not ok:
                fails.setdefault((type(node).__name__, why), []).append(pat[:70].replace('\n','\\n'))
print("total stmts", total, "files", len(srcs))
for k,v in fails.items():
    print(k, len(v), v[:2])

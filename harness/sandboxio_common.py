"""
C15 — shared pieces: case generator, the real-pedal runner, the request encoder for the Lean
model (driver_c15), the property oracle (written from the property text, independent of the model)
and the shrinker.

A case is {"ops": [op, ...]}; the sandbox is fresh and a first silent execution has already defined
the event interpreter `_do` (it is part of the history on both sides: op 0).

  op = {"k": "exec", "kind": "run"|"call"|"eval", "pre": arg|None, "events": [ev...], "raises": bool,
        "student_file": bool}
     | {"k": "clear_output"} | {"k": "set_input", "arg": arg, "clear": bool}
     | {"k": "queue_input", "items": [value...]} | {"k": "clear_input"}
  arg = ["none"] | ["one", value] | ["many", [value...]] | ["callable", 0|1]       value: str|int|float|bool
  ev  = ["p", [value...], sep, end]   print(*values, sep=sep, end=end)
      | ["w", text]                   sys.stdout.write(text)
      | ["r", prompt]                 input(prompt)        (prompt: str or int)
      | ["r0"]                        input()
"""
import json

from common import enc_str

SETUP = '''
import sys
def _do(evs, boom=False):
    got = []
    for e in evs:
        k = e[0]
        if k == 'p':
            print(*e[1], sep=e[2], end=e[3])
        elif k == 'w':
            sys.stdout.write(e[1])
        elif k == 'r':
            got.append(input(e[1]))
        elif k == 'r0':
            got.append(input())
    _got[:] = got
    if boom:
        raise ValueError('boom')
    return got
_got = []
'''

CALLABLES = {0: (lambda prompt: "C" + str(prompt)), 1: (lambda prompt: "k")}
SETUP_OP = {"k": "exec", "kind": "run", "pre": None, "events": [], "raises": False, "student_file": True}

# every code point str.isspace() accepts below U+3001, plus look-alikes that are NOT whitespace
WS = ["\t", "\n", "\x0b", "\x0c", "\r", "\x1c", "\x1d", "\x1e", "\x1f", " ", "\x85", "\xa0", " ", " ",
      " ", " ", " ", " ", " ", " ", "　"]
NOT_WS = ["\x00", "\x08", "\x1b", "\x7f", "​", "᠎", "﻿", "⁠", "a", "b", "Z", "0", "é", "\U0001f600", "'",
          "\\", '"']


# --------------------------------------------------------------------------
# generator

def gen_text(rng, rich=True):
    r = rng.random()
    if r < 0.12:
        return ""
    if r < 0.45:
        return rng.choice(["a", "a\n", "a \n\nb  \n", "\n", " ", "x\ty\n\n", "\x0c\n", "a\nb", "\n\n", " \n x", "b \r\n",
                           "tab\t\n", "  lead", "\xa0", "q\x85\n", "\x1c", "é　\n", "​\n", "0\n"])
    n = rng.randint(1, 6)
    alph = (["\n", "\n", " ", "a", "b"] + (WS + NOT_WS if rich else []))
    return "".join(rng.choice(alph) for _ in range(n))


def gen_value(rng):
    r = rng.random()
    if r < 0.7:
        return rng.choice(["1", "2", "3", "x", "", "0", "hello world", " ", "a\n"])
    if r < 0.85:
        return rng.randint(-3, 12)
    if r < 0.93:
        return rng.choice([True, False])
    return rng.choice([1.5, -0.25])


def gen_arg(rng, allow_callable=True):
    r = rng.random()
    if r < 0.1:
        return ["none"]
    if r < 0.35:
        return ["one", gen_value(rng)]
    if r < 0.9 or not allow_callable:
        return ["many", [gen_value(rng) for _ in range(rng.randint(0, 3))]]
    return ["callable", rng.randint(0, 1)]


def gen_event(rng):
    r = rng.random()
    if r < 0.3:
        vals = [rng.choice([gen_text(rng, rich=False), rng.randint(0, 9), "v"]) for _ in range(rng.randint(0, 3))]
        return ["p", vals, rng.choice([" ", " ", "", "-", "\n"]), rng.choice(["\n", "\n", "", " ", "\n\n", "!"])]
    if r < 0.6:
        return ["w", gen_text(rng)]
    if r < 0.9:
        return ["r", rng.choice(["p?", "", "Name: ", "x\n", " ", 5, gen_text(rng, rich=False)])]
    return ["r0"]


def gen_exec(rng, allow_callable=True):
    kind = rng.choice(["run", "call", "call", "eval"])
    r = rng.random()
    n = 0 if r < 0.3 else rng.randint(1, 4)
    pre = None
    if kind != "eval" and rng.random() < 0.15:
        pre = gen_arg(rng, allow_callable)
        if pre == ["none"]:
            pre = None
    return {"k": "exec", "kind": kind, "pre": pre, "events": [gen_event(rng) for _ in range(n)],
            "raises": rng.random() < 0.12, "student_file": rng.random() < 0.5}


def gen_case(rng, allow_callable=True, max_ops=8):
    ops = []
    for _ in range(rng.randint(1, max_ops)):
        r = rng.random()
        if r < 0.55:
            ops.append(gen_exec(rng, allow_callable))
        elif r < 0.65:
            ops.append({"k": "clear_output"})
        elif r < 0.8:
            ops.append({"k": "set_input", "arg": gen_arg(rng, allow_callable), "clear": rng.random() < 0.75})
        elif r < 0.93:
            ops.append({"k": "queue_input", "items": [gen_value(rng) for _ in range(rng.randint(0, 3))]})
        else:
            ops.append({"k": "clear_input"})
    return {"ops": ops}


# --------------------------------------------------------------------------
# real pedal

def _py_arg(arg):
    if arg is None or arg[0] == "none":
        return None
    if arg[0] == "one":
        return arg[1]
    if arg[0] == "many":
        return list(arg[1])
    return CALLABLES[arg[1]]


def _events_literal(events):
    return "[" + ", ".join(repr(tuple(e)) for e in events) + "]"


def _run_source(op):
    """literal student source for a `run` execution"""
    lines = ["import sys", "_got[:] = []"]
    for e in op["events"]:
        if e[0] == "p":
            args = "".join(repr(v) + ", " for v in e[1])
            lines.append("print(%ssep=%r, end=%r)" % (args, e[2], e[3]))
        elif e[0] == "w":
            lines.append("sys.stdout.write(%r)" % e[1])
        elif e[0] == "r":
            lines.append("_got.append(input(%r))" % (e[1],))
        else:
            lines.append("_got.append(input())")
    if op["raises"]:
        lines.append("raise ValueError('boom')")
    return "\n".join(lines) + "\n"


def observe_real(sb, err):
    from pedal.sandbox import commands
    inputs = commands.get_input()
    if isinstance(inputs, list):
        src = ["q"] + [x for x in inputs]
    elif callable(inputs):
        src = ["c", [k for k, f in CALLABLES.items() if f is inputs][0]]
    else:
        src = ["?", repr(inputs)]
    last = sb._context[-1] if sb._context else None
    return {"err": err, "raw": commands.get_raw_output(), "lines": list(commands.get_output()), "inputs": src,
            "nctx": len(sb._context), "last_out": None if last is None else last.output,
            "last_in": None if last is None else list(last.inputs)}


def run_real(case):
    """Returns (observations per op incl. the setup op, contexts [(output, inputs)], student-side returned values per op)."""
    from pedal.core.report import MAIN_REPORT
    from pedal.core.commands import contextualize_report
    from pedal.sandbox import commands
    MAIN_REPORT.clear()
    contextualize_report("")
    sb = commands.get_sandbox()
    obs, student = [], []
    commands.run(SETUP, filename="answer.py")
    obs.append(observe_real(sb, None))
    student.append([])
    for op in case["ops"]:
        err, got = None, None
        try:
            k = op["k"]
            if k == "exec":
                fname = "answer.py" if op.get("student_file", True) else None
                pre = _py_arg(op["pre"])
                kw = {} if pre is None else {"inputs": pre}
                before = len(sb._context)
                if op["kind"] == "run":
                    commands.run(_run_source(op), filename=fname, **kw)
                elif op["kind"] == "call":
                    if op["raises"]:
                        commands.call("_do", [tuple(e) for e in op["events"]], True, **kw)
                    else:
                        commands.call("_do", [tuple(e) for e in op["events"]], **kw)
                else:
                    commands.evaluate("_do(%s%s)" % (_events_literal(op["events"]), ", True" if op["raises"] else ""))
                if len(sb._context) > before:
                    got = list(sb.data.get("_got", []))
            elif k == "clear_output":
                commands.clear_output()
            elif k == "set_input":
                commands.set_input(_py_arg(op["arg"]), clear=op["clear"])
            elif k == "queue_input":
                commands.queue_input(*op["items"])
            elif k == "clear_input":
                commands.clear_input()
            else:
                raise ValueError(k)
        except Exception as e:  # the API call itself raised
            err = type(e).__name__
        obs.append(observe_real(sb, err))
        student.append(got)
    ctxs = [(c.output, list(c.inputs)) for c in sb._context]
    return obs, ctxs, student


# --------------------------------------------------------------------------
# abstraction shared by the model request and the oracle: what the events put on stdout

def ev_text(e):
    """text a non-read event writes (CPython's print/str semantics, trusted)"""
    if e[0] == "p":
        return e[2].join(str(v) for v in e[1]) + e[3]
    if e[0] == "w":
        return e[1]
    raise ValueError(e)


def ev_prompt(e):
    return "" if e[0] == "r0" else e[1]


def _enc_arg(arg):
    if arg[0] == "none":
        return ["n"]
    if arg[0] == "one":
        return ["o", enc_str(str(arg[1]))]
    if arg[0] == "many":
        return ["m", str(len(arg[1]))] + [enc_str(str(v)) for v in arg[1]]
    return ["c", str(arg[1])]


def _enc_op(op):
    k = op["k"]
    if k == "exec":
        toks = ["E"] + (["-"] if op["pre"] is None else _enc_arg(op["pre"]))
        toks.append(str(len(op["events"])))
        for e in op["events"]:
            if e[0] in ("p", "w"):
                toks += ["w", enc_str(ev_text(e))]
            else:
                toks += ["r", enc_str(str(ev_prompt(e)))]
        return toks
    if k == "clear_output":
        return ["C"]
    if k == "set_input":
        return ["S", "1" if op["clear"] else "0"] + _enc_arg(op["arg"])
    if k == "queue_input":
        return ["Q", str(len(op["items"]))] + [enc_str(str(v)) for v in op["items"]]
    if k == "clear_input":
        return ["I"]
    raise ValueError(k)


def request_line(case):
    ops = [SETUP_OP] + case["ops"]
    toks = ["hist", str(len(ops))]
    for op in ops:
        toks += _enc_op(op)
    return " ".join(toks)


def _dec(tok):
    assert tok.startswith("x"), tok
    return bytes.fromhex(tok[1:]).decode("utf-8")


def _dec_list(tok):
    return [] if tok == "" else [_dec(t) for t in tok.split(",")]


def parse_model(ans):
    """-> (observations, contexts) in the shape of run_real, or None for bad-request"""
    if not ans.startswith("ok "):
        return None
    body, _, ctx = ans[3:].partition(" | ")
    if ans.endswith(" | "):
        body, ctx = ans[3:-3], ""
    obs = []
    for rec in body.split(" "):
        err, raw, lines, src, nctx, lo, li = rec.split(";")
        if src.startswith("q:"):
            s = ["q"] + _dec_list(src[2:])
        else:
            s = ["c", int(src[2:])]
        obs.append({"err": "raises" if err == "1" else None, "raw": _dec(raw), "lines": _dec_list(lines), "inputs": s,
                    "nctx": int(nctx), "last_out": None if lo == "-" else _dec(lo),
                    "last_in": None if li == "-" else _dec_list(li)})
    ctxs = []
    if ctx:
        for rec in ctx.split(" "):
            o, _, i = rec.partition("/")
            ctxs.append((_dec(o), _dec_list(i)))
    return obs, ctxs


def compare(real, model):
    """field names that differ between real and model (obs lists + contexts)"""
    if model is None:
        return ["bad-request"]
    robs, rctx = real
    mobs, mctx = model
    diffs = []
    if len(robs) != len(mobs):
        return ["op-count"]
    for i, (r, m) in enumerate(zip(robs, mobs)):
        for f in ("raw", "lines", "inputs", "nctx", "last_out", "last_in"):
            if r[f] != m[f]:
                diffs.append("op%d.%s" % (i, f))
        if (r["err"] is None) != (m["err"] is None):
            diffs.append("op%d.err" % i)
    if [(o, list(i)) for o, i in rctx] != [(o, list(i)) for o, i in mctx]:
        diffs.append("contexts")
    return diffs


# --------------------------------------------------------------------------
# oracle, written from the property text

def in_domain(case):
    """The property speaks about queued inputs.  Histories that call set_input/queue_input with a
    non-None value (or run(inputs=...)) while a callable is installed are outside it (the code raises
    AttributeError there; modelled and compared by the correspondence, not judged by the oracle)."""
    callable_on = False
    for op in case["ops"]:
        k = op["k"]
        if k == "exec":
            arg, clear = op["pre"], True
        elif k == "set_input":
            arg, clear = op["arg"], op["clear"]
        elif k == "queue_input":
            arg, clear = ["many", op["items"]], False
        elif k == "clear_input":
            arg, clear = ["none"], True
        else:
            continue
        if arg is None:
            continue
        if callable_on and arg[0] != "none" and not (arg[0] == "callable" and not clear):
            return False
        if arg[0] == "callable":
            callable_on = True
        elif arg[0] == "none":
            callable_on = False
    return True


def items_of(arg):
    if arg[0] == "one":
        return [str(arg[1])]
    if arg[0] == "many":
        return [str(v) for v in arg[1]]
    return []


class _Default:
    """placeholder for 'the fixed default input' (learned from the first default the code serves)"""
    def __repr__(self):
        return "<default>"


DEFAULT = _Default()


def subst_default(values, default):
    return [default if v is DEFAULT else v for v in values]


def learn_default(exp_lists, real_lists):
    for e, r in zip(exp_lists, real_lists):
        if e is None or r is None:
            continue
        for x, y in zip(e, r):
            if x is DEFAULT:
                return y
    return "0"


def expected(case, default=DEFAULT):
    """What the property says each observation must be.  `default` = the fixed default input."""
    raw, lines, queue, fn = "", [], [], None
    records = []
    out = []
    for op in [SETUP_OP] + case["ops"]:
        k = op["k"]
        returned = None
        if k == "exec":
            if op["pre"] is not None:
                if op["pre"][0] == "callable":
                    fn, queue = CALLABLES[op["pre"][1]], []
                else:
                    fn, queue = None, items_of(op["pre"])
            text, returned = "", []
            for e in op["events"]:
                if e[0] in ("p", "w"):
                    text += ev_text(e)
                else:
                    p = ev_prompt(e)
                    if fn is not None:
                        returned.append(fn(p))
                    else:
                        text += str(p) + "\n"          # the prompt is part of what was written
                        returned.append(queue.pop(0) if queue else default)
            raw += text
            records.append((text, returned))
            if text:                                 # executions that printed something
                lines = lines + [ln.rstrip() for ln in text.rstrip().split("\n")]
        elif k == "clear_output":
            raw, lines = "", []
        elif k == "set_input":
            a = op["arg"]
            if a[0] == "callable":
                fn, queue = CALLABLES[a[1]], []
            elif a[0] == "none":
                fn, queue = None, []
            else:
                fn = None
                queue = (list(queue) if not op["clear"] else []) + items_of(a)
        elif k == "queue_input":
            queue = list(queue) + [str(v) for v in op["items"]]
        elif k == "clear_input":
            fn, queue = None, []
        out.append({"raw": raw, "lines": list(lines), "queue": None if fn is not None else list(queue),
                    "nctx": len(records), "record": records[-1] if records else None, "returned": returned})
    return out, records


def judge(case, real):
    """-> None or (signature, what).  real = run_real(case)."""
    robs, rctx, student = real
    exp, records = expected(case)
    # "a fixed default": whatever the first default read returned, the same ever after
    default = learn_default([e["returned"] for e in exp], [r["last_in"] for r in robs])
    if not isinstance(default, str):
        return ({"claim": "input-default"}, "default input is %r, not a string" % (default,))
    for e in exp:
        if e["returned"] is not None:
            e["returned"] = subst_default(e["returned"], default)
        if e["record"] is not None:
            e["record"] = (e["record"][0], subst_default(e["record"][1], default))
    records = [(o, subst_default(i, default)) for o, i in records]
    ops = [SETUP_OP] + case["ops"]
    for i, (e, r) in enumerate(zip(exp, robs)):
        if r["err"] is not None:
            return ({"claim": "operation-raised", "error": r["err"]},
                    "op %d (%s) raised %s" % (i, ops[i]["k"], r["err"]))
        if r["raw"] != e["raw"]:
            return ({"claim": "raw-output"}, "op %d: raw output %r, expected %r" % (i, r["raw"][-60:], e["raw"][-60:]))
        if r["lines"] != e["lines"]:
            shape = "other"
            if len(r["lines"]) > len(e["lines"]) and _is_with_extra_empties(r["lines"], e["lines"]):
                shape = "phantom-empty-entry"
            elif len(r["lines"]) < len(e["lines"]):
                shape = "missing-entry"
            return ({"claim": "line-view", "shape": shape},
                    "op %d: line view %r, expected %r" % (i, r["lines"][-6:], e["lines"][-6:]))
        if e["queue"] is not None and r["inputs"] != ["q"] + e["queue"]:
            return ({"claim": "input-queue"}, "op %d: queued inputs %r, expected %r" % (i, r["inputs"][1:], e["queue"]))
        if r["nctx"] != e["nctx"]:
            return ({"claim": "execution-records"}, "op %d: %d records, expected %d" % (i, r["nctx"], e["nctx"]))
        if ops[i]["k"] == "exec":
            if r["last_out"] != e["record"][0]:
                return ({"claim": "record-share"}, "op %d: record output %r, expected %r" % (i, r["last_out"], e["record"][0]))
            if r["last_in"] != e["returned"]:
                return ({"claim": "input-order"}, "op %d: recorded inputs %r, expected %r" % (i, r["last_in"], e["returned"]))
            if student[i] is not None and i > 0 and student[i] != e["returned"]:
                return ({"claim": "input-order"}, "op %d: input() returned %r, expected %r" % (i, student[i], e["returned"]))
    if [(o, list(x)) for o, x in rctx] != [(o, list(x)) for o, x in records]:
        return ({"claim": "record-share"}, "final records %r, expected %r" % (rctx[-3:], records[-3:]))
    return None


def _is_with_extra_empties(got, want):
    j = 0
    for x in got:
        if j < len(want) and x == want[j]:
            j += 1
        elif x == "":
            continue
        else:
            return False
    return j == len(want)


# --------------------------------------------------------------------------
# shrinking

def shrink(case, still):
    case = json.loads(json.dumps(case))
    changed = True
    while changed:
        changed = False
        for i in range(len(case["ops"])):
            c = {"ops": case["ops"][:i] + case["ops"][i + 1:]}
            if still(c):
                case, changed = c, True
                break
        if changed:
            continue
        for i, op in enumerate(case["ops"]):
            if op["k"] != "exec":
                continue
            for j in range(len(op["events"])):
                c = json.loads(json.dumps(case))
                del c["ops"][i]["events"][j]
                if still(c):
                    case, changed = c, True
                    break
            if changed:
                break
            for key, val in (("raises", False), ("pre", None), ("kind", "call"), ("student_file", True)):
                if op.get(key) != val:
                    c = json.loads(json.dumps(case))
                    c["ops"][i][key] = val
                    if still(c):
                        case, changed = c, True
                        break
            if changed:
                break
            for j, e in enumerate(op["events"]):
                simple = ["w", "a\n"] if e[0] in ("p", "w") else ["r", ""]
                if e != simple:
                    c = json.loads(json.dumps(case))
                    c["ops"][i]["events"][j] = simple
                    if still(c):
                        case, changed = c, True
                        break
            if changed:
                break
    return case

"""
C15 — shared pieces: case generator, the real-pedal runner, the request encoder for the Lean
model (driver_c15), the property oracle (written from the property text, independent of the model)
and the shrinker.

A case is {"ops": [op, ...]}; the sandbox is fresh and a first silent execution has already defined
the event interpreter `_do` (it is part of the history on both sides: op 0).

  op = {"k": "exec", "kind": "run"|"call"|"eval", "pre": arg|None, "events": [ev...], "raises": bool,
        "student_file": bool}
     | {"k": "clear_output"} | {"k": "set_input", "arg": arg, "clear": bool}
     | {"k": "queue_input", "items": [value...]} | {"k": "clear_input"}
  arg = ["none"] | ["one", value] | ["many", [value...]] | ["callable", 0|1]       value: str|int|float|bool
  ev  = ["p", [value...], sep, end]   print(*values, sep=sep, end=end)
      | ["w", text]                   sys.stdout.write(text)
      | ["r", prompt]                 input(prompt)        (prompt: str or int)
      | ["r0"]                        input()
  every other way of writing to standard output (the property: "what student code wrote"; same text as the forms above):
      | ["wl", [text...]]             sys.stdout.writelines([...])
      | ["pf", [value...], sep, end]  print(*values, sep=sep, end=end, file=sys.stdout)
      | ["pfl", [value...], sep, end] print(*values, sep=sep, end=end, flush=True)
      | ["p0", [value...]]            print(*values)            (default sep / end)
      | ["fl"]                        sys.stdout.flush()        (writes nothing)
  many reads in one tight loop (limit histories, search-only):
      | ["rn", n, prompt]             for _ in range(n): input(prompt)

THE CAPTURE BUFFER (round 4).  With real printing allowed the sandbox captures through PrintingStringIO (a tee to the
console) instead of io.StringIO.  The property does not mention the buffer: what is recorded must be the same.  The
switches are annotations that model and oracle ignore (the real runner applies them; the console is swallowed):
  case["tee0"] = "cmd_allow" | "sb_allow"       switched on before the setup execution (the whole history is tee'd)
  op["tee"]    = "cmd_allow" (commands.allow_function('print')) | "sb_allow" (Sandbox.allow_function('print'))
               | "off" (Sandbox.clear_mocked_function('print'))            applied just before the op
  {"k": "set_input", "arg": ["callable", c], "clear": true, "via": "allow_real_io"}   commands.allow_real_io() with
               builtins.input replaced by CALLABLES[c] for the duration (= set_input(that callable) + tee on)
  {"k": "clear_input", "via": "block_real_io"}                              commands.block_real_io() (= clear_input + tee off)
  exec op of kind "run" with "real_io": c      Sandbox.run(..., real_io=True), builtins.input = CALLABLES[c]
               (= set_input(callable c); the execution, tee'd; clear_input)

OBJECTS THAT OUTLIVE AN EXECUTION (the "survivor" routes).  Student code can keep what one execution gave it
and use it in a later one: a stored reference to `input` (`ask = input`), to `print`, a helper module imported by
an earlier execution (its functions carry the `input` binding of the execution that imported it), a generator /
closure created in one execution and advanced in another, a stored `sys.stdout` (`out = sys.stdout`, a default
argument `file=sys.stdout`, the bound method `sys.stdout.write`).  The property does not care through which
reference student code writes or reads: what is written / read DURING execution k belongs to execution k, and
input() answers from the sandbox's queue as it is at that moment.  Route events (slot 0 is stored by the setup
execution itself, other slots by a `keep` event; an unknown slot means "the current binding"):
      | ["keep", slot]                      store {input, print, sys.stdout, sys.stdout.write, a function with the
                                            default argument file=sys.stdout, a fresh import of the helper module}
      | ["kr", slot, prompt] | ["kr0", slot]   the stored `input` (with / without prompt)
      | ["hr", slot, prompt]                helper_module.rd(prompt)   (calls the module's own global `input`)
      | ["kp", slot, [value...], sep, end]  the stored `print`
      | ["hp", slot, [value...], sep, end]  helper_module.pr(...)      (print inside the module)
      | ["hw", slot, text]                  helper_module.wr(text)     (sys.stdout.write inside the module, looked up
                                            at call time)
      | ["gnew", slot, [base ev...], captured]   create a generator that performs one base event per step (captured:
                                            it bound `input` and `print` when it was created; else global lookup)
      | ["gnext", slot, n]                  advance it n steps (values read are returned to the execution)
    stored standard output (GATED by KEPT_STDOUT, see there):
      | ["kw", slot, text]                  stored_stdout.write(text)
      | ["kbw", slot, text]                 the stored bound method sys.stdout.write
      | ["kpf", slot, [value...], sep, end] print(..., file=stored_stdout)
      | ["dw", slot, [value...], sep, end]  def show(*a, file=sys.stdout, **k) defined at `keep` time
      | ["hkw", slot, text]                 helper_module.kw(text): `out = sys.stdout` at import time, out.write(text)
      | ["kwl", slot, [text...]]            stored_stdout.writelines([...])
"""
import contextlib
import io
import json
import os
import sys

from common import enc_str

# Output written through a `sys.stdout` object that student code kept from an EARLIER execution.
#   "off"   : such events are not generated and the corpus files using them are skipped
#   "open"  : (DEFAULT - the main session decided: open finding, KNOWN_FINDINGS.jsonl signature {"claim": "raw-output",
#             "shape": "kept-stdout-write-lost"}) generated; the model side drops the text (the code as it is: it lands in a buffer nobody reads),
#             the oracle demands it (property text) -> the search reports {"claim": "raw-output", "shape":
#             "kept-stdout-write-lost"}
#   "fixed" : generated; model and oracle both say the text belongs to the execution that wrote it
KEPT_STDOUT = os.environ.get("VERIF_C15_KEPT_STDOUT", "open")
assert KEPT_STDOUT in ("off", "open", "fixed"), KEPT_STDOUT

HELPER_NAME = "c15helper"
HELPER = '''
import sys
out = sys.stdout
def rd(*a):
    return input(*a)
def pr(*a, **k):
    print(*a, **k)
def wr(t):
    sys.stdout.write(t)
def kw(t):
    out.write(t)
'''

SETUP = '''
import sys
_kept = {}
_gens = {}
_NOREAD = object()
def _cur():
    so = sys.stdout
    def show(*a, file=sys.stdout, **k):
        print(*a, file=file, **k)
    return {'inp': input, 'pr': print, 'out': so, 'bw': so.write, 'dw': show, 'mod': __import__('%s')}
def _keep(slot):
    _kept[slot] = _cur()
def _ref(slot):
    return _kept.get(slot) or _cur()
def _base(e, inp=None, pr=None):
    k = e[0]
    if k == 'p':
        (pr or print)(*e[1], sep=e[2], end=e[3])
    elif k == 'w':
        sys.stdout.write(e[1])
    elif k == 'r':
        return (inp or input)(e[1])
    elif k == 'r0':
        return (inp or input)()
    elif k == 'wl':
        sys.stdout.writelines(e[1])
    elif k == 'pf':
        (pr or print)(*e[1], sep=e[2], end=e[3], file=sys.stdout)
    elif k == 'pfl':
        (pr or print)(*e[1], sep=e[2], end=e[3], flush=True)
    elif k == 'p0':
        (pr or print)(*e[1])
    elif k == 'fl':
        sys.stdout.flush()
    return _NOREAD
def _mkgen(evs, captured):
    inp, pr = (input, print) if captured else (None, None)
    def steps():
        for e in evs:
            yield _base(e, inp, pr)
    return steps()
def _step(e, got):
    k = e[0]
    v = _NOREAD
    if k in ('p', 'w', 'r', 'r0', 'wl', 'pf', 'pfl', 'p0', 'fl'):
        v = _base(e)
    elif k == 'rn':
        f = input
        for _ in range(e[1]):
            got.append(f(e[2]))
    elif k == 'keep':
        _keep(e[1])
    elif k == 'kr':
        v = _ref(e[1])['inp'](e[2])
    elif k == 'kr0':
        v = _ref(e[1])['inp']()
    elif k == 'hr':
        v = _ref(e[1])['mod'].rd(e[2])
    elif k == 'kp':
        _ref(e[1])['pr'](*e[2], sep=e[3], end=e[4])
    elif k == 'hp':
        _ref(e[1])['mod'].pr(*e[2], sep=e[3], end=e[4])
    elif k == 'hw':
        _ref(e[1])['mod'].wr(e[2])
    elif k == 'kw':
        _ref(e[1])['out'].write(e[2])
    elif k == 'kbw':
        _ref(e[1])['bw'](e[2])
    elif k == 'kpf':
        print(*e[2], sep=e[3], end=e[4], file=_ref(e[1])['out'])
    elif k == 'dw':
        _ref(e[1])['dw'](*e[2], sep=e[3], end=e[4])
    elif k == 'hkw':
        _ref(e[1])['mod'].kw(e[2])
    elif k == 'kwl':
        _ref(e[1])['out'].writelines(e[2])
    elif k == 'gnew':
        _gens[e[1]] = _mkgen(e[2], e[3])
    elif k == 'gnext':
        for _ in range(e[2]):
            g = _gens.get(e[1])
            if g is None:
                break
            try:
                x = next(g)
            except StopIteration:
                break
            if x is not _NOREAD:
                got.append(x)
    else:
        raise KeyError(k)
    if v is not _NOREAD:
        got.append(v)
def _do(evs, boom=False):
    got = []
    for e in evs:
        _step(e, got)
    _got[:] = got
    if boom:
        raise ValueError('boom')
    return got
_got = []
_keep(0)
''' % HELPER_NAME

CALLABLES = {0: (lambda prompt: "C" + str(prompt)), 1: (lambda prompt: "k")}
SETUP_OP = {"k": "exec", "kind": "run", "pre": None, "events": [], "raises": False, "student_file": True}

# every code point str.isspace() accepts below U+3001, plus look-alikes that are NOT whitespace
WS = ["\t", "\n", "\x0b", "\x0c", "\r", "\x1c", "\x1d", "\x1e", "\x1f", " ", "\x85", "\xa0", " ", " ",
      " ", " ", " ", " ", " ", " ", "　"]
NOT_WS = ["\x00", "\x08", "\x1b", "\x7f", "​", "᠎", "﻿", "⁠", "a", "b", "Z", "0", "é", "\U0001f600", "'",
          "\\", '"']


# --------------------------------------------------------------------------
# generator

def gen_text(rng, rich=True):
    r = rng.random()
    if r < 0.12:
        return ""
    if r < 0.45:
        return rng.choice(["a", "a\n", "a \n\nb  \n", "\n", " ", "x\ty\n\n", "\x0c\n", "a\nb", "\n\n", " \n x", "b \r\n",
                           "tab\t\n", "  lead", "\xa0", "q\x85\n", "\x1c", "é　\n", "​\n", "0\n"])
    n = rng.randint(1, 6)
    alph = (["\n", "\n", " ", "a", "b"] + (WS + NOT_WS if rich else []))
    return "".join(rng.choice(alph) for _ in range(n))


def gen_value(rng):
    r = rng.random()
    if r < 0.7:
        return rng.choice(["1", "2", "3", "x", "", "0", "hello world", " ", "a\n"])
    if r < 0.85:
        return rng.randint(-3, 12)
    if r < 0.93:
        return rng.choice([True, False])
    return rng.choice([1.5, -0.25])


def gen_arg(rng, allow_callable=True):
    r = rng.random()
    if r < 0.1:
        return ["none"]
    if r < 0.35:
        return ["one", gen_value(rng)]
    if r < 0.9 or not allow_callable:
        return ["many", [gen_value(rng) for _ in range(rng.randint(0, 3))]]
    return ["callable", rng.randint(0, 1)]


def gen_write_form(rng):
    """the other ways of writing to standard output: writelines, print(file=sys.stdout), print(flush=True), print with
    default sep / end, and a flush in between"""
    k = rng.choice(["wl", "wl", "wl", "pf", "pfl", "p0", "fl"])
    if k == "wl":
        return ["wl", [gen_text(rng) for _ in range(rng.choice([0, 1, 2, 2, 3]))]]
    if k == "fl":
        return ["fl"]
    vals = [rng.choice([gen_text(rng, rich=False), rng.randint(0, 9), "v"]) for _ in range(rng.randint(0, 3))]
    if k == "p0":
        return ["p0", vals]
    return [k, vals, rng.choice([" ", "", "-", "\n"]), rng.choice(["\n", "\n", "", " ", "!"])]


def gen_event(rng):
    if rng.random() < 0.2:
        return gen_write_form(rng)
    r = rng.random()
    if r < 0.3:
        vals = [rng.choice([gen_text(rng, rich=False), rng.randint(0, 9), "v"]) for _ in range(rng.randint(0, 3))]
        return ["p", vals, rng.choice([" ", " ", "", "-", "\n"]), rng.choice(["\n", "\n", "", " ", "\n\n", "!"])]
    if r < 0.6:
        return ["w", gen_text(rng)]
    if r < 0.9:
        return ["r", rng.choice(["p?", "", "Name: ", "x\n", " ", 5, gen_text(rng, rich=False)])]
    return ["r0"]


def gen_exec(rng, allow_callable=True):
    kind = rng.choice(["run", "call", "call", "eval"])
    r = rng.random()
    n = 0 if r < 0.3 else rng.randint(1, 4)
    pre = None
    if kind != "eval" and rng.random() < 0.15:
        pre = gen_arg(rng, allow_callable)
        if pre == ["none"]:
            pre = None
    return {"k": "exec", "kind": kind, "pre": pre, "events": [gen_event(rng) for _ in range(n)],
            "raises": rng.random() < 0.12, "student_file": rng.random() < 0.5}


def gen_case(rng, allow_callable=True, max_ops=8):
    ops = []
    for _ in range(rng.randint(1, max_ops)):
        r = rng.random()
        if r < 0.55:
            ops.append(gen_exec(rng, allow_callable))
        elif r < 0.65:
            ops.append({"k": "clear_output"})
        elif r < 0.8:
            ops.append({"k": "set_input", "arg": gen_arg(rng, allow_callable), "clear": rng.random() < 0.75})
        elif r < 0.93:
            ops.append({"k": "queue_input", "items": [gen_value(rng) for _ in range(rng.randint(0, 3))]})
        else:
            ops.append({"k": "clear_input"})
    return {"ops": ops}


BASE_KINDS = ("p", "w", "r", "r0", "wl", "pf", "pfl", "p0", "fl", "rn")
WRITE_KINDS = ("p", "w", "wl", "pf", "pfl", "p0")
READ_ROUTES = ("kr", "kr0", "hr")
WRITE_ROUTES = ("kp", "hp", "hw")
STDOUT_ROUTES = ("kw", "kbw", "kpf", "dw", "hkw", "kwl")       # gated by KEPT_STDOUT


def norm_event(e):
    """a base event as the property sees it: a list of ["p", ...] / ["w", text] / ["r", prompt] / ["r0"]"""
    k = e[0]
    if k in ("p", "w", "r", "r0"):
        return [e]
    if k == "wl":
        return [["w", "".join(e[1])]]
    if k in ("pf", "pfl"):
        return [["p", e[1], e[2], e[3]]]
    if k == "p0":
        return [["p", e[1], " ", "\n"]]
    if k == "fl":
        return []
    if k == "rn":
        return [["r", e[2]]] * e[1]
    raise ValueError(e)


def uses_kept_stdout(case):
    def any_in(evs):
        return any(e[0] in STDOUT_ROUTES for e in evs)
    return any(op["k"] == "exec" and any_in(op["events"]) for op in case["ops"])


def gen_base_event(rng):
    while True:
        e = gen_event(rng)
        if e[0] in BASE_KINDS:
            return e


# --------------------------------------------------------------------------
# the capture buffer as a dimension: real printing allowed (PrintingStringIO) through each public switch

def uses_before(case):
    return any(op.get("before") is not None for op in case["ops"])


def gen_before_case(rng):
    """histories in which run() is given BOTH inputs= and before=<code that reads / writes>: the inputs are queued
    before the `before` code runs (it reads them first), with stale / empty queues in front"""
    case = gen_case(rng, allow_callable=False, max_ops=5)
    runs = [op for op in case["ops"] if op["k"] == "exec" and op["kind"] == "run"]
    if not runs:
        op = gen_exec(rng, allow_callable=False)
        op["kind"] = "run"
        case["ops"].insert(rng.randint(0, len(case["ops"])), op)
        runs = [op]
    for op in runs:
        if rng.random() < 0.75:
            op["before"] = [rng.choice([["r", gen_text(rng, rich=False)], ["r0"], ["r0"], ["w", gen_text(rng)],
                                        ["p", [gen_value(rng)], " ", "\n"]]) for _ in range(rng.randint(1, 3))]
            r = rng.random()
            if r < 0.7:
                op["pre"] = ["many", [gen_value(rng) for _ in range(rng.randint(1, 4))]] if r < 0.5 else \
                    ["one", gen_value(rng)]
            if not any(e[0] in ("r", "r0") for e in op["events"]) and rng.random() < 0.7:
                op["events"] = list(op["events"]) + [["r0"]]
    return case


def uses_tee(case):
    return bool(case.get("tee0")) or any(op.get("tee") or op.get("via") or op.get("real_io") is not None
                                         for op in case["ops"])


def add_tee(rng, case):
    """switch real printing on / off along a generated history (in place).  Half of the time for the whole history
    (before the setup execution, so that everything kept by it is a PrintingStringIO as well), otherwise mixed: per-op
    switches through commands.allow_function / Sandbox.allow_function / clear_mocked_function, set_input(callable) ->
    allow_real_io(), clear_input -> block_real_io(), a plain run -> Sandbox.run(real_io=True)."""
    if rng.random() < 0.5:
        case["tee0"] = rng.choice(["cmd_allow", "sb_allow"])
        if rng.random() < 0.6:
            return case
    for op in case["ops"]:
        r = rng.random()
        if op["k"] == "set_input" and op["arg"][0] == "callable" and op["clear"]:
            if r < 0.7:
                op["via"] = "allow_real_io"
        elif op["k"] == "clear_input":
            if r < 0.6:
                op["via"] = "block_real_io"
        elif op["k"] == "exec" and op["kind"] == "run" and op["pre"] is None and r < 0.25:
            op["real_io"] = rng.randint(0, 1)
        elif r < 0.3:
            op["tee"] = rng.choice(["cmd_allow", "sb_allow"])
        elif r < 0.4:
            op["tee"] = "off"
    if rng.random() < 0.3:
        # commands.allow_real_io() ... commands.block_real_io() around a stretch of the history
        i = rng.randint(0, len(case["ops"]))
        case["ops"].insert(i, {"k": "set_input", "arg": ["callable", rng.randint(0, 1)], "clear": True,
                               "via": "allow_real_io"})
        if rng.random() < 0.7:
            j = rng.randint(i + 1, len(case["ops"]))
            case["ops"].insert(j, {"k": "clear_input", "via": "block_real_io"})
    if not uses_tee(case):
        case["ops"][0]["tee"] = rng.choice(["cmd_allow", "sb_allow"])
    return case


def _print_parts(rng):
    vals = [rng.choice([gen_text(rng, rich=False), rng.randint(0, 9), "v"]) for _ in range(rng.randint(0, 3))]
    return vals, rng.choice([" ", "", "-", "\n"]), rng.choice(["\n", "\n", "", " ", "!"])


def gen_route_event(rng, slots, gslots, kept_stdout):
    """an event performed through something an (earlier) execution stored"""
    r = rng.random()
    slot = rng.choice(slots)
    prompt = rng.choice(["p?", "", "Name: ", "x\n", " ", 5])
    if r < 0.4:
        k = rng.choice(READ_ROUTES)
        return [k, slot] if k == "kr0" else [k, slot, prompt]
    if r < 0.58:
        k = rng.choice(WRITE_ROUTES)
        if k == "hw":
            return [k, slot, gen_text(rng)]
        vals, sep, end = _print_parts(rng)
        return [k, slot, vals, sep, end]
    if r < 0.75 and gslots:
        return ["gnext", rng.choice(gslots), rng.randint(1, 3)]
    if r < 0.9 and kept_stdout:
        k = rng.choice(STDOUT_ROUTES)
        if k in ("kw", "kbw", "hkw"):
            return [k, slot, gen_text(rng)]
        if k == "kwl":
            return [k, slot, [gen_text(rng) for _ in range(rng.randint(0, 3))]]
        vals, sep, end = _print_parts(rng)
        return [k, slot, vals, sep, end]
    return gen_base_event(rng)


def gen_between(rng, allow_callable):
    """an operation on the queue / the output between two executions; rebinding ones (clear_input, set_input(None),
    a callable) are as likely as the in-place ones"""
    r = rng.random()
    if r < 0.27:
        return {"k": "clear_input"}
    if r < 0.37:
        return {"k": "set_input", "arg": ["none"], "clear": rng.random() < 0.5}
    if r < 0.6:
        arg = ["one", gen_value(rng)] if rng.random() < 0.3 else ["many", [gen_value(rng) for _ in range(rng.randint(0, 3))]]
        return {"k": "set_input", "arg": arg, "clear": rng.random() < 0.6}
    if r < 0.67 and allow_callable:
        return {"k": "set_input", "arg": ["callable", rng.randint(0, 1)], "clear": rng.random() < 0.5}
    if r < 0.87:
        return {"k": "queue_input", "items": [gen_value(rng) for _ in range(rng.randint(1, 3))]}
    return {"k": "clear_output"}


def gen_survivor_case(rng, allow_callable=True, kept_stdout=None):
    """store references / create generators in one execution, change the queue (in place AND by rebinding) and the
    output in between, use them in later executions"""
    if kept_stdout is None:
        kept_stdout = KEPT_STDOUT != "off"
    ops = []
    if rng.random() < 0.6:
        ops.append({"k": "set_input", "arg": ["many", [gen_value(rng) for _ in range(rng.randint(1, 4))]], "clear": True})
    slots, gslots = [0], []

    def an_exec(first):
        evs = []
        if (first and rng.random() < 0.7) or (not first and rng.random() < 0.15):
            slot = rng.choice([1, 2])
            evs.append(["keep", slot])
            if slot not in slots:
                slots.append(slot)
        if (first and rng.random() < 0.55) or (not first and rng.random() < 0.1):
            slot = rng.choice([1, 2])
            evs.append(["gnew", slot, [gen_base_event(rng) for _ in range(rng.randint(1, 5))], rng.random() < 0.6])
            if slot not in gslots:
                gslots.append(slot)
        for _ in range(rng.randint(0, 2) if first else rng.randint(1, 4)):
            evs.append(gen_route_event(rng, slots, gslots, kept_stdout) if rng.random() < 0.7 else gen_base_event(rng))
        if rng.random() < 0.5:
            rng.shuffle(evs)
        kind = rng.choice(["run", "call", "call", "eval"])
        pre = None
        if kind != "eval" and rng.random() < 0.15:
            pre = gen_arg(rng, allow_callable)
            if pre == ["none"]:
                pre = None
        return {"k": "exec", "kind": kind, "pre": pre, "events": evs, "raises": rng.random() < 0.08,
                "student_file": rng.random() < 0.5}

    ops.append(an_exec(True))
    for _ in range(rng.randint(1, 3)):
        for _ in range(rng.randint(0, 3)):
            ops.append(gen_between(rng, allow_callable))
        ops.append(an_exec(False))
    return {"ops": ops}


# --------------------------------------------------------------------------
# real pedal

def _py_arg(arg):
    if arg is None or arg[0] == "none":
        return None
    if arg[0] == "one":
        return arg[1]
    if arg[0] == "many":
        return list(arg[1])
    return CALLABLES[arg[1]]


def _as_tuple(e):
    return tuple(e)


def _events_literal(events):
    return "[" + ", ".join(repr(tuple(e)) for e in events) + "]"


def _run_source(op):
    """literal student source for a `run` execution"""
    lines = ["import sys", "_got[:] = []"]
    for e in op["events"]:
        if e[0] == "p":
            args = "".join(repr(v) + ", " for v in e[1])
            lines.append("print(%ssep=%r, end=%r)" % (args, e[2], e[3]))
        elif e[0] == "w":
            lines.append("sys.stdout.write(%r)" % e[1])
        elif e[0] == "r":
            lines.append("_got.append(input(%r))" % (e[1],))
        elif e[0] == "r0":
            lines.append("_got.append(input())")
        elif e[0] == "wl":
            lines.append("sys.stdout.writelines(%r)" % (list(e[1]),))
        elif e[0] in ("pf", "pfl"):
            args = "".join(repr(v) + ", " for v in e[1])
            lines.append("print(%ssep=%r, end=%r, %s)" % (args, e[2], e[3],
                                                         "file=sys.stdout" if e[0] == "pf" else "flush=True"))
        elif e[0] == "p0":
            lines.append("print(%s)" % ", ".join(repr(v) for v in e[1]))
        elif e[0] == "fl":
            lines.append("sys.stdout.flush()")
        elif e[0] == "rn":
            lines.append("for _i in range(%d):\n    _got.append(input(%r))" % (e[1], e[2]))
        else:       # a survivor route: through the interpreter the setup execution defined
            lines.append("_step(%r, _got)" % (_as_tuple(e),))
    if op["raises"]:
        lines.append("raise ValueError('boom')")
    return "\n".join(lines) + "\n"


def observe_real(sb, err):
    from pedal.sandbox import commands
    inputs = commands.get_input()
    if isinstance(inputs, list):
        src = ["q"] + [x for x in inputs]
    elif callable(inputs):
        src = ["c", [k for k, f in CALLABLES.items() if f is inputs][0]]
    else:
        src = ["?", repr(inputs)]
    last = sb._context[-1] if sb._context else None
    return {"err": err, "raw": commands.get_raw_output(), "lines": list(commands.get_output()), "inputs": src,
            "nctx": len(sb._context), "last_out": None if last is None else last.output,
            "last_in": None if last is None else list(last.inputs)}


@contextlib.contextmanager
def console_sink():
    """swallow what the tee buffer echoes to the real console: the object PrintingStringIO echoes to (its class
    attribute, taken from sys.stdout when pedal was imported), sys.stdout / sys.__stdout__ and file descriptor 1"""
    from pedal.sandbox import mocked
    sink = io.StringIO()
    cls = getattr(mocked, "PrintingStringIO", None)
    had = cls is not None and "_ORIGINAL_STDOUT" in vars(cls)
    old_attr = vars(cls)["_ORIGINAL_STDOUT"] if had else None
    old_out, old_dunder = sys.stdout, sys.__stdout__
    saved = devnull = None
    try:
        old_out.flush()
        saved = os.dup(1)
        devnull = os.open(os.devnull, os.O_WRONLY)
        os.dup2(devnull, 1)
    except (OSError, ValueError, AttributeError):
        pass
    if had:
        cls._ORIGINAL_STDOUT = sink
    sys.stdout = sys.__stdout__ = sink
    try:
        yield sink
    finally:
        sys.stdout, sys.__stdout__ = old_out, old_dunder
        if had:
            cls._ORIGINAL_STDOUT = old_attr
        try:
            old_out.flush()
        except (OSError, ValueError, AttributeError):
            pass
        if saved is not None:
            if devnull is not None:
                os.dup2(saved, 1)
                os.close(devnull)
            os.close(saved)


@contextlib.contextmanager
def _real_input(c):
    """builtins.input = CALLABLES[c] while an API that installs the REAL input() is called"""
    import builtins
    old = builtins.input
    builtins.input = CALLABLES[c]
    try:
        yield
    finally:
        builtins.input = old


def _apply_tee(sb, how):
    from pedal.sandbox import commands
    if how == "cmd_allow":
        commands.allow_function("print")
    elif how == "sb_allow":
        sb.allow_function("print")
    elif how == "off":
        sb.clear_mocked_function("print")
    elif how:
        raise ValueError(how)


def run_real(case):
    """Returns (observations per op incl. the setup op, contexts [(output, inputs)], student-side returned values per op)."""
    if uses_tee(case):
        with console_sink():
            return _run_real(case)
    return _run_real(case)


def _run_real(case):
    from pedal.core.report import MAIN_REPORT
    from pedal.core.commands import contextualize_report
    from pedal.sandbox import commands
    from pedal.core.submission import Submission
    MAIN_REPORT.clear()
    # the (empty) main file plus a helper module student code can import (survivor routes hr / hp / hw / hkw)
    contextualize_report(Submission(files={"answer.py": "", HELPER_NAME + ".py": HELPER}))
    sb = commands.get_sandbox()
    obs, student = [], []
    _apply_tee(sb, case.get("tee0"))
    commands.run(SETUP, filename="answer.py")
    obs.append(observe_real(sb, None))
    student.append([])
    for op in case["ops"]:
        err, got = None, None
        try:
            k = op["k"]
            _apply_tee(sb, op.get("tee"))
            if k == "exec":
                fname = "answer.py" if op.get("student_file", True) else None
                pre = _py_arg(op["pre"])
                kw = {} if pre is None else {"inputs": pre}
                before = len(sb._context)
                if op["kind"] == "run" and op.get("real_io") is not None:
                    with _real_input(op["real_io"]):
                        sb.run(_run_source(op), filename=fname, real_io=True, **kw)
                elif op["kind"] == "run":
                    if op.get("before") is not None:        # run(..., before=<code>): an execution of its own, FIRST
                        kw["before"] = _run_source({"events": op["before"], "raises": False})
                    commands.run(_run_source(op), filename=fname, **kw)
                elif op["kind"] == "call":
                    if op["raises"]:
                        commands.call("_do", [tuple(e) for e in op["events"]], True, **kw)
                    else:
                        commands.call("_do", [tuple(e) for e in op["events"]], **kw)
                else:
                    commands.evaluate("_do(%s%s)" % (_events_literal(op["events"]), ", True" if op["raises"] else ""))
                if len(sb._context) > before:
                    got = list(sb.data.get("_got", []))
            elif k == "clear_output":
                commands.clear_output()
            elif k == "set_input" and op.get("via") == "allow_real_io":
                with _real_input(op["arg"][1]):
                    commands.allow_real_io()
            elif k == "set_input":
                commands.set_input(_py_arg(op["arg"]), clear=op["clear"])
            elif k == "queue_input":
                commands.queue_input(*op["items"])
            elif k == "clear_input" and op.get("via") == "block_real_io":
                commands.block_real_io()
            elif k == "clear_input":
                commands.clear_input()
            else:
                raise ValueError(k)
        except Exception as e:  # the API call itself raised
            err = type(e).__name__
        obs.append(observe_real(sb, err))
        student.append(got)
    ctxs = [(c.output, list(c.inputs)) for c in sb._context]
    return obs, ctxs, student


# --------------------------------------------------------------------------
# which operations raise (a value given to set_input / queue_input / inputs= while a callable is installed), and
# the trace of an execution with the survivor routes resolved

def _arg_of(op):
    k = op["k"]
    if k == "exec":
        if op.get("real_io") is not None:       # Sandbox.run(real_io=True) starts with set_input(<the real input>)
            return ["callable", op["real_io"]], True
        return op["pre"], True
    if k == "set_input":
        return op["arg"], op["clear"]
    if k == "queue_input":
        return ["many", op["items"]], False
    if k == "clear_input":
        return ["none"], True
    return None, True


def walk(ops):
    """yields (op, raises): `raises` = the API call raises AttributeError before changing anything (for an execution:
    nothing is executed)"""
    callable_on = False
    for op in ops:
        arg, clear = _arg_of(op)
        raises = False
        if arg is not None:
            if callable_on and arg[0] != "none" and not (arg[0] == "callable" and not clear):
                raises = True
            elif arg[0] == "callable":
                callable_on = True
            elif arg[0] == "none":
                callable_on = False
        if op["k"] == "exec" and op.get("real_io") is not None and not raises:
            callable_on = False                 # ... and ends with clear_input()
        yield op, raises


def flat_ops(case, view="oracle"):
    """[SETUP_OP] + the case's ops, every execution's events reduced to what the property talks about:
    ["p", ...] / ["w", text] (a write to standard output) and ["r", prompt] / ["r0"] / ["rk", prompt] (a call of input();
    "rk": through a reference to `input` that an EARLIER execution handed out).  The property makes no difference
    between the routes, so the oracle view is simply the events in the order they happen.
    view="model": what is sent to the Lean model = the same, except that with KEPT_STDOUT == "open" text written
    through a standard output object kept from an earlier execution is dropped (the code as it is)."""
    kept = {0: 0}           # slot -> index of the execution that stored it (0 = the setup execution)
    gens = {}               # slot -> [remaining base events, captured, index of the creating execution]
    out = []
    # view="lost" (diagnosis only): as "model"/"open", whatever the gate says
    drop_kept = view == "lost" or (view == "model" and KEPT_STDOUT == "open")
    for i, (op, raises) in enumerate(walk([SETUP_OP] + case["ops"])):
        if op["k"] != "exec":
            out.append(op)
            continue
        evs = []
        if not raises:
            def read(prompt, stale, noarg=False):
                if stale:
                    return ["rk", "" if noarg else prompt]
                return ["r0"] if noarg else ["r", prompt]

            for e in op["events"]:
                k = e[0]
                stale = len(e) > 1 and k not in BASE_KINDS and k not in ("gnew", "gnext", "keep") \
                    and e[1] in kept and kept[e[1]] != i
                if k in BASE_KINDS:
                    evs.extend(norm_event(e))
                elif k == "keep":
                    kept[e[1]] = i
                elif k in ("kr", "hr"):
                    evs.append(read(e[2], stale))
                elif k == "kr0":
                    evs.append(read("", stale, noarg=True))
                elif k in ("kp", "hp"):
                    evs.append(["p", e[2], e[3], e[4]])
                elif k == "hw":
                    evs.append(["w", e[2]])
                elif k in ("kw", "kbw", "hkw"):
                    if not (stale and drop_kept):
                        evs.append(["w", e[2]])
                elif k == "kwl":
                    if not (stale and drop_kept):
                        evs.append(["w", "".join(e[2])])
                elif k in ("kpf", "dw"):
                    if not (stale and drop_kept):
                        evs.append(["p", e[2], e[3], e[4]])
                elif k == "gnew":
                    gens[e[1]] = [list(e[2]), bool(e[3]), i]
                elif k == "gnext":
                    g = gens.get(e[1])
                    for _ in range(e[2]):
                        if not g or not g[0]:
                            break
                        b = g[0].pop(0)
                        if b[0] in ("r", "r0"):
                            evs.append(read(ev_prompt(b), g[1] and g[2] != i, noarg=b[0] == "r0"))
                        else:
                            evs.extend(norm_event(b))
                else:
                    raise ValueError(e)
        flat = dict(op)
        flat["events"] = evs
        if op.get("before") is not None and not raises:
            # run(inputs=X, before=B): per the documentation X is queued first, then B is executed as an execution of
            # its own, then the code.  Same for every view: [set the inputs; execute B] (not observable from outside the
            # call: hidden), then the code with nothing further to queue.
            bev = []
            for b in op["before"]:
                bev.extend(norm_event(b))
            out.append({"k": "exec", "kind": "run", "pre": flat.get("pre"), "events": bev, "raises": False,
                        "student_file": op.get("student_file", True), "_hide": True})
            flat["pre"] = None
        out.append(flat)
        if view == "model" and op.get("real_io") is not None:
            # Sandbox.run(real_io=True) for the model: run(inputs=<callable>) followed by clear_input(); the observation
            # between the two does not exist on the real side (parse_model drops it)
            flat["pre"] = ["callable", op["real_io"]]
            if not raises:
                flat["_hide"] = True
                out.append({"k": "clear_input"})
    return out


def hidden_model_obs(case):
    return [i for i, op in enumerate(flat_ops(case, view="model")) if op.get("_hide")]


def has_stale_route(case):
    """does some execution use something an EARLIER execution stored (the survivor dimension is really exercised)"""
    flat = flat_ops(case)
    if any(e[0] == "rk" for op in flat if op["k"] == "exec" for e in op["events"]):
        return True
    kept = {0: 0}
    for i, (op, raises) in enumerate(walk([SETUP_OP] + case["ops"])):
        if op["k"] != "exec" or raises:
            continue
        for e in op["events"]:
            if e[0] == "keep":
                kept[e[1]] = i
            elif e[0] in WRITE_ROUTES + STDOUT_ROUTES and kept.get(e[1], i) != i:
                return True
    return False


# --------------------------------------------------------------------------
# abstraction shared by the model request and the oracle: what the events put on stdout

def ev_text(e):
    """text a non-read event writes (CPython's print/str semantics, trusted)"""
    if e[0] == "p":
        return e[2].join(str(v) for v in e[1]) + e[3]
    if e[0] == "w":
        return e[1]
    raise ValueError(e)


def ev_prompt(e):
    return "" if e[0] == "r0" else e[1]


def is_read(e):
    return e[0] in ("r", "r0", "rk")


def _enc_arg(arg):
    if arg[0] == "none":
        return ["n"]
    if arg[0] == "one":
        return ["o", enc_str(str(arg[1]))]
    if arg[0] == "many":
        return ["m", str(len(arg[1]))] + [enc_str(str(v)) for v in arg[1]]
    return ["c", str(arg[1])]


def _enc_op(op):
    k = op["k"]
    if k == "exec":
        toks = ["E"] + (["-"] if op["pre"] is None else _enc_arg(op["pre"]))
        toks.append(str(len(op["events"])))
        for e in op["events"]:
            if e[0] in ("p", "w"):
                toks += ["w", enc_str(ev_text(e))]
            else:       # "rk": input() through a reference kept from an earlier execution
                toks += ["rk" if e[0] == "rk" else "r", enc_str(str(ev_prompt(e)))]
        return toks
    if k == "clear_output":
        return ["C"]
    if k == "set_input":
        return ["S", "1" if op["clear"] else "0"] + _enc_arg(op["arg"])
    if k == "queue_input":
        return ["Q", str(len(op["items"]))] + [enc_str(str(v)) for v in op["items"]]
    if k == "clear_input":
        return ["I"]
    raise ValueError(k)


def request_line(case):
    ops = flat_ops(case, view="model")
    toks = ["hist", str(len(ops))]
    for op in ops:
        toks += _enc_op(op)
    return " ".join(toks)


def _dec(tok):
    assert tok.startswith("x"), tok
    return bytes.fromhex(tok[1:]).decode("utf-8")


def _dec_list(tok):
    return [] if tok == "" else [_dec(t) for t in tok.split(",")]


def parse_model(ans, case=None):
    """-> (observations, contexts) in the shape of run_real, or None for bad-request"""
    if case is not None and (uses_tee(case) or uses_before(case)):
        m = parse_model(ans)
        if m is not None:
            hide = set(hidden_model_obs(case))
            m = ([o for i, o in enumerate(m[0]) if i not in hide], m[1])
        return m
    if not ans.startswith("ok "):
        return None
    body, _, ctx = ans[3:].partition(" | ")
    if ans.endswith(" | "):
        body, ctx = ans[3:-3], ""
    obs = []
    for rec in body.split(" "):
        err, raw, lines, src, nctx, lo, li = rec.split(";")
        if src.startswith("q:"):
            s = ["q"] + _dec_list(src[2:])
        else:
            s = ["c", int(src[2:])]
        obs.append({"err": "raises" if err == "1" else None, "raw": _dec(raw), "lines": _dec_list(lines), "inputs": s,
                    "nctx": int(nctx), "last_out": None if lo == "-" else _dec(lo),
                    "last_in": None if li == "-" else _dec_list(li)})
    ctxs = []
    if ctx:
        for rec in ctx.split(" "):
            o, _, i = rec.partition("/")
            ctxs.append((_dec(o), _dec_list(i)))
    return obs, ctxs


def compare(real, model):
    """field names that differ between real and model (obs lists + contexts)"""
    if model is None:
        return ["bad-request"]
    robs, rctx = real
    mobs, mctx = model
    diffs = []
    if len(robs) != len(mobs):
        return ["op-count"]
    for i, (r, m) in enumerate(zip(robs, mobs)):
        for f in ("raw", "lines", "inputs", "nctx", "last_out", "last_in"):
            if r[f] != m[f]:
                diffs.append("op%d.%s" % (i, f))
        if (r["err"] is None) != (m["err"] is None):
            diffs.append("op%d.err" % i)
    if [(o, list(i)) for o, i in rctx] != [(o, list(i)) for o, i in mctx]:
        diffs.append("contexts")
    return diffs


# --------------------------------------------------------------------------
# oracle, written from the property text

def in_domain(case):
    """The property speaks about queued inputs.  Histories that call set_input/queue_input with a
    non-None value (or run(inputs=...)) while a callable is installed are outside it (the code raises
    AttributeError there; modelled and compared by the correspondence, not judged by the oracle)."""
    return not any(raises for _op, raises in walk(case["ops"]))


def items_of(arg):
    if arg[0] == "one":
        return [str(arg[1])]
    if arg[0] == "many":
        return [str(v) for v in arg[1]]
    return []


class _Default:
    """placeholder for 'the fixed default input' (learned from the first default the code serves)"""
    def __repr__(self):
        return "<default>"


DEFAULT = _Default()


def subst_default(values, default):
    return [default if v is DEFAULT else v for v in values]


def learn_default(exp_lists, real_lists):
    for e, r in zip(exp_lists, real_lists):
        if e is None or r is None:
            continue
        for x, y in zip(e, r):
            if x is DEFAULT:
                return y
    return "0"


def expected(case, default=DEFAULT, view="oracle"):
    """What the property says each observation must be.  `default` = the fixed default input."""
    raw, lines, queue, fn = "", [], [], None
    records = []
    out = []
    for op in flat_ops(case, view=view):
        k = op["k"]
        returned = None
        if k == "exec":
            if op.get("real_io") is not None:
                fn, queue = CALLABLES[op["real_io"]], []
            elif op["pre"] is not None:
                if op["pre"][0] == "callable":
                    fn, queue = CALLABLES[op["pre"][1]], []
                else:
                    fn, queue = None, items_of(op["pre"])
            text, returned = "", []
            for e in op["events"]:
                if e[0] in ("p", "w"):
                    text += ev_text(e)
                else:
                    p = ev_prompt(e)
                    if fn is not None:
                        returned.append(fn(p))
                    else:
                        text += str(p) + "\n"          # the prompt is part of what was written
                        returned.append(queue.pop(0) if queue else default)
            raw += text
            records.append((text, returned))
            if text:                                 # executions that printed something
                lines = lines + [ln.rstrip() for ln in text.rstrip().split("\n")]
            if op.get("real_io") is not None:        # run(real_io=True) ends with clear_input()
                fn, queue = None, []
        elif k == "clear_output":
            raw, lines = "", []
        elif k == "set_input":
            a = op["arg"]
            if a[0] == "callable":
                fn, queue = CALLABLES[a[1]], []
            elif a[0] == "none":
                fn, queue = None, []
            else:
                fn = None
                queue = (list(queue) if not op["clear"] else []) + items_of(a)
        elif k == "queue_input":
            queue = list(queue) + [str(v) for v in op["items"]]
        elif k == "clear_input":
            fn, queue = None, []
        if op.get("_hide") and op.get("real_io") is None:
            continue                # the `before=` execution of a run(): nothing is observed between it and the code
        out.append({"raw": raw, "lines": list(lines), "queue": None if fn is not None else list(queue),
                    "nctx": len(records), "record": records[-1] if records else None, "returned": returned})
    return out, records


def judge(case, real, view="oracle"):
    """-> None or (signature, what).  real = run_real(case).
    view="lost": judge everything ELSE while tolerating the recorded open finding (text written through a standard
    output object kept from an earlier execution vanishes), so that this finding cannot hide another failure."""
    robs, rctx, student = real
    exp, records = expected(case, view=view)
    # "a fixed default": whatever the first default read returned, the same ever after
    default = learn_default([e["returned"] for e in exp], [r["last_in"] for r in robs])
    if not isinstance(default, str):
        return ({"claim": "input-default"}, "default input is %r, not a string" % (default,))
    for e in exp:
        if e["returned"] is not None:
            e["returned"] = subst_default(e["returned"], default)
        if e["record"] is not None:
            e["record"] = (e["record"][0], subst_default(e["record"][1], default))
    records = [(o, subst_default(i, default)) for o, i in records]
    ops = [SETUP_OP] + case["ops"]
    for i, (e, r) in enumerate(zip(exp, robs)):
        if r["err"] is not None:
            return ({"claim": "operation-raised", "error": r["err"]},
                    "op %d (%s) raised %s" % (i, ops[i]["k"], r["err"]))
        if r["raw"] != e["raw"]:
            sig = {"claim": "raw-output"}
            if view == "oracle" and uses_kept_stdout(case) and r["raw"] == expected(case, view="lost")[0][i]["raw"]:
                # diagnosis only: exactly the text written through a standard output object kept from an earlier
                # execution is missing
                sig["shape"] = "kept-stdout-write-lost"
            if max(len(r["raw"]), len(e["raw"])) > 60:
                return (sig, "op %d: raw output ...%r (%d chars), expected ...%r (%d chars)"
                        % (i, r["raw"][-40:], len(r["raw"]), e["raw"][-40:], len(e["raw"])))
            return (sig, "op %d: raw output %r, expected %r" % (i, r["raw"][-60:], e["raw"][-60:]))
        if r["lines"] != e["lines"]:
            shape = "other"
            if len(r["lines"]) > len(e["lines"]) and _is_with_extra_empties(r["lines"], e["lines"]):
                shape = "phantom-empty-entry"
            elif len(r["lines"]) < len(e["lines"]):
                shape = "missing-entry"
            return ({"claim": "line-view", "shape": shape},
                    "op %d: line view %r, expected %r" % (i, r["lines"][-6:], e["lines"][-6:]))
        if e["queue"] is not None and r["inputs"] != ["q"] + e["queue"]:
            return ({"claim": "input-queue"}, "op %d: queued inputs %r, expected %r" % (i, r["inputs"][1:], e["queue"]))
        if r["nctx"] != e["nctx"]:
            return ({"claim": "execution-records"}, "op %d: %d records, expected %d" % (i, r["nctx"], e["nctx"]))
        if ops[i]["k"] == "exec":
            if r["last_out"] != e["record"][0]:
                return ({"claim": "record-share"}, "op %d: record output %r, expected %r" % (i, r["last_out"], e["record"][0]))
            if r["last_in"] != e["returned"]:
                return ({"claim": "input-order"}, "op %d: recorded inputs %r, expected %r" % (i, r["last_in"], e["returned"]))
            if student[i] is not None and i > 0 and student[i] != e["returned"]:
                return ({"claim": "input-order"}, "op %d: input() returned %r, expected %r" % (i, student[i], e["returned"]))
    if [(o, list(x)) for o, x in rctx] != [(o, list(x)) for o, x in records]:
        return ({"claim": "record-share"}, "final records %r, expected %r" % (rctx[-3:], records[-3:]))
    return None


def _is_with_extra_empties(got, want):
    j = 0
    for x in got:
        if j < len(want) and x == want[j]:
            j += 1
        elif x == "":
            continue
        else:
            return False
    return j == len(want)


# --------------------------------------------------------------------------
# shrinking

def _plain_of(e):
    """the same event through the names of the current execution (None: not a route event / no plain form)"""
    k = e[0]
    if k in ("kr", "hr"):
        return ["r", e[2]]
    if k == "kr0":
        return ["r0"]
    if k in ("kp", "hp", "kpf", "dw"):
        return ["p", e[2], e[3], e[4]]
    if k in ("hw", "kw", "kbw", "hkw"):
        return ["w", e[2]]
    if k == "kwl":
        return ["wl", e[2]]
    return None


def _simpler_route(e):
    k = e[0]
    if k in ("kr", "hr"):
        return [k, e[1], ""]
    if k in ("kp", "hp", "kpf", "dw"):
        return [k, e[1], ["a"], " ", "\n"]
    if k in ("hw", "kw", "kbw", "hkw"):
        return [k, e[1], "a\n"]
    if k == "kwl":
        return [k, e[1], ["a\n"]]
    return None


def _simpler_base(e):
    """simpler base events to try in place of e, simplest first"""
    k = e[0]
    if k in ("r", "r0"):
        return [["r", ""]]
    if k == "rn":
        return [["rn", e[1], ""]]
    if k in ("p", "w"):
        return [["w", "a\n"]]
    if k == "wl":
        return [["w", "a\n"], ["wl", ["a\n"]]]
    if k in ("pf", "pfl"):
        return [["w", "a\n"], [k, ["a"], " ", "\n"]]
    if k == "p0":
        return [["w", "a\n"], ["p0", ["a"]]]
    return []


def shrink(case, still):
    case = json.loads(json.dumps(case))
    changed = True
    while changed:
        changed = False
        for i in range(len(case["ops"])):
            c = dict(case, ops=case["ops"][:i] + case["ops"][i + 1:])
            if still(c):
                case, changed = c, True
                break
        if changed:
            continue
        # the capture buffer: drop switches that are not needed
        if case.get("tee0"):
            c = {k: v for k, v in case.items() if k != "tee0"}
            if still(c):
                case, changed = c, True
                continue
        for i, op in enumerate(case["ops"]):
            for key in ("tee", "via", "real_io"):
                if op.get(key) is not None:
                    c = json.loads(json.dumps(case))
                    del c["ops"][i][key]
                    if still(c):
                        case, changed = c, True
                        break
            if changed:
                break
        if changed:
            continue
        for i, op in enumerate(case["ops"]):
            if op["k"] != "exec":
                continue
            for j in range(len(op["events"])):
                c = json.loads(json.dumps(case))
                del c["ops"][i]["events"][j]
                if still(c):
                    case, changed = c, True
                    break
            if changed:
                break
            for j, e in enumerate(op["events"]):        # steps of a generator, number of steps advanced
                if e[0] == "gnew":
                    for t in range(len(e[2])):
                        c = json.loads(json.dumps(case))
                        del c["ops"][i]["events"][j][2][t]
                        if still(c):
                            case, changed = c, True
                            break
                elif e[0] == "gnext" and e[2] > 1:
                    c = json.loads(json.dumps(case))
                    c["ops"][i]["events"][j][2] = e[2] - 1
                    if still(c):
                        case, changed = c, True
                if changed:
                    break
            if changed:
                break
            for key, val in (("raises", False), ("pre", None), ("kind", "call"), ("student_file", True)):
                if op.get(key) != val:
                    c = json.loads(json.dumps(case))
                    c["ops"][i][key] = val
                    if still(c):
                        case, changed = c, True
                        break
            if changed:
                break
            for j, e in enumerate(op["events"]):
                # a survivor route: first try the same event through the current binding, then a simpler one of its kind
                plain = _plain_of(e)
                if plain is not None:
                    c = json.loads(json.dumps(case))
                    c["ops"][i]["events"][j] = plain
                    if still(c):
                        case, changed = c, True
                        break
                    simpler = _simpler_route(e)
                    if simpler is not None and simpler != e:
                        c = json.loads(json.dumps(case))
                        c["ops"][i]["events"][j] = simpler
                        if still(c):
                            case, changed = c, True
                            break
                    continue
                if e[0] not in BASE_KINDS:
                    continue
                for simple in _simpler_base(e):
                    if e != simple:
                        c = json.loads(json.dumps(case))
                        c["ops"][i]["events"][j] = simple
                        if still(c):
                            case, changed = c, True
                            break
                if changed:
                    break
            if changed:
                break
    return case

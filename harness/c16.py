"""C16 — the result proxy (pedal/sandbox/result.py SandboxResult) is transparent for every operation that works on
the real value."""
import copy
import itertools
import json
import os
import sys

from common import VERIF, CorrResult, Failure, run_check, use_repo

use_repo()
import proxy_common as pc          # noqa: E402
import proxy_model as pm           # noqa: E402
from translate_proxy import translate   # noqa: E402

THEOREMS = [
    "Pedal.Proxy.c16_binary",
    "Pedal.Proxy.c16_reflected",
    "Pedal.Proxy.c16_comparison",
    "Pedal.Proxy.c16_unary",
    "Pedal.Proxy.c16_conversion",
    "Pedal.Proxy.c16_container",
    "Pedal.Proxy.c16_isinstance",
    "Pedal.Proxy.c16_generated_flags",
    "Pedal.Proxy.gen_arith",
    "Pedal.Proxy.gen_cmp",
    "Pedal.Proxy.gen_conv",
    "Pedal.Proxy.gen_getitem",
    "Pedal.Proxy.gen_contains",
    "Pedal.Proxy.c16_reflected_full_of_ok",
    "Pedal.Proxy.c16_reflected_counterexample",
]
NOTES = [
    "CPython's slots are a parameter (TypeTable): the theorems hold for every table; for each request the harness "
    "tabulates single slot calls type(a).__d__(a, b) and CPython's post-processing steps from the running interpreter, "
    "the Lean model decides order, checks and fallbacks (validated against CPython itself: placement N requests)",
    "a real slot handed a proxy is modelled as declines (C slots, probed with a foreign object), blind (Python-level "
    "methods: duck typing through __getattribute__/__class__ spoof) or sees (unmodelled: str.__mod__)",
    "slot functions are pure in the model (a student dunder that prints or mutates is outside it)",
    "round(x, n), format(x, spec), f-strings, 3-argument pow, sum/sorted and the replacement len() have no family "
    "theorem of their own beyond the generated flags; they are sampled by the search",
    "exception classes are not compared (the property only says the proxied operation fails too)",
    "the forwarding plans are derived from what each SandboxResult method does: a path-wise symbolic execution of "
    "pedal/sandbox/result.py (helpers, decorators, factories, base classes inlined; undecidable conditions fork) "
    "cross-checked against the real method called on instrumented operands (harness/proxy_probe.py); a method that "
    "neither source establishes, or on which they disagree, is `opaque` and the gen_* theorems fail",
    "the instrumented operands of that measurement carry an attribute (an instrumented decoy) for every name the proxy "
    "class itself uses (vocabulary read from result.py): a method that reaches the student's `value` / `_actual_value` / "
    "... instead of the wrapped object fits no plan; a PLAIN other operand carries the public names only (an object that "
    "answers the proxy's reserved underscore names is not distinguishable from a proxy by design)",
    "attribute collisions are not part of the Lean model (a value has no attributes there): the family is covered by "
    "the measurement above (=> opaque plans => gen_* fail) and by a search-only stream with CPython as the oracle",
]


def corpus_cases():
    d = os.path.join(VERIF, "corpus", "C16")
    out = []
    if os.path.isdir(d):
        for name in sorted(os.listdir(d)):
            if name.endswith(".json"):
                with open(os.path.join(d, name)) as fh:
                    data = json.load(fh)
                out.extend(data if isinstance(data, list) else [data])
    return out


def fam_of(op):
    if op in pc.ARITH_NAMES:
        return "binary"
    if op in pc.CMP_NAMES:
        return "comparison"
    if op in pc.UNARY_NAMES:
        return "unary"
    if op in pc.CONTAINER_CONV or op in pc.CONTAINER2:
        return "container"
    return "conversion"


def builtin_cases(rng, tier):
    vals = pc.value_specs()
    by_kind = {}
    for v in vals:
        by_kind.setdefault(v["kind"], []).append(v)
    kinds = sorted(by_kind)
    out = []
    if tier == "thorough":
        for op in pc.ARITH_NAMES + pc.CMP_NAMES:
            for l, r in itertools.product(vals, repeat=2):
                for plc in pc.PLACEMENTS:
                    out.append({"family": fam_of(op), "op": op, "left": l, "right": r, "placement": plc})
    else:
        # every operator x kind pair once (random representatives, random placement) plus a random sample
        for op in pc.ARITH_NAMES + pc.CMP_NAMES:
            for kl, kr in itertools.product(kinds, repeat=2):
                out.append({"family": fam_of(op), "op": op, "left": rng.choice(by_kind[kl]),
                            "right": rng.choice(by_kind[kr]), "placement": rng.choice(pc.PLACEMENTS)})
        for i in range(1500):
            op = rng.choice(pc.ARITH_NAMES + pc.CMP_NAMES)
            case = {"family": fam_of(op), "op": op, "left": rng.choice(vals), "right": rng.choice(vals),
                    "placement": rng.choice(pc.PLACEMENTS)}
            if i % 3 == 0:
                case["spelling"] = "infix"        # `a + b` as source text instead of operator.add(a, b)
            out.append(case)
    for op in pc.CONV:
        for v in vals:
            out.append({"family": fam_of(op), "op": op, "left": v})
    pairs = list(itertools.product(vals, repeat=2))
    if tier != "thorough":
        pairs = rng.sample(pairs, 400)
    for op in pc.CONTAINER2:
        for l, r in pairs:
            out.append({"family": "container", "op": op, "left": l, "right": r})
            # the key / needle a call() result too (search only: see correspond)
            out.append({"family": "container", "op": op, "left": l, "right": r, "placement": "both"})
    for v in vals:
        for c in pc.BUILTIN_CLASSES:
            out.append({"family": "isinstance", "op": "isinstance", "left": v, "cls": c})
    return out


def user_cases(rng, n):
    vals = pc.value_specs()
    out = []
    for _ in range(n):
        specs = pc.gen_classes(rng)
        names = [s["name"] for s in specs]
        uv = [{"kind": "user", "cls": c, "payload": i} for i, c in enumerate(names)]
        pool = uv + rng.sample(vals, 3)
        defined = [d for s in specs for d in s["dunders"]]
        for _ in range(5):
            op = rng.choice(pc.ARITH_NAMES + pc.CMP_NAMES)
            if defined and rng.random() < 0.85:
                d = rng.choice(defined)
                for f, rd, _ in pc.ARITH + pc.CMP:
                    if d in (f, rd):
                        op = f
            l = rng.choice(uv) if rng.random() < 0.7 else rng.choice(pool)
            r = rng.choice(pool)
            if rng.random() < 0.3:
                l, r = r, l
            out.append({"family": fam_of(op), "op": op, "left": l, "right": r, "placement": rng.choice(pc.PLACEMENTS),
                        "classes": specs})
        convs = [d for s in specs for d in s.get("conv", {})]
        for _ in range(4):
            op = rng.choice(list(pc.CONV))
            if convs and rng.random() < 0.8:
                d = rng.choice(convs)
                cands = [c for c, (_, ds) in pc.CONV.items() if d in ds]
                if cands:
                    op = rng.choice(cands)
            out.append({"family": fam_of(op), "op": op, "left": rng.choice(uv), "classes": specs})
        out.append({"family": "container", "op": rng.choice(list(pc.CONTAINER2)), "left": rng.choice(uv),
                    "right": rng.choice(pool), "classes": specs})
        out.append({"family": "isinstance", "op": "isinstance", "left": rng.choice(uv),
                    "cls": rng.choice(names + ["int", "object"]), "classes": specs})
    return out


def same_object_cases():
    """ONE object on both sides of a comparison (round 5, seed C16_I: an identity fast path in `__eq__` answered True
    for two proxies of the same NaN): values whose comparison with THEMSELVES is not simply True - NaN, containers of
    NaN, an infinity - and ordinary ones, as two proxies of the one object and as the very same proxy twice.
    Search-only (the model has no notion of object identity)."""
    def V(k, e):
        return {"kind": k, "expr": e}
    vals = [V("float", "1e999 - 1e999"), V("list", "[1e999 - 1e999]"), V("tuple", "(1e999 - 1e999, 1)"),
            V("dict", "{1: 1e999 - 1e999}"), V("float", "1e999"), V("float", "2.5"), V("int", "3"), V("str", "'ab'"),
            V("list", "[1, 2]"), V("dict", "{1: 2}"), V("set", "{1, 2}"), V("none", "None"), V("complex", "(1+2j)")]
    out = []
    for v in vals:
        for op in ("__eq__", "__ne__", "__lt__", "__le__", "__gt__", "__ge__"):
            for placement in ("both", "same-proxy"):
                for spelling in ("infix", "operator"):
                    out.append({"family": "comparison", "op": op, "left": v, "right": v, "placement": placement,
                                "same": True, "spelling": spelling, "classes": []})
    return out


def extra_cases(rng, tier):
    """Sampled-only operations (no family theorem): 3-argument pow, round(x, n), format specs, f-strings,
    sum/sorted, and the replacement len()."""
    def V(k, e):
        return {"kind": k, "expr": e}
    vals = pc.value_specs()
    out = []
    for a, b, c in itertools.product([V("int", "2"), V("int", "5"), V("float", "2.5")],
                                     [V("int", "3"), V("int", "-1"), V("float", "0.5")],
                                     [V("int", "3"), V("int", "7")]):
        for prox in ([0], [1], [2], [0, 1], [0, 1, 2]):
            out.append({"family": "extra", "op": "pow3", "args": [a, b, c], "proxied": prox})
    for v in vals:
        for n in [V("int", "1"), V("int", "0"), V("int", "-1"), V("none", "None")]:
            out.append({"family": "extra", "op": "round_n", "args": [v, n], "proxied": [0]})
        for sp in ["''", "'>5'", "'.2f'", "'d'", "'05d'", "'s'"]:
            out.append({"family": "extra", "op": "format_spec", "args": [v, V("str", sp)], "proxied": [0]})
        for op in ("fstring", "sum", "sorted"):
            out.append({"family": "extra", "op": op, "args": [v], "proxied": [0]})
        out.append({"family": "len_fn", "op": "len_fn", "left": v, "placement": "proxy"})
    seen_kinds = set()
    for v in vals:          # one ordinary value per kind is enough (a recursing len() is slow to fail)
        if v["kind"] not in seen_kinds:
            seen_kinds.add(v["kind"])
            out.append({"family": "len_fn", "op": "len_fn", "left": v, "placement": "raw"})
    return out


def check_case(case):
    real, got = pc.run_case(case)
    return pc.oracle(case, real, got), real, got


def shrink(case, sig):
    """Drop generated classes' methods / whole classes while the same signature keeps failing."""
    if not case.get("classes"):
        return case
    cur = copy.deepcopy(case)

    def still(c):
        try:
            v, _, _ = check_case(c)
        except Exception:       # noqa
            return False
        return v is not None and v[0] == sig
    changed = True
    while changed:
        changed = False
        used = {v["cls"] for v in (cur.get("left"), cur.get("right")) if isinstance(v, dict) and v.get("kind") == "user"}
        if cur.get("cls"):
            used.add(cur["cls"])
        for i, spec in enumerate(cur["classes"]):
            bases = {s.get("base") for s in cur["classes"]}
            if spec["name"] not in used and spec["name"] not in bases:
                c2 = copy.deepcopy(cur)
                del c2["classes"][i]
                if still(c2):
                    cur, changed = c2, True
                    break
            for group in ("dunders", "conv"):
                for d in list(spec.get(group, {})):
                    c2 = copy.deepcopy(cur)
                    del c2["classes"][i][group][d]
                    if still(c2):
                        cur, changed = c2, True
                        break
                if changed:
                    break
            if changed:
                break
            # colliding attributes one by one, the catch-all, the __class__ override, the shape
            for j in range(len(spec.get("attrs", []))):
                c2 = copy.deepcopy(cur)
                del c2["classes"][i]["attrs"][j]
                if still(c2):
                    cur, changed = c2, True
                    break
            if changed:
                break
            for key in ("catch", "klass", "dc", "miss"):
                if key in spec:
                    c2 = copy.deepcopy(cur)
                    del c2["classes"][i][key]
                    if still(c2):
                        cur, changed = c2, True
                        break
            if changed:
                break
            if spec.get("shape") not in (None, "object"):
                c2 = copy.deepcopy(cur)
                c2["classes"][i]["shape"] = "object"
                if still(c2):
                    cur, changed = c2, True
                    break
    return cur


def correspond(rng, tier, driver):
    res = CorrResult()
    res.rule = ("cases = corpus + every operator/conversion of the families over 34 builtin values (quick: every "
                "operator x kind pair once + 1500 random cells; thorough: all 34x34x3 cells) + seeded random student-class "
                "hierarchies (dunders returning value/NotImplemented/raise per operand class, bad return types for "
                "conversions). Two requests per case: (1) placement N: Lean protocol model vs CPython's own operator on the "
                "raw operands; (2) the proxied placement: Lean proxy model (generated plans) vs the real SandboxResult. "
                "Compared: raises or not, the value, wrapped or not, stdout or not. Non-trivial = a case where some slot "
                "returned NotImplemented or raised, or a student class is involved, or the model applied a return-type check")
    cases = corpus_cases()
    cases += builtin_cases(rng, tier)
    cases += user_cases(rng, 250 if tier == "quick" else 6000)
    # student values whose attribute names collide with the proxy's own vocabulary (a sample: the search runs them all)
    # (not those with a cause of their own, nor values claiming a second class: the model has one class per value)
    collide = [c for c in pc.collide_cases(rng, tier, budget=0 if tier == "quick" else 200)
               if not any(s.get("klass") for s in c["classes"]) and pc.structural_cause(c) is None]
    cases += collide if tier != "quick" else rng.sample(collide, min(1500, len(collide)))
    res.cases = cases       # the search runs all of them
    cases = [c for c in cases if c["family"] not in ("extra", "len_fn")
             and not (c["family"] == "container" and c.get("placement") == "both")]
    lines, meta = [], []
    for case in cases:
        f = pc.case_function(case)
        _, raw, prox = pc.case_operands(case)
        try:
            line_n, T = pm.request(case, placement="none", raw=raw)
            line_p, T2 = pm.request(case, raw=raw)
        except Exception as e:       # noqa
            res.disagreements.append({"case": case, "real": "tabulation failed", "model": "%s: %s" % (type(e).__name__, e)})
            continue
        real = pc.run(f, *raw)
        got = pc.run(f, *prox)
        lines += [line_n, line_p]
        meta.append((case, T, T2, real, got, line_n, line_p))
    answers = driver.ask(lines)
    for i, (case, T, T2, real, got, line_n, line_p) in enumerate(meta):
        a_n, a_p = pm.parse_answer(answers[2 * i]), pm.parse_answer(answers[2 * i + 1])
        res.evaluations += 2
        res.count("family:" + case["family"])
        if case.get("classes"):
            res.count("student-classes")
        if " ni" in line_n or ":ni" in line_n or ":e" in line_n or case.get("classes"):
            res.nontrivial.add(pc.case_key(case))
        d1 = pm.compare(a_n, T, real, check_wrapped=False)
        d2 = pm.compare(a_p, T2, got)
        for which, d, a, line, out in (("protocol", d1, a_n, line_n, real), ("proxy", d2, a_p, line_p, got)):
            if d == "skip":
                res.count("unmodelled:" + which)
            elif d is not None:
                res.disagreements.append({"case": case, "which": which, "real": repr(out[:2])[:200], "model": a,
                                          "why": d, "request": line})
        if a_p.get("excluded") == "1":
            res.count("excluded-by-side-condition")
        res.count("outcome:" + real[0])
    res.samples = [pc.describe(c) for c in cases[-3:]]
    return res


def search(rng, tier, broken, corr):
    info = {"rule": "oracle = the same operation on the raw value(s): value => equal value (type and ==), no stdout, not "
                    "NotImplemented; raises => raises. Cases: corpus, the correspondence cases, sampled-only extras "
                    "(pow with modulus, round(x, n), format specs, f-strings, sum, sorted, replacement len()), more seeded "
                    "student-class hierarchies; thorough: every builtin cell; container operations also with the key / "
                    "needle proxied; COLLIDING VALUES: the names SandboxResult itself uses are read from the tree under test "
                    "(ASSIGNABLE_ATTRS, identifier string constants, attribute / parameter / class / module names of "
                    "result.py + underscore and dunder-ish variants) and student values carrying exactly those names - as "
                    "instance / class attribute, property, method, slot, namedtuple / dataclass field, key of an attribute-"
                    "dict, Enum / IntEnum / str-Enum member, through a catch-all __getattr__ / __getattribute__, or claiming "
                    "another __class__ - are put through the whole battery (every conversion, operators in all placements "
                    "incl. dunders that read the same field of the OTHER operand, containers, isinstance, extras, "
                    "dict lookup / set membership); a plain operand that ANSWERS the proxy's reserved underscore names is "
                    "outside (counted in collide.distribution)",
            "evaluations": 0, "distinct_nontrivial": 0, "samples": []}
    failures = {}
    nt = set()
    cases = list(getattr(corr, "cases", None) or (corpus_cases() + builtin_cases(rng, tier)))
    cases += corpus_cases() if getattr(corr, "cases", None) is None else []
    cases += extra_cases(rng, tier)
    cases += same_object_cases()
    n_user = (600 if tier == "quick" else 12000) * (3 if broken else 1)
    cases += user_cases(rng, n_user)
    pc.COLLIDE_STATS.clear()
    collide = pc.collide_cases(rng, tier)
    info["collide"] = {"cases": len(collide), "vocabulary": pc.vocabulary(), "shadowed": sorted(pc.shadowed_names()),
                       "distribution": dict(sorted(pc.COLLIDE_STATS.items()))}
    cases += collide
    for case in cases:
        info["evaluations"] += 1
        try:
            v, real, got = check_case(case)
        except Exception as e:       # noqa  (harness problem, not a verdict)
            info.setdefault("harness_errors", []).append("%s: %s" % (pc.describe(case), e))
            continue
        if real[0] == "ok":
            nt.add(pc.case_key(case))
        if v is None:
            continue
        sig, what = v
        key = json.dumps(sig, sort_keys=True)
        if key in failures:
            continue
        small = shrink(case, sig)
        v2, real2, got2 = check_case(small)
        failures[key] = Failure(sig, v2[1] if v2 else what,
                                {"case": small, "real": repr(real2), "proxied": repr(got2)})
        if len(failures) >= 60:
            break
    info["distinct_nontrivial"] = len(nt)
    info["samples"] = [pc.describe(c) for c in cases[:2]]
    return list(failures.values()), info


def replay(payload):
    case = payload["replay"]["case"] if "replay" in payload else payload["case"]
    v, real, got = check_case(case)
    print("case     :", pc.describe(case))
    print("raw      :", real)
    print("proxied  :", got)
    print("verdict  :", "property violated: %s" % v[1] if v else "property holds on this input")
    print("signature:", json.dumps(v[0], sort_keys=True) if v else "-")
    return 1 if v else 0


if __name__ == "__main__":
    sys.exit(run_check("C16", proof_modules=["PedalProofs.C16"], theorems=THEOREMS, driver_exe="driver_c16",
                       translate=translate, correspond=correspond, search=search, replay=replay,
                       model_notes=NOTES,
                       refuted_full=[{"statement": "Pedal.Proxy.C16_reflected_Full",
                                      "refuted_by": "Pedal.Proxy.c16_reflected_counterexample",
                                      "findings": ["subclass-reflected-first (proxy-right)", "str % proxy (str.__mod__ "
                                                   "inspects the foreign operand)"]}],
                       leanchecker_modules=["PedalProofs.C16"]))

"""C19 — TIFA's operator typing and value typing agree with what CPython does at run time."""
import itertools
import json
import os
import sys

from common import VERIF, CorrResult, Failure, run_check, use_repo

use_repo()
import typeops_common as tc                       # noqa: E402
from translate_types import translate             # noqa: E402

THEOREMS = [
    "Pedal.Types.c19_table_sound_partial",
    "Pedal.Types.c19_table_full_of_no_excluded",
    "Pedal.Types.c19_table_counterexample",
    "Pedal.Types.c19_known_bad_minimal",
    "Pedal.Types.c19_cell_sound",
    "Pedal.Types.c19_expr_sound_partial",
    "Pedal.Types.c19_expr_type_error_flagged",
    "Pedal.Types.c19_value_type_stable",
    "Pedal.Types.c19_is_subtype_reflexive",
    "Pedal.Types.c19_value_type_conforms",
    "Pedal.Types.keyOf_applyBinary",
    "Pedal.Types.flagged_of_flagsKey",
    "Pedal.Types.addContainers_rows_same",
]
REFUTED = [{"statement": "Pedal.Types.C19_TableSound_Full",
            "covered_by": "open findings: ** result class depends on operand values (int ** negative int is a float; "
                          "negative ** fractional is complex)"}]
NOTES = [
    "operator soundness is proved at the level of type CLASSES (the class of TIFA's inferred type is one a value of the "
    "run-time result class conforms to); conformance of list/tuple ELEMENT types is sampled on the real code by the "
    "search, not proved",
    "'CPython raises TypeError for those operand types' = every pair of representative values of the two classes "
    "raises TypeError (int 3,-2,0,1; float 2.5,-0.5,0.0; str 'ab','','%d'; list [1,2],[],[7]; tuple (1,2),(5,),(); "
    "bool True,False); value-dependent TypeErrors ('ab' % 3, [1] < ['a']) put no obligation on TIFA",
    "leaves are variables whose TIFA type has a class fitting the value's class (hypothesis LeavesOk; checked on every "
    "generated program); comparison chains (a < b < c) are outside the model, single comparisons only",
    "the `seen` set of is_subtype is modelled by five flags for the class-level shared parent instances; types built from "
    "values are trees of fresh objects",
    "value universe: None, bool, int, float (no NaN), str, list, tuple, set (in iteration order), dict; frozenset, "
    "complex, bytes are outside (normalize_type(frozenset) is not a builtin pedal type)",
    "TIFA flagging arithmetic CPython accepts (bool arithmetic, 'x' in [1]) is not constrained by C19",
]


def corpus_cases():
    d = os.path.join(VERIF, "corpus", "C19")
    out = []
    if os.path.isdir(d):
        for name in sorted(os.listdir(d)):
            if name.endswith(".json"):
                with open(os.path.join(d, name)) as fh:
                    out.append(json.load(fh))
    return out


SEED_TREES = [
    ["N", "b:floordiv", ["L", "int", "3"], ["L", "float", "2.5"]],
    ["N", "b:add", ["L", "tuple", "(1, 2)"], ["L", "tuple", "(5,)"]],
    ["N", "b:add", ["N", "b:add", ["L", "tuple", "(1, 2)"], ["L", "tuple", "(5,)"]], ["L", "tuple", "()"]],
    ["N", "b:add", ["L", "int", "3"], ["L", "tuple", "()"]],
    ["N", "c:in", ["L", "int", "3"], ["L", "tuple", "()"]],
    ["N", "b:mult", ["L", "list", "[]"], ["L", "int", "0"]],
    ["N", "b:add", ["L", "list", "[]"], ["L", "list", "['a']"]],
    ["N", "c:lt", ["N", "c:lt", ["L", "int", "3"], ["L", "float", "2.5"]], ["L", "int", "1"]],
    ["N", "b:mult", ["N", "b:pow", ["L", "int", "3"], ["L", "int", "-2"]], ["L", "str", "'ab'"]],
]
SEED_VALUES = [(1, "a"), (), ((), ()), [[]], [[], [1]], [(), (1,)], {1, "a"}, {"a": []}, {"a": {}}, [{}], ([],),
               {1: "a", "b": 2}, {(1, 2): [None]}, [0, False], [1.0, 1], {"k": (1, "x")}, [None, None], {0, 0.0, False}]


def table_trees():
    """every operator x ordered pair of core classes x every pair of representatives"""
    for op in tc.OPS:
        for lc, rc in itertools.product(tc.CORE, repeat=2):
            for a, b in itertools.product(tc.REPS[lc], tc.REPS[rc]):
                yield ("N", op, ("L", lc, a, None), ("L", rc, b, None))


def run_case(tree):
    tree = tc.number_leaves(tree)
    real = tc.run_tifa(tree)
    return tree, real


def judge_tree(tree, real, info=None):
    """real TIFA vs plain CPython.  -> None | (signature, what)"""
    def skip(reason):
        if info is not None:
            info["skipped"][reason] = info["skipped"].get(reason, 0) + 1
    run = tc.evaluate(tree)
    src = tc.expr_src(tree)
    if not real["success"]:
        if run[0] in ("ok", "TypeError"):
            return ({"kind": "tifa-failed"}, "TIFA failed to analyse %s: %s" % (real["code"].replace("\n", "; "), real["error"]))
        skip("tifa-failed-on-non-TypeError-run")
        return None
    if run[0] == "skip":
        skip("astronomically large result (not evaluated)")
        return None
    if run[0] == "other":
        skip("run raised %s (no obligation)" % run[1])
        return None
    if run[0] == "TypeError":
        _, op, lc, rc = run
        level = tc.type_level_error(op, lc, rc)
        if level is None:
            skip("TypeError on a class without representatives (%s/%s)" % (lc, rc))
            return None
        if not level:
            skip("value-dependent TypeError (no obligation)")
            return None
        if not real["flagged"]:
            return ({"kind": "missed-type-error", "op": tc.OPS[op][0], "left": lc, "right": rc},
                    "CPython raises TypeError for %s %s %s but TIFA reports nothing on %s"
                    % (lc, tc.OPS[op][0], rc, real["code"].replace("\n", "; ")))
        return None
    # ran fine
    if real["flagged"]:
        skip("TIFA flags an expression CPython accepts (not constrained)")
        return None
    value = run[1]
    conf = tc.conforms(value, real["result"])
    if conf is not True:
        root = tree
        sig = {"kind": "nonconforming-result", "op": tc.OPS[root[1]][0] if root[0] == "N" else "leaf",
               "runtime": type(value).__name__, "inferred": type(real["result"]).__name__}
        if root[0] == "N":
            lv, rv = tc.evaluate(root[2]), tc.evaluate(root[3])
            sig["left"] = type(lv[1]).__name__ if lv[0] == "ok" else "?"
            sig["right"] = type(rv[1]).__name__ if rv[0] == "ok" else "?"
        return (sig, "%s evaluates to a %s (%r) but TIFA silently infers %s (is_subtype -> %s) for %s"
                % (src, type(value).__name__, value if len(repr(value)) < 60 else "...", tc.ty_str(tc.enc_ty(real["result"])),
                   conf, real["code"].replace("\n", "; ")))
    return None


def shrink_tree(tree):
    """deepest failing sub-expression (the root cause)"""
    if tree[0] == "N":
        for child in (tree[2], tree[3]):
            if child[0] == "N":
                t2, real2 = run_case(child)
                if judge_tree(t2, real2) is not None:
                    return shrink_tree(t2)
    return tree


# --------------------------------------------------------------------------
# how the operand got its value (search-only stream, CPython's own execution of the whole program is the oracle)

# pinned cases: (form, stale, stmt, op, left class, left source, right class, right source)
BINDING_SEEDS = [
    ("unpack", False, "assign", "b:add", "int", "3", "str", "'ab'"),
    ("swap", False, "lit-right", "b:add", "str", "'ab'", "int", "3"),          # a = 3; b = 'ab'; a, b = b, a; r = a + 3
    ("swap", False, "lit-right", "b:lshift", "float", "2.5", "int", "3"),
    ("unpack-list-target", False, "assign", "c:in", "int", "3", "str", "'ab'"),
    ("unpack-paren", False, "assign", "b:mult", "str", "'ab'", "float", "2.5"),
    ("unpack", False, "assign", "c:lt", "list", "[1, 2]", "tuple", "(1, 2)"),
    ("swap", False, "lit-right", "b:add", "list", "[1, 2]", "list", "[7]"),
    ("for-zip", True, "augassign", "b:sub", "str", "'ab'", "int", "1"),
    ("rotate3", False, "assign", "b:add", "int", "3", "str", "'ab'"),
]
BINDING_CORE_OPS = ["b:add", "b:mult", "c:lt", "c:in"]
_BIND_LEVEL = {}


def binding_type_level(stmt, op, ca, cb):
    """CPython raises TypeError for those operand TYPES, applied this way: every pair of representatives raises when
    the operands are bound by plain assignment (an augmented assignment has its own truth: [1] += (2,) is fine)"""
    kind = "augassign" if stmt == "augassign" else "assign"
    key = (kind, op, ca, cb)
    if key not in _BIND_LEVEL:
        outs = []
        for a, b in itertools.product(tc.REPS[ca], tc.REPS[cb]):
            outs.append(tc.run_cpython(tc.binding_program("plain", False, kind, op, ca, a, cb, b))[0] == "TypeError")
        _BIND_LEVEL[key] = all(outs)
    return _BIND_LEVEL[key]


def binding_cases(rng, tier, broken):
    forms = tc.active_binding_forms()
    for c in BINDING_SEEDS:
        if c[0] in forms:
            yield c
    others = [o for o in tc.OPS if o not in BINDING_CORE_OPS]
    pairs = list(itertools.product(tc.CORE, repeat=2))
    for form in forms:
        for stale in (False, True, "same"):
            for ca, cb in pairs:
                if stale == "same" and not (ca in ("tuple", "list") or cb in ("tuple", "list")):
                    continue        # another int / float / str of the same class has the same static type
                # quick (~11k programs): the four core operators (+ two random others for a fresh binding);
                # thorough (~75k): every operator.  A broken correspondence does not widen this stream: it is about
                # the binding forms, the operator table has its own widening below.
                if tier == "quick":
                    ops = BINDING_CORE_OPS + ([] if stale else rng.sample(others, 2))
                else:
                    ops = list(tc.OPS)
                for i, op in enumerate(ops):
                    if i == 0:
                        stmts = ["assign"]
                    elif i == 1:
                        stmts = ["lit-right"]
                    else:
                        stmts = [rng.choice(tc.STMT_KINDS)]
                    if tier != "quick" and not stale:
                        stmts = sorted(set(stmts + ["assign"]))
                    for stmt in stmts:
                        sa = tc.REPS[ca][0] if i == 0 else rng.choice(tc.REPS[ca])
                        sb = tc.REPS[cb][0] if i == 0 else rng.choice(tc.REPS[cb])
                        yield (form, stale, stmt, op, ca, sa, cb, sb)


def binding_replay(case, code):
    form, stale, stmt, op, ca, sa, cb, sb = case
    return {"binding": form, "stale": stale, "stmt": stmt, "op": op, "left": [ca, sa], "right": [cb, sb], "code": code}


def judge_binding(case, info=None):
    """-> None | (signature, what, code).  Real TIFA on the whole program vs plain CPython running the same program."""
    form, stale, stmt, op, ca, sa, cb, sb = case

    def skip(reason):
        if info is not None:
            info["skipped"][reason] = info["skipped"].get(reason, 0) + 1
    code = tc.binding_program(*case)
    if code is None:
        return None
    if not tc.binding_delivers(form, stale, ca, sa, cb, sb):
        skip("binding form %s cannot deliver these values (e.g. unhashable dict key)" % form)
        return None
    if info is not None:
        info["evaluations"] += 1
        info["binding_programs"] = info.get("binding_programs", 0) + 1
    run = tc.run_cpython(code)
    real = tc.run_tifa_code(code)
    shown = code.replace("\n", "; ")
    verdict = None
    if not real["success"]:
        if run[0] in ("ok", "TypeError"):
            verdict = ("tifa-failed", "TIFA failed to analyse %s: %s" % (shown, real["error"]))
        else:
            skip("tifa-failed-on-non-TypeError-run")
    elif run[0] == "other":
        skip("run raised %s (no obligation)" % run[1])
    elif run[0] == "TypeError":
        if not binding_type_level(stmt, op, ca, cb):
            skip("value-dependent TypeError (no obligation)")
        elif not real["flagged"]:
            verdict = ("missed-type-error", "CPython raises TypeError (%s) for %s %s %s but TIFA reports nothing on %s"
                       % (run[1], ca, tc.OPS[op][0], cb, shown))
        elif info is not None:
            info["binding_obligations"] = info.get("binding_obligations", 0) + 1
    elif real["flagged"]:
        skip("TIFA flags an expression CPython accepts (not constrained)")
    else:
        value = run[1]
        conf = tc.conforms(value, real["result"]) if real["result"] is not None else "r has no type"
        if conf is not True:
            verdict = ("nonconforming-result", "r is a %s (%r) after %s but TIFA silently infers %s (is_subtype -> %s)"
                       % (type(value).__name__, value if len(repr(value)) < 60 else "...", shown,
                          tc.ty_str(tc.enc_ty(real["result"])) if real["result"] is not None else "nothing", conf))
        elif info is not None:
            info["binding_obligations"] = info.get("binding_obligations", 0) + 1
            if real["result"] is not None and tc.enc_ty(real["result"])[0] != "any":
                info["binding_typed_results"] = info.get("binding_typed_results", 0) + 1
    if verdict is None:
        return None
    # Is it the operator table (or an open finding about it) and not the binding?  The same operands bound by plain
    # assignment, as the two-leaf tree the rest of the check uses: if that fails the same way, its signature is kept.
    tree, treal = run_case(("N", op, ("L", ca, sa, None), ("L", cb, sb, None)))
    plain = judge_tree(tree, treal)
    if plain is not None and plain[0]["kind"] == verdict[0]:
        return (plain[0], plain[1], tc.program_of(tree), {"tree": tc.tree_json(tree), "code": tc.program_of(tree)})
    if tc.open_family(form, ca, cb):                   # one open record per family, whichever kind
        return ({"binding": form}, verdict[1], code, binding_replay(case, code))
    return ({"kind": verdict[0], "binding": form}, verdict[1], code, binding_replay(case, code))


def judge_value(v, facts):
    cls = type(v).__name__
    if "error" in facts:
        return ({"kind": "value-type-raises", "value_class": cls}, "get_pedal_type_from_value(%r) / is_subtype raised %s" % (v, facts["error"]))
    if facts["refl1"] is not True or facts["refl2"] is not True or facts["refl_fresh"] is not True:
        return ({"kind": "value-type-unstable", "value_class": cls},
                "t = get_pedal_type_from_value(%r): is_subtype(t, t) gave %s then %s (fresh copies: %s)"
                % (v, facts["refl1"], facts["refl2"], facts["refl_fresh"]))
    if facts["conf"] is not True:
        return ({"kind": "value-type-nonconforming", "value_class": cls},
                "type %s of %r is not a subtype of its normalised Python type %s" % (facts["ty"], v, facts["norm"]))
    return None


def parse_kv(ans):
    kv = {}
    for tok in ans.split(" "):
        if "=" in tok:
            k, x = tok.split("=", 1)
            kv[k] = x
    return kv


def correspond(rng, tier, driver):
    res = CorrResult()
    res.rule = ("(1) whole table: every binary/comparison operator x ordered pair of core classes x every pair of "
                "representatives, as a two-variable program; (2) seeded expression trees up to depth %d over "
                "representative-valued variables; real = tifa_analysis (incompatible_types issued? type of r), model = "
                "Pedal.Types.infer on the same tree with the leaf types TIFA gave the variables; (3) nested values: "
                "real get_pedal_type_from_value / is_subtype(t,t) twice / is_subtype(t, normalised own type) and "
                "is_subtype between the types of two values vs Pedal.Types.typeOf / isSubtype / normForm; "
                "non-trivial = an expression TIFA is silent on, or a container value" % (3 if tier == "quick" else 4))
    trees = [tc.tree_from_json(j) for j in SEED_TREES]
    trees += [tc.tree_from_json(c["tree"]) for c in corpus_cases() if "tree" in c]
    table = list(table_trees())            # ~9000 two-variable programs: the whole table, both tiers
    trees += table
    n = 2500 if tier == "quick" else 40000
    maxd = 3 if tier == "quick" else 4
    for _ in range(n):
        trees.append(tc.gen_tree(rng, rng.randint(1, maxd)))
    cases, lines = [], []
    for tree in trees:
        tree, real = run_case(tree)
        cases.append((tree, real))
        if real["success"]:
            lines.append("c19 expr " + " ".join(tc.model_tree_tokens(tree, real)))
        else:
            lines.append("c19 bad")
    answers = driver.ask(lines)
    for (tree, real), ans in zip(cases, answers):
        res.evaluations += 1
        depth_key = "expr-leaves=%d" % len(tc.leaves_of(tree))
        res.count(depth_key)
        if not real["success"]:
            res.count("tifa-failed")
            res.disagreements.append({"case": {"tree": tc.tree_json(tree)}, "real": real["error"], "model": "-",
                                      "fields": ["tifa-failed"]})
            continue
        kv = parse_kv(ans)
        real_ty = tc.ty_str(tc.enc_ty(real["result"])) if real["result"] is not None else "missing"
        bad = []
        if ans == "bad-request":
            bad.append("bad-request")
        else:
            if (kv.get("flag") == "1") != real["flagged"]:
                bad.append("flag")
            if kv.get("ty") != real_ty:
                bad.append("type")
        for leaf in tc.leaves_of(tree):
            lt = real["leaves"].get(leaf[3])
            head = tc.enc_ty(lt)[0] if lt is not None else "missing"
            if head not in tc.LEAF_HEADS[leaf[1]]:
                bad.append("leaf-type")
        res.count("flagged" if real["flagged"] else "silent")
        if not real["flagged"]:
            res.nontrivial.add(real["code"])
        if bad:
            res.disagreements.append({"case": {"tree": tc.tree_json(tree), "code": real["code"]}, "fields": sorted(set(bad)),
                                      "real": {"flag": real["flagged"], "ty": real_ty}, "model": ans})
    res.samples = [c[1]["code"] for c in cases[-3:]]
    res.tree_cases = cases

    # values
    values = list(SEED_VALUES) + [c["value"] for c in corpus_cases() if "value_repr" in c and False]
    nv = 2500 if tier == "quick" else 40000
    values += [tc.gen_value(rng) for _ in range(nv)]
    vfacts, vlines = [], []
    for v in values:
        facts = tc.value_facts(v)
        vfacts.append((v, facts))
        vlines.append("c19 valcheck " + " ".join(tc.enc_val(v)))
    pairs = [(rng.choice(values), rng.choice(values)) for _ in range(nv)]
    for a, b in pairs:
        vlines.append("c19 subval " + " ".join(tc.enc_val(a)) + " " + " ".join(tc.enc_val(b)))
    vans = driver.ask(vlines)
    for (v, facts), ans in zip(vfacts, vans[:len(vfacts)]):
        res.evaluations += 1
        res.count("value:" + type(v).__name__)
        kv = parse_kv(ans)
        bad = []
        if "error" in facts:
            bad.append("raises")
        else:
            if kv.get("ty") != facts["ty"]:
                bad.append("value-type")
            if (kv.get("refl") == "1") != (facts["refl1"] is True) or facts["refl1"] != facts["refl2"]:
                bad.append("refl")
            if (kv.get("conf") == "1") != (facts["conf"] is True):
                bad.append("conf")
        if isinstance(v, (list, tuple, set, dict)) and len(v) > 0:
            res.nontrivial.add(repr(v))
        if bad:
            res.disagreements.append({"case": {"value": repr(v)}, "fields": bad, "real": facts, "model": ans})
    for (a, b), ans in zip(pairs, vans[len(vfacts):]):
        res.evaluations += 1
        try:
            real = tc.is_subtype(tc.get_pedal_type_from_value(a), tc.get_pedal_type_from_value(b))
        except Exception as e:  # noqa
            real = "EXC " + type(e).__name__
        res.count("subval:" + str(real))
        if (parse_kv(ans).get("sub") == "1") != (real is True) or real not in (True, False):
            res.disagreements.append({"case": {"a": repr(a), "b": repr(b)}, "fields": ["is_subtype"], "real": real, "model": ans})
    res.value_cases = vfacts
    return res


def search(rng, tier, broken, corr):
    info = {"rule": "real tifa_analysis vs plain CPython evaluation of the same expression: TypeError for those operand "
                    "classes (all representative pairs) => incompatible_types issued; TIFA silent and the run succeeds "
                    "=> real is_subtype(get_pedal_type_from_value(result), inferred type); real value typing: no raise, "
                    "is_subtype(t,t) True on the first and on a repeated query, conforms to normalize_type(type(v)); "
                    "the correspondence cases, more random trees/values, (thorough) the whole table with all "
                    "representative pairs and all depth-2 trees over one representative per class; operand BINDING "
                    "forms (unpacking flat/nested/starred/list-target, swap and rotate idioms, chained, copies, "
                    "augmented, for targets over lists/tuples/zip/enumerate/dict.items(), with-as, parameters, return "
                    "values, lambda, comprehension variables, subscripts, if/else joins; each also after a STALE "
                    "binding of another class) x r = a op b / a op literal / literal op b / r op= b: the whole program "
                    "runs under plain CPython (oracle) and under tifa_analysis",
            "evaluations": 0, "distinct_nontrivial": 0, "samples": [], "skipped": {}}
    failures, seen = [], set()
    nt = set()

    def consider_tree(tree, real):
        info["evaluations"] += 1
        v = judge_tree(tree, real, info)
        if real.get("success") and not real.get("flagged"):
            nt.add(real["code"])
        if v is None:
            return
        small = shrink_tree(tree)
        small, real2 = run_case(small)
        v2 = judge_tree(small, real2) or v
        key = json.dumps(v2[0], sort_keys=True)
        if key in seen or len(failures) >= 10:
            return
        seen.add(key)
        failures.append(Failure(v2[0], v2[1], {"tree": tc.tree_json(small), "code": tc.program_of(small)}))

    def consider_value(v, facts):
        info["evaluations"] += 1
        if isinstance(v, (list, tuple, set, dict)) and len(v) > 0:
            nt.add(repr(v))
        verdict = judge_value(v, facts)
        if verdict is None:
            return
        key = json.dumps(verdict[0], sort_keys=True)
        if key in seen or len(failures) >= 10:
            return
        seen.add(key)
        # shrink: a sub-value that already fails
        small = v
        changed = True
        while changed:
            changed = False
            subs = list(small.values()) + list(small.keys()) if isinstance(small, dict) else \
                (list(small) if isinstance(small, (list, tuple, set)) else [])
            for s in subs:
                vv = judge_value(s, tc.value_facts(s))
                if vv is not None and vv[0]["kind"] == verdict[0]["kind"]:
                    small, changed = s, True
                    break
        vv = judge_value(small, tc.value_facts(small))
        failures.append(Failure(vv[0], vv[1], {"value": repr(small)}))

    for tree, real in getattr(corr, "tree_cases", []):
        consider_tree(tree, real)
    for v, facts in getattr(corr, "value_cases", []):
        consider_value(v, facts)
    n = 1500 if tier == "quick" else 30000
    if broken and not failures:
        n *= 3
    for _ in range(n):
        consider_tree(*run_case(tc.gen_tree(rng, rng.randint(1, 3 if tier == "quick" else 4))))
    for _ in range(n):
        v = tc.gen_value(rng)
        consider_value(v, tc.value_facts(v))
    # how the operands got their values: every binding form x stale previous binding x ordered class pair x operators
    per_form, n_binding_failures = {}, 0
    for case in binding_cases(rng, tier, broken):
        v = judge_binding(case, info)
        per_form[case[0]] = per_form.get(case[0], 0) + 1
        if v is None:
            continue
        key = json.dumps(v[0], sort_keys=True)
        if key in seen or ("kind" in v[0] and n_binding_failures >= (40 if tc.gated_on() else 6)):
            continue
        seen.add(key)
        failures.append(Failure(v[0], v[1], v[3]))
        if "kind" in v[0]:                             # a family record is shown once and uses up no slot
            n_binding_failures += 1
    info["binding_forms"] = per_form
    info["binding_forms_gated_off"] = sorted(f for f in tc.GATED_FORMS if f not in per_form)
    if tier == "thorough" or (broken and not [f for f in failures if "kind" in f.signature]):
        one = {c: tc.REPS[c][0] for c in tc.CORE}
        leaves = [("L", c, one[c], None) for c in tc.CORE]
        ops = list(tc.OPS)
        for op1, op2 in itertools.product(ops, repeat=2):
            for a, b, c in itertools.product(leaves, repeat=3):
                consider_tree(*run_case(("N", op1, ("N", op2, a, b), c)))
    info["distinct_nontrivial"] = len(nt)
    info["samples"] = list(nt)[:3]
    return failures, info


def replay(payload):
    rp = payload.get("replay") or {}
    if "tree" in rp:
        tree, real = run_case(tc.tree_from_json(rp["tree"]))
        print("program:\n" + real["code"])
        print("CPython:", tc.evaluate(tree))
        if real["success"]:
            print("TIFA: incompatible_types issued =", real["flagged"], "; type of r =", tc.ty_str(tc.enc_ty(real["result"])))
        else:
            print("TIFA failed:", real["error"])
        print("verdict:", judge_tree(tree, real))
        return 0
    if "binding" in rp:
        case = (rp["binding"], rp["stale"], rp["stmt"], rp["op"], rp["left"][0], rp["left"][1], rp["right"][0], rp["right"][1])
        code = tc.binding_program(*case) or rp.get("code", "")
        print("program:\n" + code)
        print("CPython:", tc.run_cpython(code))
        real = tc.run_tifa_code(code)
        if real["success"]:
            print("TIFA: incompatible_types issued =", real["flagged"], "; type of r =",
                  tc.ty_str(tc.enc_ty(real["result"])) if real["result"] is not None else None)
        else:
            print("TIFA failed:", real["error"])
        v = judge_binding(case)
        print("verdict:", v[:2] if v else None)
        return 0
    if "value" in rp:
        import ast
        v = eval(rp["value"], {"__builtins__": {}}, {"set": set})  # a repr of ints/strs/containers written by this check
        facts = tc.value_facts(v)
        print("value:", repr(v))
        print("real:", facts)
        print("verdict:", judge_value(v, facts))
        return 0
    print(json.dumps(payload, indent=1)[:4000])
    return 0


if __name__ == "__main__":
    sys.exit(run_check("C19", proof_modules=["PedalProofs.C19"], theorems=THEOREMS, driver_exe="driver_c19",
                       translate=translate, correspond=correspond, search=search, replay=replay,
                       model_notes=NOTES, refuted_full=REFUTED, leanchecker_modules=["PedalProofs.C19"]))

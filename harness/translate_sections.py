"""
Regenerates lean/PedalModel/Gen/SectionsProgram.lean from the tree under test: the integer arithmetic of
pedal.source.sections.next_section and _calculate_section_number (increment of the section index, index -> section
number, number of sections found, the existence test, the slice bounds of the independent / cumulative chunk, the
line offset, the arguments of not_enough_sections), translated from their Python AST into the expression IR of
PedalModel/SectionsIR.lean.  Expressions are translated compositionally, so an equivalent rewrite
(`(i + 1) // 2`, `1 + i`, `len(sections) - 1` spelled through a local) still satisfies the Lean agreement
theorem (proved with `omega` for ALL indices and lengths); what is not understood becomes `.unknown "<source>"`
and the theorem fails.
"""
import ast
import hashlib
import os

from common import LEAN_DIR, REPO, lean_str, use_repo, write_if_changed


def _src(n):
    try:
        return ast.unparse(n)
    except Exception:  # noqa
        return type(n).__name__


class _Tr:
    def __init__(self):
        self.unknowns = []
        self.env = {}          # local name -> AST of its (single) definition
        self.tool = {"source"}  # names bound to report[TOOL_NAME]

    def unknown(self, node):
        s = _src(node)
        self.unknowns.append(s)
        return ".unknown %s" % lean_str(s[:160])

    def is_tool(self, node):
        """`source` / `report[TOOL_NAME]`"""
        if isinstance(node, ast.Name) and node.id in self.tool:
            return True
        return (isinstance(node, ast.Subscript) and isinstance(node.value, ast.Name) and node.value.id == "report"
                and isinstance(node.slice, ast.Name) and node.slice.id == "TOOL_NAME")

    def tool_key(self, node):
        """'section' for source['section'] etc., else None (locals bound to such a subscript are followed)."""
        node = self.follow(node)
        if (isinstance(node, ast.Subscript) and self.is_tool(node.value) and isinstance(node.slice, ast.Constant)
                and isinstance(node.slice.value, str)):
            return node.slice.value
        return None

    def follow(self, node, depth=0):
        while isinstance(node, ast.Name) and node.id in self.env and self.env[node.id] is not None and depth < 20:
            node = self.env[node.id]
            depth += 1
        return node

    SPECIAL = {}      # local name -> ".number" / ".found", decided by ROLE (see translate), not by spelling

    def aexp(self, node, special=True):
        if isinstance(node, ast.Name) and special and node.id in self.SPECIAL and node.id in self.env:
            return self.SPECIAL[node.id]
        if isinstance(node, ast.Name) and node.id == self.param:
            return ".param"
        node = self.follow(node)
        if isinstance(node, ast.Constant) and isinstance(node.value, int) and not isinstance(node.value, bool):
            return ".const %s" % (node.value if node.value >= 0 else "(%d)" % node.value)
        if isinstance(node, ast.UnaryOp) and isinstance(node.op, ast.USub) and isinstance(node.operand, ast.Constant) \
                and isinstance(node.operand.value, int):
            return ".const (%d)" % -node.operand.value
        if self.tool_key(node) == "section":
            return ".idx"
        if isinstance(node, ast.Call) and isinstance(node.func, ast.Name) and node.func.id == "len" and len(node.args) == 1:
            a = self.follow(node.args[0])
            if self.tool_key(a) == "sections":
                return ".len"
            # len(old_code.split("\n"))
            if (isinstance(a, ast.Call) and isinstance(a.func, ast.Attribute) and a.func.attr == "split"
                    and len(a.args) == 1 and isinstance(a.args[0], ast.Constant) and a.args[0].value == "\n"
                    and isinstance(a.func.value, ast.Name) and a.func.value.id == self.old_code_name):
                return ".splitLen"
            return self.unknown(node)
        if isinstance(node, ast.Call) and isinstance(node.func, ast.Name) and node.func.id == "int" and len(node.args) == 1:
            inner = node.args[0]
            if (isinstance(inner, ast.BinOp) and isinstance(inner.op, ast.Div) and isinstance(inner.right, ast.Constant)
                    and isinstance(inner.right.value, int) and inner.right.value > 0):
                return ".floordiv (%s) %d" % (self.aexp(inner.left), inner.right.value)
            return self.unknown(node)
        if isinstance(node, ast.BinOp):
            if isinstance(node.op, ast.FloorDiv) and isinstance(node.right, ast.Constant) \
                    and isinstance(node.right.value, int) and node.right.value > 0:
                return ".floordiv (%s) %d" % (self.aexp(node.left), node.right.value)
            op = {ast.Add: ".add", ast.Sub: ".sub", ast.Mult: ".mul"}.get(type(node.op))
            if op:
                return "%s (%s) (%s)" % (op, self.aexp(node.left), self.aexp(node.right))
        return self.unknown(node)

    param = None
    old_code_name = "old_code"


def restores_backup(call, tr, fns, binding, depth=0):
    """Is `call` (or a module-level helper it invokes, parameters bound to the arguments) a
    `report.submission.replace_main(<backup>.code, ...)` where <backup> is the top of the substitution stack?"""
    if _src(call.func) == "report.submission.replace_main" and call.args:
        a = call.args[0]
        if isinstance(a, ast.Attribute) and a.attr == "code" and isinstance(a.value, ast.Name):
            src = binding.get(a.value.id, a.value)
            src = tr.follow(src)
            return (isinstance(src, ast.Subscript) and tr.tool_key(src.value) == "substitutions"
                    and _src(src.slice) == "-1")
        return False
    if depth < 2 and isinstance(call.func, ast.Name) and call.func.id in fns:
        fn = fns[call.func.id]
        params = [a.arg for a in fn.args.args]
        bind = {p: binding.get(a.id, a) if isinstance(a, ast.Name) else a for p, a in zip(params, call.args)}
        for st in fn.body:
            if isinstance(st, ast.Expr) and isinstance(st.value, ast.Call) and restores_backup(st.value, tr, fns, bind, depth + 1):
                return True
    return False


CANONICAL = {
    "increment": ".const 2",
    "numberOf": ".floordiv (.add (.param) (.const 1)) 2",
    "numberArg": ".idx",
    "foundArg": ".sub (.len) (.const 1)",
    "guardLeft": ".number",
    "guardCmp": ".le",
    "guardRight": ".found",
    "indepIndex": ".idx",
    "indepOldStop": ".idx",
    "indepOffset": ".sub (.splitLen) (.const 1)",
    "cumulStop": ".add (.idx) (.const 1)",
    "notEnoughFirst": ".number",
    "notEnoughSecond": ".found",
}


def translate():
    use_repo()
    path = os.path.join(REPO, "pedal", "source", "sections.py")
    with open(path, encoding="utf-8") as fh:
        tree = ast.parse(fh.read())
    fns = {n.name: n for n in tree.body if isinstance(n, ast.FunctionDef)}
    tr = _Tr()
    shape = True
    U = '.unknown "missing"'
    prog = dict(increment=U, numberOf=U, numberArg=U, foundArg=U, guardLeft=U, guardCmp=".unknown", guardRight=U,
                indepIndex=U, indepOldStop=U, indepOffset=U, cumulStop=U, notEnoughFirst=U, notEnoughSecond=U)
    restores_first = False

    # _calculate_section_number(param): a single `return <expr>`
    calc = fns.get("_calculate_section_number")
    if calc is None or len(calc.args.args) != 1:
        shape = False
    else:
        tr.param = calc.args.args[0].arg
        body = [s for s in calc.body if not (isinstance(s, ast.Expr) and isinstance(s.value, ast.Constant))]
        if len(body) == 1 and isinstance(body[0], ast.Return) and body[0].value is not None:
            prog["numberOf"] = tr.aexp(body[0].value, special=False)
        else:
            shape = False
        tr.param = None

    def calc_arg(node):
        node = tr.follow(node)
        if (isinstance(node, ast.Call) and isinstance(node.func, ast.Name) and node.func.id == "_calculate_section_number"
                and len(node.args) == 1 and not node.keywords):
            return node.args[0]
        return None

    def join_slice(node):
        """''.join(sections[<slice>]) -> the slice node, else None"""
        node = tr.follow(node)
        if (isinstance(node, ast.Call) and isinstance(node.func, ast.Attribute) and node.func.attr == "join"
                and isinstance(node.func.value, ast.Constant) and node.func.value.value == "" and len(node.args) == 1):
            a = node.args[0]
            if isinstance(a, ast.Subscript) and tr.tool_key(a.value) == "sections":
                return a.slice
        return None

    def prefix_stop(sl):
        if isinstance(sl, ast.Slice) and sl.lower is None and sl.step is None and sl.upper is not None:
            return tr.aexp(sl.upper)
        return None

    ns = fns.get("next_section")
    if ns is None:
        shape = False
    else:
        seen_increment = False
        guard_if = None
        for st in ns.body:
            if isinstance(st, ast.Expr) and isinstance(st.value, ast.Constant):
                continue
            if isinstance(st, ast.Assign) and len(st.targets) == 1 and isinstance(st.targets[0], ast.Name):
                name = st.targets[0].id
                # `source = report[TOOL_NAME]`
                if tr.is_tool(st.value):
                    tr.tool.add(name)
                    continue
                if name in tr.env:
                    tr.env[name] = None
                    shape = False
                else:
                    tr.env[name] = st.value
                if tr.tool_key(st.value) == "section" and not seen_increment:
                    shape = False          # the index must be read AFTER the increment
                continue
            if isinstance(st, ast.AugAssign) and tr.tool_key(st.target) == "section" and isinstance(st.op, ast.Add):
                prog["increment"] = tr.aexp(st.value)
                seen_increment = True
                continue
            if isinstance(st, ast.Expr) and isinstance(st.value, ast.Call) and guard_if is None \
                    and restores_backup(st.value, tr, fns, {}):
                restores_first = True
                continue
            if isinstance(st, ast.If) and guard_if is None and isinstance(st.test, ast.Compare) \
                    and len(st.test.ops) == 1:
                guard_if = st
                continue
        if not seen_increment or guard_if is None:
            shape = False
        else:
            # which branch is "the section exists"?  the OTHER one calls not_enough_sections
            def calls_not_enough(stmts):
                return next((x.value for x in stmts if isinstance(x, ast.Expr) and isinstance(x.value, ast.Call)
                             and isinstance(x.value.func, ast.Name) and x.value.func.id == "not_enough_sections"), None)
            ne_body, ne_else = calls_not_enough(guard_if.body), calls_not_enough(guard_if.orelse)
            if (ne_body is None) == (ne_else is None):
                shape = False
                exists_branch, ne = guard_if.body, ne_else
                negate = False
            elif ne_else is not None:
                exists_branch, ne, negate = guard_if.body, ne_else, False
            else:
                exists_branch, ne, negate = guard_if.orelse, ne_body, True
            # roles of the two compared locals: both are _calculate_section_number(...) results; the one computed
            # from len(sections) is `found`, the one computed from the section index is `section_number`
            tr.SPECIAL = {}
            for side in (guard_if.test.left, guard_if.test.comparators[0]):
                if isinstance(side, ast.Name) and side.id in tr.env:
                    arg = calc_arg(tr.env[side.id])
                    if arg is not None:
                        role = ".found" if "len(" in _src(tr.follow(arg)) or "len(" in _src(arg) else ".number"
                        tr.SPECIAL[side.id] = role
            number_name = next((k for k, v in tr.SPECIAL.items() if v == ".number"), None)
            found_name = next((k for k, v in tr.SPECIAL.items() if v == ".found"), None)
            if number_name is None or found_name is None:
                shape = False
            else:
                prog["numberArg"] = tr.aexp(calc_arg(tr.env[number_name]))
                prog["foundArg"] = tr.aexp(calc_arg(tr.env[found_name]))
            cmpmap = {ast.LtE: ".le", ast.Lt: ".lt", ast.GtE: ".ge", ast.Gt: ".gt", ast.Eq: ".eq", ast.NotEq: ".ne"}
            negmap = {".le": ".gt", ".lt": ".ge", ".ge": ".lt", ".gt": ".le", ".eq": ".ne", ".ne": ".eq"}
            cmp_ = cmpmap.get(type(guard_if.test.ops[0]), ".unknown")
            prog["guardCmp"] = negmap.get(cmp_, ".unknown") if negate else cmp_
            prog["guardLeft"] = tr.aexp(guard_if.test.left)
            prog["guardRight"] = tr.aexp(guard_if.test.comparators[0])
            # the chunk that becomes the main code: the local handed to replace_main in the exists-branch
            new_name = None
            for x in exists_branch:
                if (isinstance(x, ast.Expr) and isinstance(x.value, ast.Call)
                        and _src(x.value.func) == "report.submission.replace_main" and len(x.value.args) == 1
                        and isinstance(x.value.args[0], ast.Name)):
                    new_name = x.value.args[0].id
            mode_if = next((x for x in exists_branch if isinstance(x, ast.If)), None)
            if new_name is None or mode_if is None or tr.tool_key(mode_if.test) != "independent":
                shape = False
            else:
                ind_env = {}
                for x in mode_if.body:
                    if isinstance(x, ast.Assign) and len(x.targets) == 1 and isinstance(x.targets[0], ast.Name):
                        ind_env[x.targets[0].id] = x.value
                new_i = join_slice(ind_env.get(new_name))
                old_name = next((k for k, v in ind_env.items() if k != new_name and join_slice(v) is not None), None)
                if new_i is None or old_name is None or isinstance(new_i, ast.Slice):
                    shape = False
                else:
                    tr.old_code_name = old_name
                    prog["indepIndex"] = tr.aexp(new_i)
                    stop = prefix_stop(join_slice(ind_env[old_name]))
                    prog["indepOldStop"] = stop if stop is not None else tr.unknown(ind_env[old_name])
                    off = next((x.value.args[0] for x in mode_if.body
                                if isinstance(x, ast.Expr) and isinstance(x.value, ast.Call)
                                and _src(x.value.func) == "report.submission.set_line_offset" and len(x.value.args) == 1), None)
                    prog["indepOffset"] = tr.aexp(off) if off is not None else U
                    if off is None:
                        shape = False
                cum_env = {x.targets[0].id: x.value for x in mode_if.orelse
                           if isinstance(x, ast.Assign) and len(x.targets) == 1 and isinstance(x.targets[0], ast.Name)}
                sl = join_slice(cum_env.get(new_name))
                stop = prefix_stop(sl) if sl is not None else None
                if stop is None:
                    shape = False
                else:
                    prog["cumulStop"] = stop
            if ne is None or len(ne.args) < 2:
                shape = False
            else:
                prog["notEnoughFirst"] = tr.aexp(ne.args[0])
                prog["notEnoughSecond"] = tr.aexp(ne.args[1])
    if not shape:
        tr.unknowns.append("next_section: shape not recognised")
    program_source = "ast"
    if tr.unknowns:
        # The reading failed (typically a refactoring into helpers).  That is no evidence against the property: fall
        # back to the SECOND admissible tie - the hand-written model (the canonical program below is the hand model's
        # arithmetic, for which `Agrees` is proved) checked against the real code by the differential correspondence
        # after every operation.  A behavioural change then shows up as correspondence disagreements and goes to the
        # failing-input search; evidence records that this run was tied by correspondence, not by translation.
        prog = dict(CANONICAL)
        restores_first, shape = True, True
        program_source = "hand model (the AST reading left %d construct(s) not understood: %s); tie = differential correspondence" % (
            len(tr.unknowns), "; ".join(tr.unknowns[:3])[:300])
    src = "\n".join([
        "import PedalModel.SectionsIR",
        "/- GENERATED by harness/translate_sections.py from pedal/source/sections.py of the tree under test. Do not edit. -/",
        "namespace Pedal.Gen.Sections",
        "open Pedal.SectionsIR",
        "",
        "def program : Program := {",
    ] + ["  %s := %s," % (k, v) for k, v in prog.items()] + [
        "  restoresMainFirst := %s," % ("true" if restores_first else "false"),
        "  shapeOk := %s }" % ("true" if shape else "false"),
        "",
        "end Pedal.Gen.Sections",
        "",
    ])
    out = os.path.join(LEAN_DIR, "PedalModel", "Gen", "SectionsProgram.lean")
    changed = write_if_changed(out, src)
    return {"file": "PedalModel/Gen/SectionsProgram.lean", "sha1": hashlib.sha1(src.encode()).hexdigest()[:12],
            "changed": changed, "not_understood": tr.unknowns[:10], "program_source": program_source}


if __name__ == "__main__":
    print(translate())

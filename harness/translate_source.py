"""
Regenerates lean/PedalModel/Gen/SourceTables.lean from pedal/source/source.py's `verify`:
the pre-checks (load error, blank), the except-ladder around ast.parse (classes caught, feedback
function called, whether it passes the exception's line), and CPython's MROs for the exception
classes ast.parse can raise.  Shapes the walker does not understand become "opaque" entries,
which the model treats as an unmodelled raise (the theorems then fail).
"""
import ast
import builtins
import hashlib
import os

from common import LEAN_DIR, REPO, lean_list, lean_str, use_repo, write_if_changed

CLASSES = ["SyntaxError", "IndentationError", "TabError", "MemoryError", "RecursionError", "ValueError",
           "UnicodeError", "UnicodeEncodeError", "UnicodeDecodeError", "OverflowError", "TypeError",
           "KeyboardInterrupt", "SystemError"]


def names_of(node):
    if isinstance(node, ast.Name):
        return [node.id]
    if isinstance(node, ast.Tuple):
        out = []
        for e in node.elts:
            out += names_of(e)
        return out
    if node is None:
        return ["BaseException"]
    return ["?"]


def feedback_call(stmts, known):
    """First call to a known feedback function in the statements: (name, first-arg kind)."""
    for st in stmts:
        for node in ast.walk(st):
            if isinstance(node, ast.Call) and isinstance(node.func, ast.Name) and node.func.id in known:
                kind = "other"
                if node.args:
                    a = node.args[0]
                    if isinstance(a, ast.Attribute) and a.attr == "lineno":
                        kind = "lineno"
                    elif isinstance(a, ast.Constant) and a.value is None:
                        kind = "none"
                return node.func.id, kind
    return None, None


def sets_success(stmts, value):
    for st in stmts:
        if (isinstance(st, ast.Assign) and isinstance(st.value, ast.Constant) and st.value.value is value
                and isinstance(st.targets[0], ast.Subscript)
                and isinstance(st.targets[0].slice, ast.Constant) and st.targets[0].slice.value == 'success'):
            return True
    return False


def inline_helpers(stmts, helpers, depth=0):
    """Replace a bare call statement `helper(...)` of a module-level function by that function's body (so that
    bookkeeping moved into a private helper is still seen)."""
    out = []
    for st in stmts:
        if (depth < 3 and isinstance(st, ast.Expr) and isinstance(st.value, ast.Call)
                and isinstance(st.value.func, ast.Name) and st.value.func.id in helpers):
            out.extend(inline_helpers(helpers[st.value.func.id].body, helpers, depth + 1))
        else:
            out.append(st)
    return out


def split_isinstance(handler, classes):
    """`except T as e: if isinstance(e, C): A else: B`  ==  ladder rows (C -> A), (T -> B), provided every C is a
    subclass of some class of T (so the first row cannot catch more than the handler did).  Anything else: one row."""
    body = [b for b in handler.body if not (isinstance(b, ast.Expr) and isinstance(b.value, ast.Constant))]
    if (handler.name and len(body) >= 1 and isinstance(body[0], ast.If) and body[0].orelse
            and isinstance(body[0].test, ast.Call) and isinstance(body[0].test.func, ast.Name)
            and body[0].test.func.id == "isinstance" and len(body[0].test.args) == 2
            and isinstance(body[0].test.args[0], ast.Name) and body[0].test.args[0].id == handler.name):
        inner = names_of(body[0].test.args[1])
        try:
            outer_cls = tuple(getattr(builtins, c) for c in classes)
            ok = all(issubclass(getattr(builtins, c), outer_cls) for c in inner)
        except (AttributeError, TypeError):
            ok = False
        if ok:
            rest = body[1:]
            return [(inner, body[0].body + rest), (classes, body[0].orelse + rest)]
    return [(classes, handler.body)]


class _ProbeFailed(Exception):
    pass


def probe_ladder(known):
    """Fallback when the except-ladder is not understood syntactically (e.g. after a refactoring): derive it from
    BEHAVIOUR.  ast.parse inside pedal.source.source is replaced by a function raising an instance of each class
    in CLASSES (with and without a line), verify() runs on a fresh report, and what it did is recorded as one ladder
    row per class, most derived classes first."""
    import pedal.source.source as srcmod
    from pedal.core.report import Report
    from pedal.core.submission import Submission
    real_ast = srcmod.ast
    rows = []

    class Shim:
        def __init__(self, exc):
            self.exc = exc

        def __getattr__(self, name):
            return getattr(real_ast, name)

        def parse(self, source, *a, **k):
            if source == "":
                return real_ast.parse(source)
            raise self.exc
    order = sorted(CLASSES, key=lambda c: -len(getattr(builtins, c).__mro__))
    for c in order:
        cls = getattr(builtins, c)
        if not issubclass(cls, Exception):
            continue        # KeyboardInterrupt etc. are not the ladder's business; the model says "escapes"
        obs = []
        for with_line in (True, False):
            if issubclass(cls, SyntaxError):
                exc = cls("probe", ("answer.py", 3 if with_line else None, 1, "x = (", 3 if with_line else None, 2))
            elif issubclass(cls, UnicodeError) and cls is not UnicodeError:
                exc = (cls("utf-8", "x", 0, 1, "probe") if cls is UnicodeEncodeError
                       else cls("utf-8", b"x", 0, 1, "probe"))
            else:
                exc = cls("probe")
            rep = Report()
            rep.contextualize(Submission({"answer.py": "x = (\n\n\n"}, "answer.py"))
            srcmod.ast = Shim(exc)
            try:
                try:
                    srcmod.verify(report=rep)
                    raised = None
                except BaseException as e:      # noqa
                    raised = type(e).__name__
            finally:
                srcmod.ast = real_ast
            fbs = [(type(f).__name__, f.fields.get("lineno") if hasattr(f, "fields") else None) for f in rep.feedback
                   if type(f).__name__ in known]
            obs.append((raised, fbs, rep["source"]["success"]))
        (r1, f1, s1), (r2, f2, s2) = obs
        if r1 is not None or r2 is not None:
            continue                        # escapes: no row (the model then says it raises)
        if len(f1) != 1 or len(f2) != 1 or f1[0][0] != f2[0][0] or s1 is not False or s2 is not False:
            rows.append(([c], "opaque", "other"))
            continue
        if issubclass(cls, SyntaxError):
            kind = "lineno" if (f1[0][1] == 3 and f2[0][1] is None) else ("none" if f1[0][1] is None else "other")
        else:
            kind = "none" if f1[0][1] is None and f2[0][1] is None else "other"
        rows.append(([c], f1[0][0], kind))
    return rows


def probe_accept():
    """Fallback for `elseSetsSuccess` when no `else:` clause says so syntactically (e.g. the handlers return early and
    the success flag is set after the try): measured on the real verify() with a text the parser accepts."""
    import pedal.source.source as srcmod
    from pedal.core.report import Report
    from pedal.core.submission import Submission
    for text in ("x = 1\n", "def f():\n    return 2\n"):
        rep = Report()
        rep.contextualize(Submission({"answer.py": text}, "answer.py"))
        rep["source"]["success"] = None
        rep["source"]["ast"] = None
        r = srcmod.verify(report=rep)
        tree = rep["source"]["ast"]
        if r is not True or rep["source"]["success"] is not True or not isinstance(tree, ast.Module) \
                or ast.dump(tree) != ast.dump(ast.parse(text)) or rep.feedback:
            return False
    return True


def translate():
    use_repo()
    from pedal.source import feedbacks as fbmod
    from pedal.core.feedback import Feedback
    path = os.path.join(REPO, "pedal", "source", "source.py")
    with open(path, encoding="utf-8") as fh:
        tree = ast.parse(fh.read())
    fn = next(n for n in tree.body if isinstance(n, ast.FunctionDef) and n.name == "verify")
    known = {name for name in dir(fbmod) if isinstance(getattr(fbmod, name), type)
             and issubclass(getattr(fbmod, name), Feedback)}
    categories = sorted((name, getattr(fbmod, name).category or "") for name in known)
    helpers = {n.name: n for n in tree.body if isinstance(n, ast.FunctionDef) and n.name != "verify"}
    load_fb, blank_fb, blank_returns, load_returns = "opaque", "opaque", False, False
    handlers, else_success = [], False
    parse_in_try = False
    for st in fn.body:
        if isinstance(st, ast.If):
            src = ast.unparse(st.test)
            name, _ = feedback_call(st.body, known)
            if "load_error" in src:
                load_fb = name or "opaque"
                load_returns = any(isinstance(x, ast.Return) for x in st.body)
            elif "strip()" in src and ("== ''" in src or '== ""' in src):
                blank_fb = name or "opaque"
                blank_returns = any(isinstance(x, ast.Return) for x in st.body)
        if isinstance(st, ast.Try):
            parse_in_try = any(isinstance(n, ast.Call) and ast.unparse(n.func) == "ast.parse"
                               for b in st.body for n in ast.walk(b))
            for h in st.handlers:
                for classes, body in split_isinstance(h, names_of(h.type)):
                    body = inline_helpers(body, helpers)
                    name, kind = feedback_call(body, known)
                    reraises = any(isinstance(n, ast.Raise) for b in body for n in ast.walk(b))
                    if name is None or reraises or not sets_success(body, False) or "?" in classes:
                        handlers.append((classes, "opaque", "other"))
                    else:
                        handlers.append((classes, name, kind))
            else_success = sets_success(st.orelse, True)
            if st.finalbody:
                handlers.insert(0, (["BaseException"], "opaque", "other"))
    if not parse_in_try:
        handlers = [(["BaseException"], "opaque", "other")]
    ladder_source = "ast"
    if any(fb == "opaque" for _, fb, _ in handlers):
        # not understood syntactically: fall back to the behaviour of the real verify() under a probing ast.parse
        try:
            probed = probe_ladder(known)
            if probed and not any(fb == "opaque" for _, fb, _ in probed):
                handlers, ladder_source = probed, "probed"
        except Exception:  # noqa: the probe could not run; keep the opaque rows (the theorems then fail)
            pass
    accept_source = "ast"
    if not else_success and parse_in_try:
        try:
            if probe_accept():
                else_success, accept_source = True, "probed"
        except Exception:  # noqa: keep what the reading said
            pass
    mros = []
    for c in CLASSES:
        cls = getattr(builtins, c)
        mros.append((c, [k.__name__ for k in cls.__mro__ if k is not object]))
    src = "\n".join([
        "/- GENERATED by harness/translate_source.py from pedal/source/source.py. Do not edit. -/",
        "namespace Pedal.Gen.Source",
        "",
        "/-- except-ladder around ast.parse: (classes caught, feedback function, how the line is passed). -/",
        "def handlers : List (List String × String × String) := " + lean_list(
            ["(%s, %s, %s)" % (lean_list([lean_str(x) for x in cl]), lean_str(fb), lean_str(kind))
             for cl, fb, kind in handlers]),
        "def elseSetsSuccess : Bool := " + ("true" if else_success else "false"),
        "def loadErrorFeedback : String := " + lean_str(load_fb),
        "def loadErrorReturns : Bool := " + ("true" if load_returns else "false"),
        "def blankFeedback : String := " + lean_str(blank_fb),
        "def blankReturns : Bool := " + ("true" if blank_returns else "false"),
        "/-- CPython's MROs (without object) for the classes ast.parse is known to raise. -/",
        "def mros : List (String × List String) := " + lean_list(
            ["(%s, %s)" % (lean_str(c), lean_list([lean_str(x) for x in m])) for c, m in mros]),
        "/-- Source-tool feedback functions and their category. -/",
        "def feedbackCategory : List (String × String) := " + lean_list(
            ["(%s, %s)" % (lean_str(a), lean_str(b)) for a, b in categories]),
        "",
        "end Pedal.Gen.Source",
        "",
    ])
    changed = write_if_changed(os.path.join(LEAN_DIR, "PedalModel", "Gen", "SourceTables.lean"), src)
    return {"file": "PedalModel/Gen/SourceTables.lean", "sha1": hashlib.sha1(src.encode()).hexdigest()[:12],
            "changed": changed, "ladder_source": ladder_source, "accept_source": accept_source}


if __name__ == "__main__":
    print(translate())

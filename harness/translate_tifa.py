"""
C18 translator: reads the tree under test and the running Python and writes
lean/PedalModel/Gen/TifaTables.lean:

  * visitMethods / hasGenericVisit : the `visit_*` methods of pedal.tifa.tifa_visitor.Tifa and whether the
    `generic_visit` fallback exists
  * nodeClasses : every concrete AST node class of the running interpreter's `ast` module
  * builtinRows : every FunctionType in BUILTIN_NAMES, in the documented type classes' `fields`
    (str/list/dict/int/float/bool/num/set/tuple/file methods) and in the builtin modules that are STANDARD
    modules of the running Python (sys.stdlib_module_names), with HOW its definition was given to
    FunctionType.__init__ (a `definition` object, or derived from `returns`).
  * extensionRows : the same for the third-party modules pedal also describes (designer, drafter, PIL, ...).
    C18's "completes" clause speaks of "imports of standard modules", so these rows are outside the property:
    they are generated and reported, but no theorem gates on them.

  * typeClassRows : every subclass of pedal's Type with which dictionary a fresh instance's `fields` attribute
    is - its own copy, or the class-level dictionary itself (then `add_attr` during one analysis changes every
    later analysis in the process).

Anything not understood becomes `.other` / `.unknown` (never dropped) so that the table theorems fail for it.
"""
import ast
import inspect
import os

from common import LEAN_DIR, lean_str, use_repo, write_if_changed

use_repo()

OUT = os.path.join(LEAN_DIR, "PedalModel", "Gen", "TifaTables.lean")

ABSTRACT = {"AST", "mod", "stmt", "expr", "expr_context", "boolop", "operator", "unaryop", "cmpop",
            "excepthandler", "type_ignore", "pattern", "type_param", "slice"}
# aliases kept by `ast` for old code; the parser never produces them
DEPRECATED = {"Num", "Str", "Bytes", "NameConstant", "Ellipsis", "Index", "ExtSlice", "Suite", "Param",
              "AugLoad", "AugStore"}


def node_classes():
    out = []
    for name, obj in sorted(vars(ast).items()):
        if not (isinstance(obj, type) and issubclass(obj, ast.AST)):
            continue
        if name in ABSTRACT or name in DEPRECATED or name.startswith("_"):
            continue
        group = "other"
        for base, g in ((ast.stmt, "stmt"), (ast.expr, "expr"), (ast.mod, "mod"), (ast.expr_context, "ctx"),
                        (ast.operator, "op"), (ast.boolop, "op"), (ast.unaryop, "op"), (ast.cmpop, "op")):
            if issubclass(obj, base):
                group = g
                break
        out.append((name, group))
    return out


def classify_callable6(d):
    """Can TIFA call it as definition(tifa, function, callee, arguments, named_arguments, location)?"""
    try:
        sig = inspect.signature(d)
    except (TypeError, ValueError):
        return ".callable"
    try:
        sig.bind(None, None, None, [], [], None)
        return ".callable"
    except TypeError:
        return ".wrongArity"


def classify_def(d):
    if isinstance(d, str):
        return ".str"
    if callable(d):
        return classify_callable6(d)
    return ".other"


def classify_ret(r):
    if r is None:
        return ".none"
    if isinstance(r, str):
        return {"void": ".void", "identity": ".identity", "element": ".element"}.get(r, ".otherStr")
    if callable(r):
        try:
            v = r()
        except TypeError:
            return ".needsArgs"
        except Exception:
            return ".other"
        return ".callable0" if hasattr(v, "clone") else ".other"
    return ".other"


def row_of(table, name, f):
    from pedal.types import new_types as nt
    d, r = f.definition, f.returns
    generic = getattr(d, "__qualname__", "").endswith("FunctionType.__init__.<locals>.definition")
    derived = (generic or (d is nt.void_definition and r in (None, "void")) or
               (d is nt.identity_definition and r == "identity") or (d is nt.element_definition and r == "element"))
    given = ".none" if derived else classify_def(d)
    detail = "" if derived else (repr(d) if isinstance(d, str) else getattr(d, "__qualname__", type(d).__name__))
    return (table, name, given, classify_ret(r), detail)


def is_standard_module(mod):
    """'imports of standard modules' (property text): the top-level package ships with the running Python."""
    import sys
    return mod.split(".")[0] in sys.stdlib_module_names


def in_scope(table):
    return not table.startswith("extmodule:")


def builtin_rows():
    """Every row, in-scope and extension (table prefix `extmodule:`)."""
    from pedal.types import new_types as nt
    import pedal.types.builtin as bi
    nt.reset_builtin_modules()
    rows = []
    for name, f in bi.BUILTIN_NAMES.items():
        if isinstance(f, nt.FunctionType):
            rows.append(row_of("builtins", name, f))
    for cls in ("StrType", "ListType", "DictType", "IntType", "FloatType", "BoolType", "NumType", "SetType",
                "TupleType", "FileType"):
        t = getattr(nt, cls)
        for name, f in t.fields.items():
            if isinstance(f, nt.FunctionType):
                rows.append(row_of(cls, name, f))
    for mod, m in sorted(nt.BUILTIN_MODULES.items()):
        kind = "module:" if is_standard_module(mod) else "extmodule:"

        def walk(prefix, module):
            for name, f in module.fields.items():
                if isinstance(f, nt.FunctionType):
                    rows.append(row_of(kind + prefix, name, f))
            for sub, sm in getattr(module, "submodules", {}).items():
                walk(prefix + "." + sub, sm)
        walk(mod, m)
    return rows


def all_type_classes():
    """Every subclass of pedal's Type that exists once the builtin tables are loaded (name-sorted, unique names)."""
    from pedal.types import new_types as nt
    import pedal.types.builtin  # noqa: F401  (defines nothing new today; a future Type class there must be seen)
    seen, out, todo = set(), [], [nt.Type]
    while todo:
        c = todo.pop()
        if c in seen:
            continue
        seen.add(c)
        out.append(c)
        todo.extend(c.__subclasses__())
    names = {}
    for c in out:
        names.setdefault(c.__name__, c)
    return [names[n] for n in sorted(names)]


def construct(cls):
    """A fresh instance the way the visitor could make one, or None."""
    from pedal.types import new_types as nt
    cands = [(), (False,), ([],), ("x",), ("x", {}), (1,), (1.5,), (True,), ("x", [], None), (nt.IntType(),), ([nt.IntType()],)]
    for args in cands:
        try:
            return cls(*args)
        except Exception:
            continue
    return None


def class_level_dicts(cls):
    return [k.__dict__["fields"] for k in cls.__mro__ if isinstance(k.__dict__.get("fields"), dict)]


def type_class_rows():
    rows = []
    for cls in all_type_classes():
        dicts = class_level_dicts(cls)
        if not dicts:
            rows.append((cls.__name__, ".noClassDict"))
            continue
        inst = construct(cls)
        if inst is None or not isinstance(getattr(inst, "fields", None), dict):
            rows.append((cls.__name__, ".unknown"))
        elif any(inst.fields is d for d in dicts):
            rows.append((cls.__name__, ".classLevel"))
        else:
            rows.append((cls.__name__, ".own"))
    return rows


def translate():
    from pedal.tifa.tifa_visitor import Tifa
    methods = sorted(n for n in dir(Tifa) if n.startswith("visit_") and callable(getattr(Tifa, n)))
    has_generic = callable(getattr(Tifa, "generic_visit", None))
    nodes = node_classes()
    rows = builtin_rows()
    trows = type_class_rows()
    L = []
    L.append("import PedalModel.TifaWrapperTypes")
    L.append("/- GENERATED by harness/translate_tifa.py from pedal/tifa/tifa_visitor.py, pedal/types/builtin.py,")
    L.append("   pedal/types/new_types.py and the running interpreter's `ast` module. Do not edit. -/")
    L.append("namespace Pedal.Gen.Tifa")
    L.append("open Pedal.TifaWrapper")
    L.append("")
    L.append("def visitMethods : List String := [" + ", ".join(lean_str(m) for m in methods) + "]")
    L.append("")
    L.append("def hasGenericVisit : Bool := " + ("true" if has_generic else "false"))
    L.append("")
    L.append("/-- (class name, group) of every concrete node class of the running `ast` module -/")
    L.append("def nodeClasses : List (String × String) := [")
    L.append(",\n".join("  (%s, %s)" % (lean_str(n), lean_str(g)) for n, g in nodes))
    L.append("]")
    L.append("")
    L.append("/-- builtins, methods of the builtin types, functions of STANDARD modules: the property's subset -/")
    L.append("def builtinRows : List Row := [")
    L.append(",\n".join("  ⟨%s, %s, %s, %s⟩" % (lean_str(t), lean_str(n), d, r) for t, n, d, r, det in rows if in_scope(t)))
    L.append("]")
    L.append("")
    L.append("/-- functions of third-party modules pedal describes: outside the property (reported, not gated) -/")
    L.append("def extensionRows : List Row := [")
    L.append(",\n".join("  ⟨%s, %s, %s, %s⟩" % (lean_str(t), lean_str(n), d, r) for t, n, d, r, det in rows if not in_scope(t)))
    L.append("]")
    L.append("")
    L.append("/-- every Type class: which dictionary a fresh instance's `fields` is (add_attr writes there) -/")
    L.append("def typeClassRows : List TypeClassRow := [")
    L.append(",\n".join("  ⟨%s, %s⟩" % (lean_str(n), o) for n, o in trows))
    L.append("]")
    L.append("")
    L.append("end Pedal.Gen.Tifa")
    content = "\n".join(L) + "\n"
    changed = write_if_changed(OUT, content)
    bad = [(t, n, d, r, det) for t, n, d, r, det in rows
           if not (d == ".callable" or (d == ".none" and r in (".none", ".void", ".identity", ".element", ".callable0")))]
    generic_nodes = [n for n, g in nodes if "visit_" + n not in methods]
    return {"changed": changed, "visit_methods": len(methods), "node_classes": len(nodes),
            "rows": len([r for r in rows if in_scope(r[0])]), "extension_rows": len([r for r in rows if not in_scope(r[0])]),
            "rows_not_callable": [list(b) for b in bad if in_scope(b[0])],
            "type_classes": len(trows), "type_classes_sharing_class_level_fields": [n for n, o in trows if o in (".classLevel", ".unknown")],
            "extension_rows_not_callable (outside the property: not a standard module)": [list(b) for b in bad if not in_scope(b[0])],
            "stmt_expr_classes_on_generic_visit": [n for n, g in nodes if g in ("stmt", "expr") and n in generic_nodes]}


if __name__ == "__main__":
    import json
    print(json.dumps(translate(), indent=1))

"""Round-4 dimensions of the C04 / C05 histories (seeds C04_G, C04_H, C05_G, C05_H).

1. WHICH REPORT is graded (`"report": "own" | "sandbox"` on every op of a history): a `Report()` of its own through
   the module-level commands with `report=`, or a `Sandbox(report=...)` object through its methods, while MAIN_REPORT
   and a third report are alive beside it, each holding a healthy decoy program that has been run.  The graded report
   must get what the property says, the other two NOTHING (`stray`, oracle clause `feedback-on-another-report`).
2. EXECUTED TEXT vs STORED TEXT (`"exec_code"`, `"exec_file"`): `run(text, filename=<a file of the submission>)` where
   the text is not what the submission stores under that name - driver / filler lines appended (failure on the last
   stored line, one past, two past, ... many past; raised there or passing through there), fewer lines than stored,
   another student file of the submission, later call()/evaluate() of a function defined past the stored end - and
   texts whose '\\n'-line count is not their Python line count (bare carriage returns, the separators of
   str.splitlines).  The expected class and student lines are taken from CPython itself (the text is executed here).
3. TIMEOUT as an ending of an execution NESTED in another one (search-only, C05): under every nesting route (mocked
   builtin / input callable / instructor function x run / call / evaluate inside run / call / evaluate, depth 3, two
   in a row) the inner execution is started threaded with a small allowed_time and never ends by itself; a variant
   swallows the SystemExit the abandoned thread is ended with and runs off the end of its code.  Right after the inner
   call returns AND after the abandoned thread has ended, every borrowed global and both stacks must be what they were
   right before the inner call; the enclosing execution then ends and is judged as usual."""
import copy
import sys
import traceback

import sandboxexec_common as sx
import sandboxexec_dims as dm
import sandboxexec_special as sp

REPORT_MODES = ["own", "sandbox"]


def on_report(hist, mode):
    h = copy.deepcopy(hist)
    for op in sx.walk_ops(h):
        op["report"] = mode
    return h


def report_histories(rng, tier):
    """Every ending x entry point (the base histories of the grader-thread dimension), nested executions, a second
    student file - each on a report of its own, both spellings; some with the grader on another thread / threaded."""
    out = []
    base = sp._base_histories(rng)
    k = 0
    for h in base:
        for mode in REPORT_MODES:
            styles = sx.STYLES if tier != "quick" else [sx.STYLES[k % len(sx.STYLES)]]
            for style in styles:
                g = sp._styled(on_report(h, mode), style)
                if k % 5 == 3 and sp._containable_or_normal(g):
                    g = dm.threaded(g, dm.THREAD_MODES[(k // 5) % 3])
                if k % 4 == 1:
                    g = sp.on_thread(g, sp.GRADER_THREADS[(k // 4) % len(sp.GRADER_THREADS)])
                g[-1]["pin"] = True
                out.append(g)
                k += 1
    # executions nested in one another on the sandbox of that report
    specs = [
        {"entry": "run", "style": "none", "ending": "exception", "via": "mock",
         "inner": [{"entry": "call", "ending": "keyerror"}]},
        {"entry": "call", "style": "native", "ending": "normal", "via": "input",
         "inner": [{"entry": "eval", "ending": "systemexit"}]},
        {"entry": "eval", "style": "calls", "ending": "user-exception", "via": "data",
         "inner": [{"entry": "run", "ending": "exception"}, {"entry": "call", "ending": "normal"}]},
    ]
    for j, spec in enumerate(specs):
        g = on_report(dm.build(spec), REPORT_MODES[j % 2])
        g[-1]["pin"] = True
        out.append(g)
    return out


# --------------------------------------------------------------------------
# executed text vs stored text


def cpython_failure(text, then=None, filename="<student>"):
    """Execute `text` (and then call `then` in its namespace) under plain CPython.
    -> (class name, MRO names, [line numbers of the frames in the text, outermost first], flags) or None."""
    import contextlib
    import io
    ns = {"__name__": "__main__"}
    try:
        with contextlib.redirect_stdout(io.StringIO()):
            exec(compile(text, filename, "exec"), ns)
            if then is not None:
                exec(compile(then, "<instructor>", "eval"), ns)
        return None
    except BaseException as e:       # noqa - CPython is the oracle here
        lines = [f.lineno for f in traceback.extract_tb(e.__traceback__) if f.filename == filename]
        cls = type(e)
        return (cls.__name__, [c.__name__ for c in cls.__mro__ if c is not object], lines, sx.class_flags(cls))


def _term(text, then=None):
    r = cpython_failure(text, then)
    if r is None:
        return ["N"]
    name, mro, lines, flags = r
    frames = ([["I", 1]] if then is not None else []) + [["S", l] for l in lines]
    return ["R", sx.desc(name, frames=frames, mro=mro, **flags)]


STORED_BODY = ["def main():", "    total = 0", "    return 10 / total"]
DRIVERS = [("passes-through", "main()"), ("raised-there", "raise ValueError('driver')"),
           ("exit-there", "raise SystemExit(4)")]
EXTRA_LINES = [0, 1, 2, 3, 40]

# '\n'-line count != Python line count (the stored lines are `text.split("\n")`); the separators other than \r sit
# in a comment, where CPython does not end the line
LINE_END_TEXTS = [
    ("cr", "x = 1\r1 / 0"), ("cr-cr", "x = 1\ry = 2\r1 / 0"), ("crlf", "x = 1\r\n1 / 0"),
    ("cr-mixed", "x = 1\r\ry = 2\r\n\r{}['k']\n"), ("cr-in-function", "def f():\r    return [][1]\rf()"),
    ("cr-then-lf", "x = 1\ry = 2\nz = 3\rraise KeyError('k')\n"),
    ("splitlines-separators", "x = 1  # a\x0cb\x0bc\x1cd\x1de\x1ef\x85g h i\n1 / 0\n"),
    ("cr-only-last-line-normal", "x = 1\ry = 2\rprint(x + y)"),
]


def _run_op(stored, text, term, shape, style, **extra):
    op = {"entry": "run", "style": style, "inject": False, "code": stored, "term": term, "shape": shape,
          "spell": "explicit", "pin": True}
    if text is not None and text != stored:
        op["exec_code"] = text
    op.update(extra)
    return op


def text_histories(rng, tier):
    out = []
    k = 0

    def style():
        nonlocal k
        k += 1
        return sx.STYLES[k % len(sx.STYLES)]

    later = {"entry": "run", "inject": False, "code": "print('later')\n", "term": ["N"], "shape": "normal"}
    # 1. lines appended to the stored program, run under its own name
    for newlines in (0, 1, 2):
        stored = "\n".join(STORED_BODY) + "\n" * newlines
        n_stored = len(stored.split("\n"))
        for extra in EXTRA_LINES:
            for dname, driver in DRIVERS:
                filler = ["x%d = %d" % (i, i) for i in range(extra)]
                for end in ("", "\n") if (tier != "quick" or (extra + newlines) % 2 == 0) else ("",):
                    text = stored + ("" if newlines else "\n") + "\n".join(filler + [driver]) + end
                    at = text[:text.rindex(driver)].count("\n") + 1
                    shape = "text:appended:%s:%+d" % (dname, at - n_stored)
                    main = sx.MAIN_FILE if k % 3 else sx.OTHER_MAIN_FILES[k % 2]
                    op = _run_op(stored, text, _term(text), shape, style())
                    if main != sx.MAIN_FILE:
                        op["main"] = main
                    out.append([op, dict(later, style=op["style"])])
    # 2. fewer lines than stored / another text altogether
    long_stored = "\n".join(["a = 1", "b = 2", "c = 3", "def g():", "    return a + b + c", "print(g())", "d = 4", "e = 5"])
    for shape, text in [("text:shorter:fails-on-its-last-line", "a = 1\nb = 2\nc = a / 0"),
                        ("text:shorter:one-line", "raise LookupError('short')"),
                        ("text:shorter:fails-inside", "def g():\n    return [][0]\ng()\n"),
                        ("text:other-text-same-length", "\n".join(["a = 1"] * 7 + ["a.missing"])),
                        ("text:same-text", long_stored), ("text:empty", "")]:
        out.append([_run_op(long_stored, text, _term(text), shape, style())])
    # 3. another student file of the submission, run with more / fewer lines than stored for it
    for helper in ("value = 1", "value = 1\n", "value = 1\nother = 2\n\n"):
        for shape, text in [("text:helper:+1", helper + ("" if helper.endswith("\n") else "\n") + "value / 0"),
                            ("text:helper:+2", helper + ("" if helper.endswith("\n") else "\n") + "\nvalue / 0\n"),
                            ("text:helper:first-line", "value = {}['k']")]:
            out.append([_run_op("import helper\n", text, _term(text), shape, style(), helper=helper,
                                exec_file=sx.HELPER_FILE)])
    # 4. a function defined past the stored end, failing when it is called / evaluated later
    for newlines in (0, 1):
        stored = "\n".join(STORED_BODY) + "\n" * newlines
        for gap in (0, 1, 2):
            text = stored + ("" if newlines else "\n") + "\n" * gap + "def extra(*args):\n    return [][2]\n"
            st = style()
            out.append([_run_op(stored, text, ["N"], "defs", st),
                        {"entry": "call", "style": st, "inject": False, "fn": "extra", "term": _term(text, "extra()"),
                         "shape": "text:call-past-the-end:+%d" % gap, "pin": True},
                        {"entry": "eval", "style": st, "inject": False, "expr": "extra()",
                         "term": _term(text, "extra()"), "shape": "text:eval-past-the-end:+%d" % gap, "pin": True}])
    # 5. line ends: stored text == executed text, but the line counts differ
    for name, text in LINE_END_TEXTS:
        for spell in ("bare", "explicit", "byname"):
            st = style()
            if st == "coverage" and "\r\r" in text:
                # GATED (fails on the unchanged tree, reported): coverage.py cannot parse a source with an empty
                # CR-terminated line; its NotPython becomes the sandbox's exception - see gated_histories()
                st = "native"
            op = _run_op(text, None, _term(text), "text:line-ends:" + name, st)
            op["spell"] = spell
            out.append([op])
    return out


def gated_enabled():
    """Off by default (the round-3 gate `VERIF_SANDBOXEXEC_GATED` is ON by default since its defect was repaired)."""
    import os
    return os.environ.get("VERIF_SANDBOXEXEC_GATED_R4", "1") not in ("", "0")    # on by default since /repo 3dd639d repaired it


def gated_histories():
    """Inputs that FAIL ON THE UNCHANGED TREE (reported to the main session; on with VERIF_SANDBOXEXEC_GATED_R4=1):
    tracer style `coverage` x a program with two carriage returns in a row (CPython runs it)."""
    out = []
    for text, shape in (("x = 1\r\ry = 2\r\n\r{}['k']\n", "text:line-ends:cr-mixed"),
                        ("x = 1\r\ry = 2\nprint(x + y)\n", "normal")):
        out.append([_run_op(text, None, _term(text), shape, "coverage", spell="bare")])
    return out


# --------------------------------------------------------------------------
# timeout as an ending of nested executions (search-only, C05)


def timeout_histories(rng, tier):
    out = []
    outer_endings = ["normal", "exception", "systemexit", "user-exception"]
    k = 0
    for via in dm.VIAS:
        for ientry in ("call", "eval", "run"):
            oentries = ("run", "call", "eval") if tier != "quick" else (("run", "call", "eval")[k % 3],)
            for oentry in oentries:
                styles = dm.NEST_STYLES if tier != "quick" else (dm.NEST_STYLES[k % 3],)
                for style in styles:
                    out.append(dm.build({
                        "entry": oentry, "style": style, "ending": outer_endings[k % 4], "via": via,
                        "inner": [{"entry": ientry, "ending": dm.TIMEOUT_ENDINGS[(k // 2) % 2],
                                   "style": (None, "none", "native")[k % 3]}]}))
                    k += 1
    # the seed's demo shapes, pinned: call inside call through an instructor function; both kinds of ending
    for ending in dm.TIMEOUT_ENDINGS:
        out.append(dm.build({"entry": "call", "style": "none", "ending": "normal", "via": "data",
                             "inner": [{"entry": "call", "ending": ending}]}))
    # two in a row (the second ends in time), depth 3 (the innermost times out)
    out.append(dm.build({"entry": "run", "style": "native", "ending": "normal", "via": "mock",
                         "inner": [{"entry": "call", "ending": "timeout"}, {"entry": "eval", "ending": "normal"}]}))
    out.append(dm.build({"entry": "run", "style": "none", "ending": "exception", "via": "input",
                         "inner": [{"entry": "call", "ending": "normal", "via": "mock",
                                    "inner": [{"entry": "eval", "ending": "timeout-survivor"}]}]}))
    # not nested: an execution given up on, then a clean one on the same sandbox
    later = {"entry": "run", "style": "none", "inject": False, "code": "print('later')\n", "term": ["N"],
             "shape": "normal"}
    for ending in dm.TIMEOUT_ENDINGS:
        out.append(dm.build({"entry": "run", "style": "none", "ending": ending}) + [dict(later)])
    # the abandoned thread survives the SystemExit it is ended with, waits, and runs off the end of its code WHILE THE
    # NEXT top-level execution of the same sandbox is in progress (released by that execution's code, which then
    # waits for the thread to end, prints and imports a module that was not loaded before)
    first = ("phase = 'spin'\ntry:\n    while True:\n        pass\nexcept BaseException:\n    phase = 'survived'\n"
             "while phase != 'go':\n    pass\n")
    body = ["phase = 'go'", "%s()" % sx.WAIT_BUILTIN, "print('captured')", "import %s" % FRESH_MODULE, "print('done')"]
    defs = ("def nudge(*args):\n    global phase\n" + "".join("    %s\n" % l for l in body) + "    return 7\n")
    timed = {"entry": "run", "inject": False, "code": first, "spell": "explicit", "timeout": dm.TIMEOUT_ALLOWED,
             "leave_thread": True, "term": ["R", sx.desc("TimeoutError", frames=[["S", 4]])],
             "shape": "timeout-survivor-waits"}
    nexts = [{"entry": "run", "inject": False, "code": "\n".join(body) + "\n", "spell": "explicit", "term": ["N"],
              "shape": "normal", "wait_abandoned": True},
             {"entry": "call", "inject": False, "fn": "nudge", "term": ["N"], "shape": "ok-call", "wait_abandoned": True},
             {"entry": "eval", "inject": False, "expr": "nudge()", "term": ["N"], "shape": "ok-eval",
              "wait_abandoned": True}]
    for j, nxt in enumerate(nexts):
        st = sx.STYLES[j % 3]
        out.append([{"entry": "run", "style": "none", "inject": False, "code": defs, "term": ["N"], "shape": "defs"},
                    dict(timed, style=st), dict(nxt, style=st), dict(later)])
    return out


FRESH_MODULE = "colorsys"        # (pure Python, imports nothing, nothing in pedal or the harness loads it)


# --------------------------------------------------------------------------


def selftest():
    """The descriptors of the text histories against CPython run on the executed text (by construction), the line
    arithmetic of the shapes, and the presence of every offset around the stored end."""
    import random
    hs = text_histories(random.Random(0), "thorough")
    offsets = set()
    for h in hs:
        for op in h:
            if op["shape"].startswith("text:appended:"):
                offsets.add(int(op["shape"].rsplit(":", 1)[1]))
                assert op["term"][0] == "R", op
            if op["shape"].startswith("text:line-ends:") and "normal" not in op["shape"]:
                assert op["term"][0] == "R" and op["term"][1]["frames"], op
    assert {0, 1, 2, 3}.issubset(offsets), offsets
    assert len(timeout_histories(random.Random(0), "quick")) >= 12
    print("sandboxexec_where selftest: %d text histories, offsets past the stored end %s, %d report histories, "
          "%d timeout histories" % (len(hs), sorted(offsets), len(report_histories(random.Random(0), "quick")),
                                    len(timeout_histories(random.Random(0), "quick"))))
    return 0


if __name__ == "__main__":
    from common import use_repo
    use_repo()
    sys.exit(selftest())

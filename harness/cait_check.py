"""
C10 / C11 check bodies: case generation, correspondence (real find_matches vs the Lean port through
driver_c10/driver_c11), and the two failing-input searches:
  C10: Lean `checkMatch` (the decidable embedding checker the theorems are about) on EVERY real match
  C11: every pattern derived from a program by the generalisation steps must match with the expected bindings
"""
import ast
import itertools
import json
import re

import cait_common as cc
from common import CorrResult, Failure, run_check

THEOREMS_C10 = []
THEOREMS_C11 = []


# --------------------------------------------------------------------------
# cases

def small_scope_cases():
    """exhaustive: all expression patterns of depth <= 2 over a tiny grammar against all concrete
    expression statements of depth <= 2 (thorough tier)."""
    p_atoms = ["a", "b", "1", "___", "_v_", "__e__"]
    s_atoms = ["a", "b", "1"]

    def level(atoms, ops):
        out = list(atoms)
        for x, y in itertools.product(atoms, repeat=2):
            for op in ops:
                out.append("(%s %s %s)" % (x, op, y))
        for x in atoms:
            out.append("f(%s)" % x)
        for x, y in itertools.product(atoms[:3], repeat=2):
            out.append("f(%s, %s)" % (x, y))
        return out
    pats = level(p_atoms, ["+", "-"])
    l1 = level(s_atoms, ["+", "-"])
    progs = list(l1)
    for x, y in itertools.product(l1[3:12], s_atoms):
        progs.append("(%s + %s)" % (x, y))
        progs.append("(%s - %s)" % (y, x))
    for p in pats:
        for s in progs:
            yield {"pattern": p, "code": "x = " + s, "origin": "small-scope"}


def gen_cases(rng, tier, prop):
    cases = []
    for p, c in cc.CORPUS_PAIRS:
        cases.append({"pattern": p, "code": c, "origin": "corpus"})
    n_prog = {"quick": 110, "thorough": 2500}[tier]
    gen = cc.Gen(rng)
    progs = []
    for _ in range(n_prog):
        try:
            progs.append(gen.program())
        except SyntaxError:
            continue
    repo = cc.repo_programs(max_nodes=260 if tier == "quick" else 700)
    if tier == "quick":
        rng.shuffle(repo)
        repo = repo[:12]
    sources = [("gen", s) for s in progs] + [("repo:" + n, s) for n, s in repo]
    for origin, code in sources:
        tree = ast.parse(code)
        k_derived = 3 if origin == "gen" else 4
        derived = []
        for _ in range(k_derived):
            d = cc.derive(rng, code, tree)
            if d is not None:
                derived.append(d)
                cases.append({"pattern": d.pattern, "code": code, "origin": origin + ":derived", "derived": d})
        # the statement itself / whole program (self-match)
        d = cc.derive(rng, code, tree, max_steps=0)
        if d is not None:
            cases.append({"pattern": d.pattern, "code": code, "origin": origin + ":self", "derived": d})
        for d in derived[:2]:
            m = cc.mutate_pattern(rng, d.pattern)
            if m is not None:
                cases.append({"pattern": m, "code": code, "origin": origin + ":mutated"})
        # a pattern from this program against another program
        if progs and derived:
            other = rng.choice(progs)
            cases.append({"pattern": derived[0].pattern, "code": other, "origin": origin + ":cross"})
    if tier == "thorough":
        cases.extend(small_scope_cases())
    return cases


STATE = {}


def correspond(prop):
    def run(rng, tier, driver):
        res = CorrResult()
        res.rule = ("non-trivial = (pattern, program) pair on which the real find_matches returns at least one "
                    "match; compared per match: match_root, mappings (pattern path -> student path), "
                    "exp_table, the three symbol tables (ids and nodes, in order), conflict keys; list order kept")
        cases = gen_cases(rng, tier, prop)
        runs = []
        programs = {}
        for c in cases:
            try:
                prog = programs.get(c["code"])
                if prog is None:
                    prog = programs[c["code"]] = cc.Program(c["code"])
                if prog.size > 60 and re.fullmatch(r"___|pass|__e\d*__", c["pattern"].strip()):
                    res.count("skipped:bare-wildcard-on-large-program")
                    continue
                r = cc.RealRun(c["pattern"], prog)
            except (SyntaxError, RecursionError, ValueError):
                res.count("skipped:unparsable")
                continue
            runs.append((c, r))
        answers = driver.ask([r.request() for _, r in runs])
        for (c, r), a in zip(runs, answers):
            res.evaluations += 1
            res.count("origin:" + c["origin"].split(":")[0] + ":" + c["origin"].split(":")[-1])
            model = cc.parse_model_matches(a)
            if r.exc is not None:
                res.count("real-raises:" + r.exc)
                res.disagreements.append({"case": {"pattern": c["pattern"], "code": c["code"]},
                                          "real": "raises " + r.exc, "model": str(model)[:200], "fields": ["exception"]})
                continue
            n = len(r.matches)
            res.count("matches:" + ("0" if n == 0 else "1" if n == 1 else "2-5" if n <= 5 else ">5"))
            if n:
                res.nontrivial.add((c["pattern"], c["code"]))
                if len(res.samples) < 4:
                    res.samples.append({"pattern": c["pattern"], "code": c["code"][:200], "matches": n,
                                        "first": cc.show_match(r.matches[0])})
            diffs = cc.compare(r.matches, model)
            if diffs:
                res.disagreements.append({"case": {"pattern": c["pattern"], "code": c["code"]},
                                          "real": [cc.show_match(m) for m in r.matches[:3]],
                                          "model": [cc.show_match(m) for m in model[:3]] if not isinstance(model, str) else model,
                                          "fields": diffs[:6], "origin": c["origin"]})
        STATE["runs"] = runs
        return res
    return run


# --------------------------------------------------------------------------
# shrinking

def _stmt_removals(src):
    """sources with one statement removed (from any body that keeps >= 1 statement; orelse/finalbody may empty)."""
    try:
        tree = ast.parse(src)
    except SyntaxError:
        return
    n_lists = 0
    for node in ast.walk(tree):
        for field in ("body", "orelse", "finalbody"):
            v = getattr(node, field, None)
            if isinstance(v, list) and v and all(isinstance(s, ast.stmt) for s in v):
                n_lists += 1
    seen = 0
    for li in range(n_lists):
        t = ast.parse(src)
        k = 0
        target = None
        for node in ast.walk(t):
            for field in ("body", "orelse", "finalbody"):
                v = getattr(node, field, None)
                if isinstance(v, list) and v and all(isinstance(s, ast.stmt) for s in v):
                    if k == li:
                        target = (node, field, v)
                    k += 1
        if target is None:
            continue
        node, field, v = target
        minimum = 1 if (field == "body" and not isinstance(node, ast.Module)) else 0
        for i in range(len(v)):
            if len(v) - 1 < minimum:
                continue
            t2 = ast.parse(src)
            k = 0
            for node2 in ast.walk(t2):
                for field2 in ("body", "orelse", "finalbody"):
                    v2 = getattr(node2, field2, None)
                    if isinstance(v2, list) and v2 and all(isinstance(s, ast.stmt) for s in v2):
                        if k == li:
                            del v2[i]
                        k += 1
            try:
                out = ast.unparse(t2)
                ast.parse(out)
            except Exception:
                continue
            seen += 1
            yield out


def shrink(pattern, code, still_fails, budget=150):
    """greedy statement removal on the program, then on the pattern."""
    changed = True
    while changed and budget > 0:
        changed = False
        for cand in _stmt_removals(code):
            budget -= 1
            if budget <= 0:
                break
            try:
                if cand.strip() and still_fails(pattern, cand):
                    code = cand
                    changed = True
                    break
            except Exception:
                continue
        if changed:
            continue
        for cand in _stmt_removals(pattern):
            budget -= 1
            if budget <= 0:
                break
            try:
                if cand.strip() and still_fails(cand, code):
                    pattern = cand
                    changed = True
                    break
            except Exception:
                continue
    return pattern, code


# --------------------------------------------------------------------------
# C10 search: the embedding oracle on every real match

def embed_verdicts(driver, run):
    if run.exc is not None or not run.matches:
        return []
    a = driver.ask([run.embed_request()])[0].split(" ")
    if a[0] != "ok" or len(a) != 1 + len(run.matches):
        return [False] * len(run.matches)
    return [x == "1" for x in a[1:]]


def search_c10(rng, tier, broken, corr):
    from common import Driver
    driver = Driver("driver_c10")
    runs = STATE.get("runs", [])
    info = {"evaluations": 0, "distinct_nontrivial": 0,
            "rule": "oracle = Lean checkMatch (kind/content/child-of-partner/order/placeholder bindings) evaluated by the "
                    "driver on every AstMap returned by the real find_matches; non-trivial = a real match",
            "samples": []}
    failures = []
    if not driver.available:
        info["skipped"] = "driver missing"
        return failures, info
    owners = [(c, r) for c, r in runs if r.exc is None and r.matches]
    answers = driver.ask([r.embed_request() for _, r in owners])
    info["distinct_nontrivial"] = len({(c["pattern"], c["code"]) for c, _ in owners})
    bad = {}
    for (c, r), a in zip(owners, answers):
        toks = a.split(" ")
        info["evaluations"] += len(r.matches)
        if toks[0] != "ok" or len(toks) != 1 + len(r.matches) or "0" in toks[1:]:
            i = toks[1:].index("0") if "0" in toks[1:] else 0
            bad.setdefault((c["pattern"], c["code"]), (c, r, i, a))
    for (pattern, code), (c, r, i, a) in list(bad.items())[:5]:
        def still(p, s):
            rr = cc.RealRun(p, s)
            return any(not v for v in embed_verdicts(driver, rr))
        p2, s2 = shrink(pattern, code, still)
        rr = cc.RealRun(p2, s2)
        vs = embed_verdicts(driver, rr)
        idx = vs.index(False) if False in vs else 0
        failures.append(Failure({"oracle": "embedding", "pattern": p2, "code": s2},
                                "find_matches(%r) on %r returns a match that is not an embedding" % (p2, s2),
                                {"pattern": p2, "code": s2, "match_index": idx, "original": {"pattern": pattern, "code": code},
                                 "match": cc.show_match(rr.matches[idx]) if rr.matches else None}))
    if owners:
        c, r = owners[0]
        info["samples"].append({"pattern": c["pattern"], "code": c["code"][:120], "match": cc.show_match(r.matches[0])})
    return failures, info


# --------------------------------------------------------------------------
# C11 search: derived patterns must match with the expected bindings

def search_c11(rng, tier, broken, corr):
    runs = STATE.get("runs", [])
    info = {"evaluations": 0, "distinct_nontrivial": 0,
            "rule": "oracle = a pattern derived from (a statement of) the program by wildcard / __expr__ replacement, "
                    "consistent _var_ renaming and sibling dropping must give >= 1 match, one of which binds every "
                    "placeholder to what it replaced; non-trivial = derivation with at least one step",
            "samples": [], "steps": {}}
    failures = []
    bad = []
    for c, r in runs:
        d = c.get("derived")
        if d is None:
            continue
        info["evaluations"] += 1
        if d.steps:
            info["distinct_nontrivial"] += 1
        for s in d.steps:
            info["steps"][s.split(":")[0]] = info["steps"].get(s.split(":")[0], 0) + 1
        why = cc.c11_verdict(d, r)
        if why is not None:
            bad.append((c, d, why))
        elif len(info["samples"]) < 3 and d.steps:
            info["samples"].append({"pattern": d.pattern, "code": d.code[:120], "steps": d.steps,
                                    "vars": d.vars, "exps": {k: v[1] for k, v in d.exps.items()}})
    seen = set()
    for c, d, why in bad:
        kinds = sorted({s.split(":")[0] for s in d.steps})
        sig = {"oracle": "derived-pattern", "why": why.split(" ")[0] + (" " + why.split(" ")[1] if why.startswith("raises") else ""),
               "base": d.base, "steps": kinds}
        key = json.dumps(sig, sort_keys=True)
        if key in seen:
            continue
        seen.add(key)
        failures.append(Failure(sig, "pattern %r derived from the program by %s: %s" % (d.pattern, d.steps or "no step", why),
                                {"pattern": d.pattern, "code": d.code, "steps": d.steps, "vars": d.vars,
                                 "exps": {k: v[1] for k, v in d.exps.items()}, "why": why}))
        if len(failures) >= 5:
            break
    return failures, info


# --------------------------------------------------------------------------

def replay(payload):
    from common import Driver
    rp = payload.get("replay") or {}
    if not rp and payload.get("disagreements"):
        rp = payload["disagreements"][0]["case"]
    if not rp:
        print(json.dumps(payload, indent=1)[:3000])
        return 0
    pattern, code = rp["pattern"], rp["code"]
    print("pattern:\n" + pattern)
    print("program:\n" + code)
    r = cc.RealRun(pattern, code)
    print("real  :", "raises " + r.exc if r.exc else json.dumps([cc.show_match(m) for m in r.matches], default=str))
    d = Driver("driver_c10")
    if d.available:
        model = cc.parse_model_matches(d.ask([r.request()])[0])
        print("model :", json.dumps([cc.show_match(m) for m in model], default=str) if not isinstance(model, str) else model)
        if r.exc is None:
            print("checkMatch on the real matches:", embed_verdicts(d, r))
    return 0

"""
C10 / C11 check bodies: case generation, correspondence (real find_matches vs the Lean port through
driver_c10/driver_c11), and the two failing-input searches:
  C10: Lean `checkMatch` (the decidable embedding checker the theorems are about) on EVERY real match
  C11: every pattern derived from a program by the generalisation steps must match with the expected bindings
       (plain, on decoy-rich programs, after an unparsable text on the same report, and as a sub-pattern that
       inherits an earlier match and reuses its placeholder names)
"""
import ast
import itertools
import json
import re

import cait_common as cc
from common import CorrResult, Failure, run_check

THEOREMS_C10 = []
# diagnosis only: VERIF_CAIT_OFF=field,spelling,shared switches the round-4 streams off
_OFF = set(filter(None, __import__("os").environ.get("VERIF_CAIT_OFF", "").split(",")))
THEOREMS_C11 = []


# --------------------------------------------------------------------------
# cases

def small_scope_cases():
    """exhaustive: all expression patterns of depth <= 2 over a tiny grammar against all concrete
    expression statements of depth <= 2 (thorough tier)."""
    p_atoms = ["a", "b", "1", "___", "_v_", "__e__"]
    s_atoms = ["a", "b", "1"]

    def level(atoms, ops):
        out = list(atoms)
        for x, y in itertools.product(atoms, repeat=2):
            for op in ops:
                out.append("(%s %s %s)" % (x, op, y))
        for x in atoms:
            out.append("f(%s)" % x)
        for x, y in itertools.product(atoms[:3], repeat=2):
            out.append("f(%s, %s)" % (x, y))
        return out
    pats = level(p_atoms, ["+", "-"])
    l1 = level(s_atoms, ["+", "-"])
    progs = list(l1)
    for x, y in itertools.product(l1[3:12], s_atoms):
        progs.append("(%s + %s)" % (x, y))
        progs.append("(%s - %s)" % (y, x))
    for p in pats:
        for s in progs:
            yield {"pattern": p, "code": "x = " + s, "origin": "small-scope", "setup": "code",
                   "api": "find_matches", "spelling": "plain"}


def gen_cases(rng, tier, prop):
    cases = []
    for p, c in cc.CORPUS_PAIRS:
        cases.append({"pattern": p, "code": c, "origin": "corpus", "setup": cc.SETUPS[len(cases) % 3],
                      "api": "node" if len(cases) % 4 == 3 else "find_matches", "spelling": "plain"})
    for code, pat, vars_ in cc.CORPUS_DERIVED:
        cases.append({"pattern": pat, "code": code, "origin": "corpus:derived", "setup": cc.SETUPS[len(cases) % 3],
                      "api": "find_matches", "spelling": "plain",
                      "derived": cc.Derived(code, pat, {}, dict(vars_), ["var"] * len(vars_), "corpus")})
    for pat, gen, code in cc.MONO_TRIPLES:
        cases.append({"pattern": pat, "code": code, "origin": "corpus:mono", "setup": "code", "api": "find_matches",
                      "spelling": "plain", "generalisations": [gen]})
    n_prog = {"quick": 110, "thorough": 2500}[tier]
    gen = cc.Gen(rng)
    progs = []
    for _ in range(n_prog):
        try:
            progs.append(gen.program())
        except SyntaxError:
            continue
    repo = cc.repo_programs(max_nodes=260 if tier == "quick" else 700)
    if tier == "quick":
        rng.shuffle(repo)
        repo = repo[:12]
    sources = [("gen", s) for s in progs] + [("repo:" + n, s) for n, s in repo]
    for idx, (origin, code) in enumerate(sources):
        spelling = "plain"
        if origin == "gen" and rng.random() < 0.15:
            code, spelling = cc.respell(rng, code)
        setup = cc.SETUPS[idx % 3] if idx % 2 else "code"
        tree = ast.parse(code)
        k_derived = 3 if origin == "gen" else 4
        derived = []

        def add(pattern, kind, d=None):
            api = "node" if rng.random() < 0.15 else "find_matches"
            psp = "plain"
            if rng.random() < 0.08:
                pattern2, psp = cc.respell(rng, pattern)
                if psp in ("crlf", "cr", "formfeed"):
                    pattern = pattern2
                else:
                    psp = "plain"
            c = {"pattern": pattern, "code": code, "origin": origin + ":" + kind, "setup": setup, "api": api,
                 "spelling": spelling if psp == "plain" else spelling + "+p-" + psp}
            if d is not None:
                c["derived"] = d
            cases.append(c)
        for _ in range(k_derived):
            d = cc.derive(rng, code, tree)
            if d is not None:
                derived.append(d)
                add(d.pattern, "derived", d)
        # the statement itself / whole program (self-match)
        d = cc.derive(rng, code, tree, max_steps=0)
        if d is not None:
            add(d.pattern, "self", d)
        for d in derived[:2]:
            m = cc.mutate_pattern(rng, d.pattern)
            if m is not None:
                add(m, "mutated")
        # a pattern from this program against another program
        if progs and derived:
            other = rng.choice(progs)
            cases.append({"pattern": derived[0].pattern, "code": other, "origin": origin + ":cross",
                          "setup": "code", "api": "find_matches", "spelling": "plain"})
    # programs with DECOY statements (several statements that match a pattern statement shallowly and bind its
    # placeholder differently), patterns that keep a subsequence of a body: the matcher has to carry several
    # partial matches with different bindings through the sibling-index bookkeeping of map_merge
    dgen = cc.DecoyGen(rng)
    n_decoy = {"quick": 45, "thorough": 900}[tier]
    for idx in range(n_decoy):
        try:
            code = dgen.program()
            tree = ast.parse(code)
        except SyntaxError:
            continue
        setup = cc.SETUPS[idx % 3] if idx % 2 else "code"
        for fn in (cc.derive_decoy, cc.derive_decoy, cc.derive_focus, cc.derive):
            d = fn(rng, code, tree)
            if d is not None:
                cases.append({"pattern": d.pattern, "code": code, "origin": "decoy:derived", "setup": setup,
                              "api": "node" if rng.random() < 0.1 else "find_matches", "spelling": "plain",
                              "derived": d})
    # ... and, exhaustively, EVERY interleaving of the instances of a small template
    wraps = ("{B}", "def main():\n{I}", "{B}", "for i in r:\n    z = 1\nelse:\n{I}", "{B}", "if c:\n{I}",
             "try:\n    z = 1\nfinally:\n{I}", "class K:\n{I}", "while c:\n{I}")
    for code, d in cc.decoy_scope(rng, {"quick": 4, "thorough": 60}[tier], wraps=wraps):
        cases.append({"pattern": d.pattern, "code": code, "origin": "decoy:arrangement", "setup": "code",
                      "api": "find_matches", "spelling": "plain", "derived": d})
    # nested binary operations (every tree shape x every operator assignment, operands distinct / repeated, inside
    # every kind of statement): the pattern the program came from must match; the previous program's pattern on
    # this program exercises rejection and partial overlap
    last = None
    for idx, (code, d, origin) in enumerate(cc.bin_scope(rng, tier)):
        cases.append({"pattern": d.pattern, "code": code, "origin": origin, "setup": cc.SETUPS[idx % 3] if idx % 4 == 3 else "code",
                      "api": "node" if idx % 11 == 10 else "find_matches", "spelling": "plain", "derived": d})
        if (last is None or last[0] != code) and idx % 2 == 0:
            pg = cc.commuted(rng, code)
            if pg is not None:
                cases.append({"pattern": pg[0], "code": code, "origin": "bin:commuted", "setup": "code",
                              "api": "find_matches", "spelling": "plain", "generalisations": [pg[1]]})
        if last is not None and idx % 3 == 0 and last[0] != code:
            cases.append({"pattern": last[1].pattern, "code": code, "origin": "bin:cross", "setup": "code",
                          "api": "find_matches", "spelling": "plain"})
        last = (code, d)
    # every AST field a sub-expression / identifier can stand in, each replaced in turn by a placeholder (list fields
    # holding None beside nodes: dict displays with ** spreads, keyword-only parameters without defaults)
    for idx, (code, d, tag) in enumerate(cc.field_scope(rng) if "field" not in _OFF else ()):
        cases.append({"pattern": d.pattern, "code": code, "origin": "field:" + tag.split(":")[0] + "-" + tag.split(":")[-1],
                      "setup": cc.SETUPS[idx % 3] if idx % 5 == 4 else "code",
                      "api": "node" if idx % 13 == 12 else "find_matches", "spelling": "plain", "derived": d, "first": False})
    # identifier spellings around the placeholder syntax, as concrete names of patterns and programs, in every
    # position an identifier can stand in: a concrete name matches only itself
    for idx, (pattern, code, tag, is_self) in enumerate(cc.spelling_scope(rng, tier) if "spelling" not in _OFF else ()):
        c = {"pattern": pattern, "code": code, "origin": "spelling:" + tag, "setup": "code",
             "api": "node" if idx % 17 == 16 else "find_matches", "spelling": "plain", "first": False}
        if is_self:
            c["derived"] = cc.Derived(code, pattern, {}, {}, [], "program")
        cases.append(c)
    if tier == "thorough":
        cases.extend(small_scope_cases())
    return cases


STATE = {}


def _rename_exps(pattern, mapping):
    return re.sub(r"__e\d+__", lambda m: mapping.get(m.group(0), m.group(0)), pattern)


def sub_cases(rng, c, r, counts=None):
    """matches within matches: search inside the subtree bound to an __e__ placeholder of a first-level match,
    with and without the parent's bindings (CaitNode.find_matches(..., use_previous=...)), and over the whole
    program with the parent's AstMap inherited (cait_api.find_matches(..., use_previous=parent)).

    The sub-patterns are derived from the bound subtree itself by C11's steps.  Their placeholders are named in
    two ways: with FRESH names, and REUSING names the inherited match has already bound - an __expr__ name of the
    parent for a different sub-expression (as pedal's own test_use_previous does), a _var_ name of the parent for
    the same identifier."""
    def count(k):
        if counts is not None:
            counts[k] = counts.get(k, 0) + 1
    d = c.get("derived")
    out = []
    if d is None or not d.exps or not r.raw or r.api != "find_matches":
        return out
    key = sorted(d.exps)[0]
    parent, cm = r.raw[0], r.matches[0]
    if key not in cm["exps"]:
        return out
    anchor = cm["exps"][key]
    anchor_node = cc.node_at(r.sroot, anchor)
    try:
        src = ast.unparse(anchor_node.astNode)     # what the first match actually bound
        sub_tree = ast.parse(src)
    except Exception:
        return out
    # (pattern, what C11 expects of it inside the subtree: None | {"vars": {placeholder: identifier},
    #                                                              "exps": {placeholder: [acceptable paths]}})
    pats = [(src, {"vars": {}, "exps": {}})]
    # the text of the bound subtree must denote that very subtree (a Store / Del context does not survive)
    top = sub_tree.body[0] if len(sub_tree.body) == 1 else None
    inner = top.value if isinstance(top, ast.Expr) and isinstance(anchor_node.astNode, ast.expr) else top
    faithful = inner is not None and ast.dump(inner) == ast.dump(anchor_node.astNode)
    if not faithful:
        count("skipped:sub-source-not-faithful")
        pats = []
    parent_names = cc.pattern_names(r.ptree)
    parent_bound = {k: sorted({i for (_, kk), lst in cm["binds"].items() if kk == k for (i, _) in lst})
                    for k in {kk for (_, kk) in cm["binds"]}}
    if faithful:
        prefix = cc.ast_index(sub_tree)[id(inner)]
        for forced in (False, True):
            if forced:
                # at least one sub-expression of the bound subtree becomes a NAMED placeholder
                dv = cc._Deriver(rng, src, sub_tree)
                dv.step_wild(named=True)
                for _ in range(rng.randint(0, 2)):
                    rng.choice([dv.step_wild, dv.step_var])()
                dd = dv.finish()
            else:
                dd = cc.derive(rng, src, sub_tree, whole=True, max_steps=3)
            if dd is None or not dd.steps:
                continue
            # a _x_ of the sub-pattern that the parent pattern also uses: fine if the parent's first match bound it
            # to the identifier it replaces here (then the inherited binding agrees), otherwise no expectation
            shared = set(dd.vars) & set(parent_names)
            agrees = all(parent_bound.get(k) == [dd.vars[k]] for k in shared)

            def rel(path):
                return tuple(path[len(prefix):]) if path is not None and tuple(path[:len(prefix)]) == tuple(prefix) else None
            exps_rel = {k: [x for x in (rel(v[0]), rel(v[2])) if x is not None] for k, v in dd.exps.items()}
            if any(not v for v in exps_rel.values()):
                continue
            keys = sorted(dd.exps)
            fresh = {k: "__s%d__" % i for i, k in enumerate(keys)}
            pkeys = sorted(cm["exps"])
            reuse = {k: (pkeys[i] if i < len(pkeys) else "__s%d__" % i) for i, k in enumerate(keys)}
            for naming, mp in (("fresh", fresh), ("reuse", reuse)):
                if naming == "reuse" and (not keys or mp == fresh):
                    continue
                pats.append((_rename_exps(dd.pattern, mp),
                             {"vars": dict(dd.vars), "exps": {mp[k]: v for k, v in exps_rel.items()},
                              "needs_agreement": bool(shared), "agrees": agrees, "naming": naming}))
    for k in sorted(d.vars)[:1]:
        pats.append((k, None))                       # a placeholder the parent has already bound
        pats.append(("%s + ___" % k, None))
    pats.append(("_zz_", None))
    for pat, expect in pats:
        routes = [("sub", False), ("sub", True)]
        if expect is not None and rng.random() < 0.5:
            routes.append(("prev", True))
        for api, prev in routes:
            exp2 = expect
            if expect is not None:
                if expect.get("needs_agreement") and prev and not expect.get("agrees"):
                    exp2 = None                  # the inherited binding differs: nothing is demanded
                    count("sub:inherited-var-differs")
                else:
                    where = anchor if api == "prev" else ()
                    exp2 = {"vars": expect["vars"],
                            "exps": {k: [tuple(where) + tuple(x) for x in v] for k, v in expect["exps"].items()},
                            "naming": expect.get("naming", "plain")}
            out.append(({"pattern": pat, "code": c["code"], "origin": c["origin"].split(":")[0] + ":sub",
                         "setup": c["setup"], "api": api, "spelling": c.get("spelling", "plain"),
                         "use_previous": prev, "parent_pattern": c["pattern"], "parent_key": key,
                         "sub_expect": exp2},
                        dict(api=api, anchor=anchor, parent=parent, key=key, use_previous=prev)))
    return out


# --------------------------------------------------------------------------
# continued matches: a pattern rooted at ANY node kind, searched with an earlier match inherited

def _kind_key(node):
    k = type(node).__name__
    if isinstance(node, (ast.BinOp, ast.UnaryOp, ast.BoolOp, ast.AugAssign)):
        k += ":" + type(node.op).__name__
    return k


def _root_kind(pattern):
    """kind of the node find_matches takes as the pattern's root (Module / Expr with one child trimmed away)"""
    n = ast.parse(pattern)
    while isinstance(n, (ast.Module, ast.Expr)):
        kids = n.body if isinstance(n, ast.Module) else [n.value]
        if len(kids) != 1:
            break
        n = kids[0]
    return _kind_key(n)


def _binds_as(cm, want):
    """the canonical match binds every key of `want` to exactly that identifier"""
    for k, x in want.items():
        ids = [i for (_, kk), lst in cm["binds"].items() if kk == k for (i, _) in lst]
        if not ids or any(i != x for i in ids):
            return False
    return True


def derive_parent(rng, code, tree):
    """a parent pattern that binds much: (a compound statement of) the program with most identifiers replaced by
    placeholders, a subsequence of every long body kept, 0-2 sub-expressions / statements turned into __e__ / ___"""
    dv = cc._Deriver(rng, code, tree)
    compound = [st for st, _ in dv.statements() if hasattr(st, "body")]
    if compound and rng.random() < 0.6:
        dv.take_statement(rng.choice(compound))
    for b in dv.bodies(3):
        if rng.random() < 0.7:
            dv.keep_subsequence(b, set(rng.sample(range(len(b)), rng.randint(1, 2))))
    ids = dv.identifiers()
    chosen = [x for x in ids if rng.random() < 0.6] or ids[:1]
    for x in chosen:
        dv.step_var(x)
    for _ in range(rng.choice([0, 1, 1, 2])):
        dv.step_wild(named=rng.random() < 0.7)
    return dv.finish()


def derive_child(rng, code, tree, target, bound, variant):
    """the continued pattern: the subtree `target` (an expression, a statement, or a list of statements of one body -
    nodes of the ORIGINAL tree) with the identifiers the parent bound replaced by the PARENT'S placeholder names
    (variant "consistent"), or with a parent's placeholder put where the program has ANOTHER identifier (variant
    "conflict": whatever it matches must still agree with the inherited binding); other identifiers sometimes
    become fresh placeholders, 0-2 sub-expressions ___ / __e__."""
    dv = cc._Deriver(rng, code, tree)
    exclude = set()
    if isinstance(target, list):
        dv.take_statements([dv.copy_of[id(st)] for st in target])
    elif isinstance(target, ast.stmt):
        dv.take_statement(dv.copy_of[id(target)])
    else:
        exclude = {id(dv.take_expr(target))}
    inv = {ident: key for key, ident in bound.items()}
    ids = dv.identifiers()
    if variant == "consistent":
        if not any(i in inv for i in ids):
            return None
        for ident in ids:
            if ident in inv:
                dv.step_var(ident, key=inv[ident])
    else:
        others = [i for i in ids if i not in inv]
        if not others:
            return None
        if rng.random() < 0.5:
            for ident in ids:
                if ident in inv:
                    dv.step_var(ident, key=inv[ident])
        dv.step_var(rng.choice(others), key=rng.choice(sorted(bound)), allow_existing=True)
    for ident in dv.identifiers():
        key = "_%s_" % ident
        if ident not in inv and key not in bound and rng.random() < 0.3:
            dv.step_var(ident, key=key)
    for _ in range(rng.choice([0, 0, 1, 1, 2])):
        dv.step_wild(exclude=exclude)
    return dv.finish()


def continued_targets(rng, tree, bound_ids, seen, budget, inside=None):
    """nodes of the program to root a continued pattern at: one per node kind (operators told apart), the kinds that
    were used least so far first; plus a pair of statements of one body (a Module-rooted pattern)."""
    groups = {}
    for node in ast.walk(tree):
        if not isinstance(node, (ast.expr, ast.stmt)) or isinstance(node, (ast.Expr, ast.Slice, ast.Starred)):
            continue
        if inside is not None and id(node) not in inside:
            continue
        if isinstance(getattr(node, "ctx", None), (ast.Store, ast.Del)):
            continue
        size = sum(1 for _ in ast.walk(node))
        if size > 60:
            continue
        names = {n.id for n in ast.walk(node) if isinstance(n, ast.Name)} | {n.arg for n in ast.walk(node) if isinstance(n, ast.arg)}
        groups.setdefault(_kind_key(node), []).append((node, bool(names & bound_ids)))
    bodies = [v for n in ast.walk(tree) for f in ("body", "orelse", "finalbody")
              for v in [getattr(n, f, None)] if isinstance(v, list) and len(v) >= 2 and all(isinstance(x, ast.stmt) for x in v)]
    if bodies and inside is None:
        b = rng.choice(bodies)
        i, j = sorted(rng.sample(range(len(b)), 2))
        groups.setdefault("Module", []).append(([b[i], b[j]], True))
    order = sorted(groups, key=lambda k: (seen.get(k, 0), rng.random()))
    out = []
    for k in order[:budget]:
        with_bound = [t for t, has in groups[k] if has]
        out.append((k, rng.choice(with_bound) if with_bound else rng.choice(groups[k])[0]))
    return out


def continued_cases(rng, tier, do, res, cases):
    """Continued matches.  For a program, a PARENT pattern (the binder's own pattern / derived from the program) is
    matched; each parent match that binds as expected is then continued - cait_api.find_matches / find_match(child,
    use_previous=parent match) over the program, parent_match['__e__'].find_matches(child, use_previous=True / False)
    inside the bound subtree - with CHILD patterns rooted at every node kind the program has, which reuse the
    parent's _var_ names (for the same identifier / for another one), reuse or avoid its __expr__ names and have ___.
    Oracles: C10 - a continued match together with the match it continues binds every _name_ to ONE identifier
    (RealRun.embed_matches adds the inherited bindings, Lean checkMatch decides); C11 - a child derived from the
    program consistently with the parent's bindings is found, every placeholder bound to what it replaced."""
    seen = {}
    n_prog, per_parent = {"quick": (30, 6), "thorough": (260, 10)}[tier]

    def run_children(code, tree, origin, pc, pr, mi, children):
        """children: [(pattern, expect {"vars", "exps": {key: [absolute paths]}} | None, [absolute path of the target])]"""
        cm = pr.matches[mi]
        for pat, expect, tpaths in children:
            routes = [("prev", True, None, ())]
            for key, anchor in sorted(cm["exps"].items()):
                if tpaths and all(tuple(tp[:len(anchor)]) == tuple(anchor) and len(tp) >= len(anchor) for tp in tpaths):
                    routes.append(("sub", True, key, anchor))
                    if expect is not None:
                        routes.append(("sub", False, key, anchor))
                    break
            for api, prev, key, anchor in routes:
                exp2 = None
                if expect is not None:
                    cut = len(anchor)
                    exps = {k: [tuple(x[cut:]) for x in v if tuple(x[:cut]) == tuple(anchor)] for k, v in expect["exps"].items()}
                    if all(exps.values()):
                        exp2 = {"vars": expect["vars"], "exps": exps, "naming": "continued"}
                sc = {"pattern": pat, "code": code, "origin": origin + ":continued", "setup": "code", "api": api,
                      "spelling": "plain", "use_previous": prev, "parent_pattern": pc["pattern"], "parent_key": key,
                      "parent_match": mi, "sub_expect": exp2}
                try:
                    do(sc, api=api, anchor=anchor, parent=pr.raw[mi], key=key, use_previous=prev)
                except RuntimeError:
                    res.count("skipped:continued-anchor-mismatch")

    # fixed witnesses first (small)
    for code, ppat, pbinds, cpat, expect in cc.CONT_CORPUS:
        pc = {"pattern": ppat, "code": code, "origin": "corpus:contparent", "setup": "code", "api": "find_matches",
              "spelling": "plain"}
        pr = do(pc)
        if pr is None or pr.exc is not None or not pr.matches:
            continue
        good = [i for i, cm in enumerate(pr.matches) if _binds_as(cm, pbinds)]
        if good:
            kind = _root_kind(cpat)
            seen[kind] = seen.get(kind, 0) + 1
            res.count("continued-root:" + kind)
            run_children(code, None, "corpus", pc, pr, good[0],
                         [(cpat, None if expect is None else {"vars": expect, "exps": {}}, [])])
    sources = []
    cgen = cc.ContGen(rng)
    for i in range(n_prog):
        try:
            code, binder, binds = cgen.program(i)
        except SyntaxError:
            res.count("skipped:continued-program-unparsable")
            continue
        sources.append((code, "cont", [(binder, binds)]))
    other = list(dict.fromkeys(c["code"] for c in cases if c["origin"].split(":")[0] in ("gen", "decoy", "bin")
                               and small_program(c["code"], 150)))
    rng.shuffle(other)
    sources += [(code, "mixed", []) for code in other[:{"quick": 18, "thorough": 160}[tier]]]
    for code, origin, fixed in sources:
        tree = ast.parse(code)
        opath = cc.ast_index(tree)
        parents = [cc.Derived(code, pat, {}, dict(binds), ["binder"], "binder") for pat, binds in fixed]
        try:
            dpar = derive_parent(rng, code, tree)
        except RecursionError:
            dpar = None
        if dpar is not None and dpar.vars:
            parents.append(dpar)
        for dpar in parents:
            pc = {"pattern": dpar.pattern, "code": code, "origin": origin + ":contparent", "setup": "code",
                  "api": "find_matches", "spelling": "plain"}
            if dpar.base != "binder":
                pc["derived"] = dpar          # a binder's own pattern (`pass` for a body) is not one of C11's derivations
            pr = do(pc)
            if pr is None or pr.exc is not None or not pr.matches:
                res.count("continued:parent-does-not-match")
                continue
            good = [i for i, cm in enumerate(pr.matches) if _binds_as(cm, dpar.vars)]
            if not good:
                res.count("continued:parent-binds-otherwise")
                continue
            # a parent whose __e__ stands for a body statement matches once per statement: continue several of them
            chosen = good[:1] + (rng.sample(good[1:], min(2, len(good) - 1)) if len(good) > 1 else [])
            for n_mi, mi in enumerate(chosen):
                bound = dict(dpar.vars)
                children = []
                targets = continued_targets(rng, tree, set(bound.values()), seen, per_parent if n_mi == 0 else 2)
                anchors = [tuple(a) for a in pr.matches[mi]["exps"].values()]
                if anchors:
                    # nodes INSIDE a subtree this parent match bound to an __e__: the node route applies
                    inside = {i for i, pth in opath.items() if any(pth[:len(a)] == a for a in anchors)}
                    targets += continued_targets(rng, tree, set(bound.values()), seen, 3, inside=inside)
                for kind, target in targets:
                    for variant in ("consistent", "conflict") if rng.random() < 0.4 else ("consistent",):
                        try:
                            dd = derive_child(rng, code, tree, target, bound, variant)
                        except (KeyError, RecursionError):
                            dd = None
                        if dd is None or not dd.pattern.strip():
                            res.count("continued:no-child:" + variant)
                            continue
                        keys = sorted(dd.exps)
                        pkeys = sorted(pr.matches[mi]["exps"])
                        if keys and pkeys and rng.random() < 0.5:
                            mp = {k: pkeys[i % len(pkeys)] if i < len(pkeys) else "__s%d__" % i for i, k in enumerate(keys)}
                        else:
                            mp = {k: "__s%d__" % i for i, k in enumerate(keys)}
                        pat = _rename_exps(dd.pattern, mp)
                        expect = None
                        # C11 speaks of the whole program or ONE statement of it (siblings dropped): a sequence of
                        # statements taken from a nested body is judged by C10 only
                        nested_seq = isinstance(target, list) and not all(any(t is st for st in tree.body) for t in target)
                        if nested_seq:
                            res.count("continued:nested-statement-sequence-judged-by-C10-only")
                        if variant == "consistent" and not nested_seq:
                            expect = {"vars": dict(dd.vars),
                                      "exps": {mp[k]: [x for x in (v[0], v[2]) if x is not None] for k, v in dd.exps.items()}}
                        tpaths = [opath[id(t)] for t in (target if isinstance(target, list) else [target])]
                        seen[kind] = seen.get(kind, 0) + 1
                        res.count("continued-root:" + kind)
                        res.count("continued-variant:" + variant)
                        children.append((pat, expect, tpaths))
                run_children(code, tree, origin, pc, pr, mi, children)
    # which node kinds with a handler of their own (in the tree under test) were the root of a continued pattern
    for k in cc.handler_kinds():
        if not any(s == k or s.startswith(k + ":") for s in seen):
            res.count("continued-root-never:" + k + (" (cannot be the root of a pattern given as text)"
                                                     if k in ("Expr", "arg", "arguments") else ""))


# --------------------------------------------------------------------------
# several matches that bind an __expr__ placeholder to the SAME student node - of one call and of successive calls on
# one report - each continued from its own match['__e__']

SHARED_CORPUS = [
    ("a = 1\nb = 2\nprint(a + b)\n", ["_v_ = ___\n__e__"]),
    ("total = 0\nfor x in xs:\n    total = total + x\n", ["for _v_ in ___:\n    __e__", "_v_ = 0\nfor ___ in ___:\n    __e__"]),
    ("lo = 0\nhi = 9\nprint(hi - lo)\n", ["_v_ = ___\n__e__"]),
    ("def f(p, q):\n    return p - q\n", ["def ___(_v_, ___):\n    __e__", "def ___(___, _v_):\n    __e__"]),
]
SHARED_PARENTS = ["_v_ = ___\n__e__", "for _v_ in ___:\n    __e__", "_v_ = 0\nfor ___ in ___:\n    __e__",
                  "def ___(_v_, ___):\n    __e__", "def ___(___, _v_=___):\n    __e__", "___(_v_)\n__e__", "_v_ += ___\n__e__",
                  "while _v_ < ___:\n    __e__", "with ___ as _v_:\n    __e__", "_v_ = _u_ = ___\n__e__", "_u_ = ___\n_v_ = ___\n__e__",
                  "for _v_, _u_ in ___:\n    __e__", "for _u_ in ___:\n    _v_ = ___\n    __e__", "if _v_:\n    ___\nelse:\n    __e__"]


def shared_node_cases(rng, tier, do, res, cases):
    """Programs asked several parent patterns one after the other (one report, as the rules of a grading script);
    EVERY match of every call is kept; matches that bind an __expr__ placeholder to the same student node but their
    _name_ placeholders differently are continued one after the other through match['__e__'].find_matches(child) with
      * the child derived from the bound subtree consistently with THAT match's bindings (C11: found, every placeholder
        bound to what it replaced; C10: an embedding together with the match it continues), and
      * the children derived for the RIVAL matches (the same placeholder name stands for another identifier there:
        whatever is returned must agree with the bindings of the match it was taken from - C10)."""
    n_prog = {"quick": 24, "thorough": 120}[tier]
    sources = [(code, list(pats)) for code, pats in SHARED_CORPUS]
    cgen = cc.ContGen(rng)
    for i in range(n_prog):
        try:
            code, binder, binds = cgen.program(rng.randrange(10 ** 6))
        except SyntaxError:
            continue
        if rng.random() < 0.5:
            y = cc.CONT_IDS[rng.randrange(len(cc.CONT_IDS))][1]
            code = "%s = 0\n%s" % (y, code)         # a rival binding for `_v_ = 0` / `_v_ = ___`
        sources.append((code, ([binder] if "__e__" in binder else []) + rng.sample(SHARED_PARENTS, 3) + SHARED_PARENTS[:1]))
    other = list(dict.fromkeys(c["code"] for c in cases if c["origin"].split(":")[0] in ("gen", "decoy")
                               and small_program(c["code"], 120)))
    rng.shuffle(other)
    for code in other[:{"quick": 14, "thorough": 60}[tier]]:
        sources.append((code, rng.sample(SHARED_PARENTS, 4) + SHARED_PARENTS[:1]))
    n_groups, max_groups = 0, {"quick": 60, "thorough": 250}[tier]
    for code, parents in sources:
        try:
            tree = ast.parse(code)
        except SyntaxError:
            continue
        opath = cc.ast_index(tree)
        by_id = {id(n): n for n in ast.walk(tree)}
        node_of = {pth: by_id[i] for i, pth in opath.items() if i in by_id}
        entries = {}
        for ppat in list(dict.fromkeys(parents)):
            pc = {"pattern": ppat, "code": code, "origin": "shared:parent", "setup": "code", "api": "find_matches",
                  "spelling": "plain"}
            pr = do(pc)
            if pr is None or pr.exc is not None or not pr.matches:
                continue
            for mi, cm in enumerate(pr.matches):
                bound = {}
                for (t, k), lst in cm["binds"].items():
                    ids = {i for i, _ in lst}
                    if t == "v" and len(ids) == 1:
                        bound[k] = next(iter(ids))
                for key, anchor in cm["exps"].items():
                    if bound and tuple(anchor) in node_of:
                        entries.setdefault(tuple(anchor), []).append((pc, pr, mi, key, bound))
        for anchor, group in sorted(entries.items()):
            if len({json.dumps(e[4], sort_keys=True) for e in group}) < 2:
                res.count("shared-node:one-binding-only")
                continue
            if n_groups >= max_groups:
                res.count("shared-node:groups-over-budget")
                continue
            n_groups += 1
            if len(group) > 3:
                # two matches with different bindings first
                first = group[0]
                diff = [e for e in group[1:] if e[4] != first[4]]
                rest = [e for e in group[1:] if e is not diff[0]]
                group = [first, diff[0]] + rng.sample(rest, 1)
            res.count("shared-node:groups")
            top = node_of[anchor]
            if isinstance(top, ast.Expr):
                top = top.value
            inner = [n for n in ast.walk(top) if isinstance(n, (ast.expr, ast.stmt)) and not isinstance(n, (ast.Expr, ast.Slice, ast.Starred))
                     and not isinstance(getattr(n, "ctx", None), (ast.Store, ast.Del)) and sum(1 for _ in ast.walk(n)) <= 40]
            children = []                      # (owner index, pattern, expect | None)
            for gi, (pc, pr, mi, key, bound) in enumerate(group):
                idents = set(bound.values())
                having = [n for n in inner if idents & ({x.id for x in ast.walk(n) if isinstance(x, ast.Name)} |
                                                         {x.arg for x in ast.walk(n) if isinstance(x, ast.arg)})]
                targets = ([top] if top in having else []) + (rng.sample(having, min(2, len(having))) if having else [])
                for target in targets[:2]:
                    try:
                        dd = derive_child(rng, code, tree, target, bound, "consistent")
                    except (KeyError, RecursionError):
                        dd = None
                    if dd is None or not dd.pattern.strip():
                        continue
                    keys = sorted(dd.exps)
                    mp = {k: "__s%d__" % i for i, k in enumerate(keys)}
                    cut = len(anchor)
                    exps = {mp[k]: [tuple(x[cut:]) for x in (v[0], v[2]) if x is not None and tuple(x[:cut]) == anchor]
                            for k, v in dd.exps.items()}
                    expect = {"vars": dict(dd.vars), "exps": exps, "naming": "shared-node"} if all(exps.values()) else None
                    children.append((gi, _rename_exps(dd.pattern, mp), expect))
                for k in sorted(bound)[:1]:
                    children.append((gi, k, None))
            order = list(range(len(group)))
            if rng.random() < 0.5:
                order.reverse()
            before = []
            for gi in order:
                pc, pr, mi, key, bound = group[gi]
                for owner, pat, expect in children:
                    sc = {"pattern": pat, "code": code, "origin": "shared:" + ("own-child" if owner == gi else "rival-child"),
                          "setup": "code", "api": "sub", "spelling": "plain", "use_previous": True,
                          "parent_pattern": pc["pattern"], "parent_key": key, "parent_match": mi,
                          "sub_expect": expect if owner == gi else None, "before": list(before)}
                    try:
                        do(sc, api="sub", anchor=anchor, parent=pr.raw[mi], key=key, use_previous=True)
                    except RuntimeError:
                        res.count("skipped:continued-anchor-mismatch")
                before.append({"parent_pattern": pc["pattern"], "parent_match": mi, "parent_key": key})


def corpus_sub_expect(expect, run):
    """SUB_CORPUS expectation -> {"vars", "exps"}: a value of an __e__ key is the source text of the node it must
    be bound to (any node of the searched tree with that text)."""
    if expect is None:
        return None
    exps = {}
    index = cc.index_of(run.snode)
    texts = {}
    for k, v in expect.items():
        if k.startswith("__"):
            if not texts:
                def walk(n):
                    try:
                        texts.setdefault(ast.unparse(n.astNode), []).append(index[id(n)])
                    except Exception:
                        pass
                    for ch in n.children:
                        walk(ch)
                walk(run.snode)
            exps[k] = texts.get(v, [])
    return {"vars": {k: v for k, v in expect.items() if not k.startswith("__")}, "exps": exps, "naming": "corpus"}


def commutative_left_reuse(pattern, keys):
    """the sub-pattern's root (after Module / Expr trimming) is a + or * whose LEFT operand contains every __e__
    name of `keys`"""
    try:
        t = ast.parse(pattern)
    except SyntaxError:
        return False
    n = t
    while isinstance(n, (ast.Module, ast.Expr)):
        kids = n.body if isinstance(n, ast.Module) else [n.value]
        if len(kids) != 1:
            return False
        n = kids[0]
    if not (isinstance(n, ast.BinOp) and isinstance(n.op, (ast.Add, ast.Mult))):
        return False
    left = {x.id for x in ast.walk(n.left) if isinstance(x, ast.Name)}
    return bool(keys) and all(k in left for k in keys)


def sub_verdict(expect, r):
    """None if the sub-search behaves as C11 demands, else (reason, names of the wrongly bound __e__ keys)."""
    if r.exc is not None:
        return "raises " + r.exc, []
    if not r.matches:
        return "no match", []
    wrong = set()
    for m in r.matches:
        ok = True
        for k, x in expect.get("vars", {}).items():
            ids = [i for (t, kk), lst in m["binds"].items() if kk == k for (i, _) in lst]
            if not ids or any(i != x for i in ids):
                ok = False
        bad_keys = [k for k, paths in expect.get("exps", {}).items() if m["exps"].get(k) not in [tuple(p) for p in paths]]
        if ok and not bad_keys:
            return None
        if ok:
            wrong.update(bad_keys)
    return "no match with the expected bindings", sorted(wrong)


UNPARSABLE = ["def (", "x = ", "if True:\nprint(1)\n", "print('a", "1 +* 2", "x = 1\n  y = 2\n", "\u00a0x = 1",
              "for i in y:\n\tprint(i)\n        print(i)\n", "(", "x = 08"]


def after_bad_parse(rng, c):
    """fresh report: the derived pattern on the program, then CAIT is given an unparsable text on the same report,
    then the same question again.  Returns (case, unparsable text, how it was given, first run, second run)."""
    prog = cc.Program(c["code"], c["setup"])
    first = cc.RealRun(c["pattern"], prog)
    bad = rng.choice(UNPARSABLE)
    try:
        ast.parse(bad)
        bad = "def ("
    except SyntaxError:
        pass
    except Exception:
        bad = "def ("
    via = rng.choice(["find_matches", "find_match", "parse_program"])
    from pedal.cait import cait_api
    try:
        if via == "parse_program":
            cait_api.parse_program(bad, report=prog.report)
        else:
            getattr(cait_api, via)(c["pattern"], student_code=bad, report=prog.report)
    except Exception as e:      # not C11's business (C04-like); the follow-up question still is
        via += " (raised %s)" % type(e).__name__
    second = cc.RealRun(c["pattern"], prog)
    return c, bad, via, first, second


# --------------------------------------------------------------------------
# histories: several questions on one report

GENERIC_PATTERNS = ["_v_ = ___", "for _i_ in ___:\n    pass", "print(__expr__)", "_f_(___)", "_a_ = _a_ + ___",
                    "def _f_(___):\n    pass", "if ___:\n    pass", "__e__ + ___", "_v_", "___ = ___\nprint(___)",
                    "_o_.append(__x__)", "return ___", "while ___:\n    pass", "import _m_"]
AST_KINDS = ["Name", "For", "Assign", "Call", "FunctionDef", "Module", "Constant", "NoSuchNode"]
HISTORY_PAIRS = [
    ("x = 1\nprint(x)\n",
     "count = 0\ntotal = 0\nfor item in items:\n    total = total + item\n    count = count + 1\nprint(total / count)\n"),
    ("a = []\na.append(1)\n", "a = []\nb = 2\na.append(b)\nprint(a)\n"),
    ("def f(x):\n    return x + 1\n", "\ndef f(x):\n    return x + 1\n"),
    ("for i in r:\n    t = t + i\n", "for k in r:\n    t = t + k\nprint(t)\n"),
    ("print(1)\ny = 2", "print( 1)\ny = 2\n"),
    ("x = [1]\nprint(x)\n", "x = [1]\nprint(x)\n# x = [2]\nx = [3]\n"),
]


def history_corpus():
    """fixed witnesses, run on every run: A / B / A with explicit code (a pattern that occurs only in B, a pattern with
    bindings), the submission / other code / the submission again, B / A / B, the same through parse_program roots,
    across expire_cait_cache, set_source / restore_code and an unparsable text."""
    a, b = HISTORY_PAIRS[0]
    loop, assign, call = "for _i_ in ___:\n    pass", "_v_ = ___", "print(__expr__)"

    def q(text, pattern, op="find_matches", spell="kw"):
        if text is None:
            return {"op": op, "target": "sub", "pattern": pattern, "spell": "omit"}
        return {"op": op, "target": "code", "code": text, "pattern": pattern, "spell": spell}
    none = {"setup": "none", "main": None, "global": False}
    out = []
    for pat in (loop, assign, call):
        out.append({"reports": [none], "steps": [q(a, pat), q(b, pat, spell="pos"), q(a, pat)]})
        out.append({"reports": [none], "steps": [q(b, pat), q(a, pat), q(b, pat, "find_match")]})
        out.append({"reports": [none], "steps": [q(a, pat, "node"), q(b, pat, "node"), q(a, pat, "node"), q(a, pat, "held")]})
        for setup in ("submission", "source"):
            rep = {"setup": setup, "main": a, "global": False}
            out.append({"reports": [rep], "steps": [q(None, pat, "find_match"), q(b, pat, "find_match"), q(None, pat, "find_match"),
                                                    q(a, pat), {"op": "expire"}, q(b, pat), q(None, pat)]})
            out.append({"reports": [rep], "steps": [q(None, pat), {"op": "set_source", "code": b}, q(None, pat), q(a, pat),
                                                    {"op": "restore"}, q(None, pat), q(b, pat)]})
            out.append({"reports": [rep, dict(rep, main=b)],
                        "steps": [dict(q(None, pat), r=0), dict(q(None, pat), r=1), dict(q(a, pat), r=1), dict(q(None, pat), r=1),
                                  dict(q(None, pat), r=0)]})
        out.append({"reports": [none], "steps": [q(a, pat), q("def (", pat), q(b, pat), q("def (", pat, "find_match"), q(a, pat)]})
    return [(spec, {}) for spec in out]


def twins(rng, code):
    """parsable texts that differ from `code` as little as possible: same tree on other lines / columns, one more or
    one fewer statement, one identifier or constant changed, other line terminators, a prefix of it"""
    lines = code.split("\n")
    cands = [code + "# tail\n", "\n" + code, code.rstrip("\n"), code + "\n\n", code.replace("\n", "\r\n"),
             code + ("" if code.endswith("\n") else "\n") + "zz = 0\n", "zz = 0\n" + code, "\x0c" + code,
             re.sub(r"\b1\b", "2", code, count=1), re.sub(r"\b(a|x|total|item)\b", "q", code, count=1),
             re.sub(r"\b(a|x|total|item)\b", "q", code), "\n".join(lines[:max(1, len(lines) // 2)]) + "\n",
             code.replace(" = ", "  =  ", 1), code + " ", "if 1:\n" + _indent_text(code)]
    out = []
    for c in cands:
        if c == code or c in out:
            continue
        try:
            ast.parse(c)
        except (SyntaxError, ValueError):
            continue
        out.append(c)
    rng.shuffle(out)
    return out


def _indent_text(code):
    return "".join("    " + ln + "\n" if ln.strip() else ln + "\n" for ln in code.rstrip("\n").split("\n"))


def own_patterns(rng, code, n=3):
    """[(pattern, Derived)] derived from `code` by C11's steps (the last one is the fragment itself)."""
    try:
        tree = ast.parse(code)
    except (SyntaxError, ValueError):
        return []
    out = []
    for i in range(n):
        try:
            d = cc.derive(rng, code, tree, max_steps=0 if i == n - 1 else 4)
        except RecursionError:
            d = None
        if d is not None and d.pattern.strip() and not re.fullmatch(r"___|__e\d*__", d.pattern.strip()):
            out.append((d.pattern, d))
    return out


def small_program(code, limit=120):
    try:
        return sum(1 for _ in ast.walk(ast.parse(code))) <= limit
    except (SyntaxError, ValueError, RecursionError):
        return False


def gen_histories(rng, tier, progs):
    """Random histories.  A pool of 2-5 texts (programs, near-twins of them, sometimes an unparsable text or the
    empty program), one or two reports (no submission / a Submission / Submission + Source.verify(); pedal's
    MAIN_REPORT with `report=` left out), 3-9 steps: questions (find_matches / find_match / parse_program(...).
    find_matches / a root kept from an earlier parse_program) about a pool text given explicitly (keyword or
    positional) or about the submission (student_code left out or None), asked AGAIN later (cache hits), with
    parse_program / find_asts / expire_cait_cache / reset / set_source / restore_code in between.
    Returns [(spec, {step index: Derived})]."""
    n = {"quick": 110, "thorough": 2200}[tier]
    base = [p for p in progs if small_program(p)]
    base += [c for _, c in cc.CORPUS_PAIRS if c.strip()] + [c for c, _, _ in cc.CORPUS_DERIVED]
    out = []
    for _ in range(n):
        a = rng.choice(base)
        pool = [a]
        for _ in range(rng.randint(1, 3)):
            k = rng.random()
            if k < 0.45:
                tw = twins(rng, rng.choice(pool))
                if tw:
                    pool.append(tw[0])
                    continue
            if k < 0.9:
                pool.append(rng.choice(base))
            elif k < 0.97:
                pool.append(rng.choice(UNPARSABLE))
            else:
                pool.append(rng.choice(["", "\n", "# nothing\n"]))
        pool = list(dict.fromkeys(pool))
        own = {p: own_patterns(rng, p) for p in pool}
        all_own = [x for p in pool for x in own[p]]
        if not all_own:
            continue
        reports = []
        for _ in range(1 if rng.random() < 0.7 else 2):
            setup = rng.choice(["none", "submission", "source"])
            reports.append({"setup": setup, "main": rng.choice(pool) if setup != "none" else None,
                            "global": False})
        if rng.random() < 0.25:
            reports[rng.randrange(len(reports))]["global"] = True
        steps, deriveds, asked = [], {}, []
        has_sub = [r["setup"] != "none" for r in reports]
        depth = [0] * len(reports)
        for i in range(rng.randint(3, 9)):
            r = rng.randrange(len(reports))
            k = rng.random()
            st = {"r": r}
            if k < 0.66:
                st["op"] = rng.choice(["find_matches", "find_matches", "find_matches", "find_match", "node", "held"])
                if has_sub[r] and rng.random() < 0.4:
                    st["target"] = "sub"
                    st["spell"] = rng.choice(["omit", "none"])
                    target_text = None
                else:
                    st["target"] = "code"
                    # come back to something this history has already asked about: cache hits
                    st["code"] = rng.choice(asked) if asked and rng.random() < 0.5 else rng.choice(pool)
                    st["spell"] = rng.choice(["kw", "pos"])
                    target_text = st["code"]
                    asked.append(st["code"])
                q = rng.random()
                if target_text is not None and own.get(target_text) and q < 0.5:
                    st["pattern"], deriveds[i] = rng.choice(own[target_text])
                elif q < 0.8:
                    st["pattern"] = rng.choice(all_own)[0]          # usually taken from ANOTHER text of the pool
                elif q < 0.95:
                    st["pattern"] = rng.choice(GENERIC_PATTERNS)
                else:
                    st["pattern"] = cc.mutate_pattern(rng, rng.choice(all_own)[0]) or rng.choice(GENERIC_PATTERNS)
            elif k < 0.80:
                st["op"] = rng.choice(["parse_program", "find_asts"])
                st["kind"] = rng.choice(AST_KINDS)
                if has_sub[r] and rng.random() < 0.3:
                    st["target"] = "sub"
                else:
                    st["target"], st["code"] = "code", rng.choice(pool)
                    asked.append(st["code"])
            elif k < 0.88:
                st["op"] = "expire" if rng.random() < 0.8 else "reset"
            elif k < 0.96 or not depth[r]:
                st["op"], st["code"] = "set_source", rng.choice(pool)
                if has_sub[r]:
                    depth[r] += 1
                has_sub[r] = True
            else:
                st["op"] = "restore"
                depth[r] -= 1
            steps.append(st)
        out.append(({"reports": reports, "steps": steps}, deriveds))
    return out


def history_scope(rng, tier):
    """Small-scope EXHAUSTIVE histories over two programs A, B: every sequence of at most k steps over
    {ask about A, ask about B, ask about the submission, an unparsable text, expire_cait_cache, find_asts(B),
    parse_program(B), set_source(B), restore_code}, followed by four closing questions (A explicitly and the
    submission, each with a pattern taken from A and one taken from B), on a report without submission, with the
    submission A, and with the submission A after Source.verify()."""
    k, n_pairs = {"quick": (2, 2), "thorough": (3, 4)}[tier]
    # always one pair of really different programs and one pair of near-twins (same tree on other lines / in another
    # text), then whatever else
    distinct = [p for p in HISTORY_PAIRS if not p[1].strip().startswith(p[0].strip()[:8])]
    twin = [p for p in HISTORY_PAIRS if p not in distinct]
    rng.shuffle(distinct)
    rng.shuffle(twin)
    pairs = [distinct[0], twin[0]] + distinct[1:] + twin[1:]
    out = []
    alphabet = ["qA", "qB", "qS", "bad", "expire", "astsB", "parseB", "setB", "restore"]
    for a, b in pairs[:n_pairs]:
        if rng.random() < 0.5:
            a, b = b, a
        own = {}
        for x in (a, b):
            cands = [pd for pd in own_patterns(rng, x, 6) if pd[1].steps] or own_patterns(rng, x, 1)
            own[x] = cands[0]
        bad = rng.choice(UNPARSABLE)
        count = 0
        for length in range(k + 1):
            for seq in itertools.product(alphabet, repeat=length):
                for setup in ("none", "submission", "source"):
                    if setup == "none" and ("restore" in seq or ("qS" in seq and "setB" not in seq)):
                        continue
                    count += 1
                    steps, deriveds = [], {}
                    current = a if setup != "none" else None

                    def ask(text, target, which, op="find_matches"):
                        st = {"op": op, "target": target, "spell": ("kw", "pos", "omit", "none")[(count + len(steps)) % 4]}
                        if target == "code":
                            st["code"] = text
                            if st["spell"] in ("omit", "none"):
                                st["spell"] = "kw"
                        st["pattern"], d = own[which]
                        if which == text:
                            deriveds[len(steps)] = d
                        steps.append(st)
                    stack = []
                    for j, sym in enumerate(seq):
                        op = ("find_matches", "find_match", "node")[(count + j) % 3]
                        if sym == "qA":
                            ask(a, "code", (a, b)[(count + j) % 2], op)
                        elif sym == "qB":
                            ask(b, "code", (b, a)[(count + j) % 2], op)
                        elif sym == "qS":
                            if current is not None:
                                ask(current, "sub", (a, b)[(count + j) % 2], op)
                        elif sym == "bad":
                            steps.append({"op": ("find_matches", "find_match", "parse_program", "find_asts")[(count + j) % 4],
                                          "target": "code", "code": bad, "pattern": own[a][0], "kind": "Name"})
                        elif sym == "expire":
                            steps.append({"op": "expire"})
                        elif sym == "astsB":
                            steps.append({"op": "find_asts", "target": "code", "code": b, "kind": "Name"})
                        elif sym == "parseB":
                            steps.append({"op": "parse_program", "target": "code", "code": b})
                        elif sym == "setB":
                            steps.append({"op": "set_source", "code": b})
                            if current is not None:
                                stack.append(current)
                            current = b
                        elif sym == "restore":
                            if not stack:
                                break
                            steps.append({"op": "restore"})
                            current = stack.pop()
                    else:
                        ask(a, "code", a)
                        ask(a, "code", b)
                        if current is not None:
                            ask(current, "sub", a)
                            ask(current, "sub", b)
                        out.append(({"reports": [{"setup": setup, "main": a if setup != "none" else None,
                                                  "global": count % 7 == 0}], "steps": steps}, deriveds))
    return out


def correspond(prop):
    def run(rng, tier, driver):
        res = CorrResult()
        res.rule = ("non-trivial = (pattern, program) pair on which the real find_matches returns at least one "
                    "match; compared per match: match_root, mappings (pattern path -> student path), "
                    "exp_table, the three symbol tables (ids and nodes, in order), conflict keys; list order kept; "
                    "find_match must be find_matches[0]; a repeated call must repeat the answer")
        cases = gen_cases(rng, tier, prop)
        runs = []
        programs = {}
        stale = STATE["stale"] = []

        def do(c, **kw):
            try:
                prog = programs.get((c["code"], c["setup"]))
                if prog is None:
                    prog = programs[(c["code"], c["setup"])] = cc.Program(c["code"], c["setup"])
                if prog.size > 60 and re.fullmatch(r"___|pass|__e\d*__", c["pattern"].strip()):
                    res.count("skipped:bare-wildcard-on-large-program")
                    return None
                if kw:
                    r = cc.RealRun(c["pattern"], prog, **kw)
                else:
                    r = cc.RealRun(c["pattern"], prog, api=c["api"], first=c.get("first", True))
            except (SyntaxError, RecursionError):
                res.count("skipped:unparsable")
                return None
            runs.append((c, r))
            return r
        # matches within matches on fixed inputs (kept first: their witnesses are small)
        for ppat, code, key, spat, expect in cc.SUB_CORPUS:
            pc = {"pattern": ppat, "code": code, "origin": "corpus:subparent", "setup": "code", "api": "find_matches",
                  "spelling": "plain"}
            pr = do(pc)
            if pr is None or pr.exc is not None or not pr.matches or key not in pr.matches[0]["exps"]:
                continue
            for api, prev in (("sub", False), ("sub", True), ("prev", True)):
                sc = {"pattern": spat, "code": code, "origin": "corpus:sub", "setup": "code", "api": api,
                      "spelling": "plain", "use_previous": prev, "parent_pattern": ppat, "parent_key": key,
                      "sub_expect": None}
                sr = do(sc, api=api, anchor=pr.matches[0]["exps"][key], parent=pr.raw[0], key=key, use_previous=prev)
                if sr is not None:
                    sc["sub_expect"] = corpus_sub_expect(expect, sr)
        if "shared" not in _OFF:
            shared_node_cases(rng, tier, do, res, cases)
        continued_cases(rng, tier, do, res, cases)
        for c in cases:
            r = do(c)
            if r is None:
                continue
            if r.exc is None and rng.random() < 0.1:
                # multi-step: the same question again on the same report
                r2 = cc.RealRun(c["pattern"], r.program, api=c["api"])
                res.count("repeated-call")
                if r2.exc is not None or r2.matches != r.matches:
                    res.disagreements.append({"case": {"pattern": c["pattern"], "code": c["code"]},
                                              "real": "second call differs", "model": "-", "fields": ["repeat"]})
            p_sub = (0.5 if tier == "quick" else 0.3) * (0.25 if c["origin"].startswith("bin:") else
                                                         0.1 if c["origin"].startswith(("field:", "spelling:")) else 1)
            if rng.random() < p_sub:
                for sc, kw in sub_cases(rng, c, r, res.distribution):
                    do(sc, **kw)
            if (c.get("derived") is not None and r.exc is None and r.matches and r.api == "find_matches"
                    and r.program.size <= 200 and rng.random() < (0.10 if tier == "quick" else 0.05)):
                # multi-step: the grader looks at some OTHER, unparsable text in between (same report), then asks
                # the same question about the valid program again
                stale.append(after_bad_parse(rng, c))
                res.count("after-unparsable-text")
        # C11's last sentence: generalise patterns that MATCH (whether or not they were taken from the program)
        p_mono = 0.5 if tier == "quick" else 0.25
        for c, r in list(runs):
            if r.exc is not None or not r.matches or r.api in ("sub", "prev") or c.get("mono_parent") is not None:
                continue
            gens = list(c.get("generalisations", []))
            if not gens and rng.random() < p_mono * (0.2 if c["origin"].startswith(("spelling:", "field:")) else 1):
                try:
                    d = cc.derive(rng, c["pattern"], ast.parse(c["pattern"]), whole=True, max_steps=2)
                except (SyntaxError, RecursionError):
                    d = None
                if d is not None and d.steps and d.pattern != c["pattern"]:
                    gens.append(d.pattern)
            for g in gens:
                do({"pattern": g, "code": c["code"], "origin": c["origin"].split(":")[0] + ":generalised",
                    "setup": c["setup"], "api": "find_matches", "spelling": c.get("spelling", "plain"),
                    "mono_parent": c["pattern"], "mono_cross": cc.cross_field_pairs(r)})
        # several questions on ONE report: every judged step is a case of its own (asked program = the text the
        # step asked about, as recorded by the harness), compared with the model and given to both searches
        hnotes = {}
        pool = list(dict.fromkeys(c["code"] for c in cases if c["origin"].split(":")[0] in ("gen", "decoy")))
        for spec, deriveds in history_corpus() + gen_histories(rng, tier, pool) + history_scope(rng, tier):
            try:
                steps = cc.run_history(spec, hnotes)
            except (SyntaxError, RecursionError):
                res.count("skipped:history-unparsable")
                continue
            res.count("histories")
            for i, (st, r) in enumerate(zip(spec["steps"], steps)):
                if r is None:
                    continue
                rep = spec["reports"][st.get("r", 0) % len(spec["reports"])]
                c = {"pattern": st["pattern"], "code": r.code, "origin": "history:" + st["op"],
                     "setup": "history-" + rep["setup"] + ("-MAIN_REPORT" if rep.get("global") else ""),
                     "api": r.api, "spelling": "plain", "history": spec, "step": i}
                if i in deriveds:
                    c["derived"] = deriveds[i]
                res.count("history-step:" + ("revisit" if any(
                    s2.get("code") == st.get("code") and s2.get("target") == st.get("target") and
                    s2.get("r", 0) == st.get("r", 0) for s2 in spec["steps"][:i] if "target" in s2) else "first-visit"))
                if r.ref.ast is None:
                    res.count("history-step:unparsable-text-asked")
                runs.append((c, r))
        for k, v in hnotes.items():
            res.count(k, v)
        to_model = [(c, r) for c, r in runs if r.compare_model]
        answers = dict(zip((id(r) for _, r in to_model), driver.ask([r.request() for _, r in to_model])))
        # is the derived case inside the domain of the C11 theorem?  (genCase, decided by the driver)
        gen_cases_ = []
        for c, r in runs:
            d = c.get("derived")
            if d is None or r.api in ("sub", "prev"):
                continue
            al = d.align
            if al is None and d.base == "corpus" and r.exc is None and r.matches:
                # hand-made corpus derivations carry no alignment: take the first real match's node pairs, and
                # its exp_table for identifiers of the program that happen to look like __e__ placeholders
                al = r.matches[0]["maps"]
                d.exps = dict({k: (v, "", None) for k, v in r.matches[0]["exps"].items()}, **d.exps)
            if al is None:
                r.gen = "no-alignment"
                continue
            d.align = al
            gen_cases_.append((r, d))
        verdicts = driver.ask([d.gen_request(r.penc, r.senc) for r, d in gen_cases_])
        again = [(r, d) for (r, d), a in zip(gen_cases_, verdicts)
                 if a != "ok 1" and any(len(v) > 2 and v[2] is not None for v in d.exps.values())]
        second = dict(zip((id(r) for r, _ in again),
                          driver.ask([d.gen_request(r.penc, r.senc, statement_exps=False) for r, d in again])))
        for (r, d), a in zip(gen_cases_, verdicts):
            if a != "ok 1" and second.get(id(r)) == "ok 1":
                a = "ok 1"
            r.gen = "covered" if a == "ok 1" else a[5:] if a.startswith("ok 0 ") else a
        for c, r in runs:
            res.evaluations += 1
            res.count("origin:" + c["origin"].split(":")[0] + ":" + c["origin"].split(":")[-1])
            res.count("setup:" + c["setup"])
            res.count("api:" + r.api + (":use_previous" if r.use_previous else ""))
            res.count("spelling:" + c.get("spelling", "plain"))
            case = {k: c[k] for k in ("pattern", "code", "setup", "api", "use_previous", "parent_pattern", "parent_key",
                                      "parent_match", "history", "step") if k in c}
            if r.exc is not None:
                res.count("real-raises:" + r.exc)
                res.disagreements.append({"case": case, "real": "raises " + r.exc, "model": "-", "fields": ["exception"]})
                continue
            if r.first_differs:
                res.disagreements.append({"case": case, "real": "find_match is not find_matches[0]", "model": "-",
                                          "fields": ["find_match"]})
            n = len(r.matches)
            res.count("matches:" + ("0" if n == 0 else "1" if n == 1 else "2-5" if n <= 5 else ">5"))
            if n:
                res.nontrivial.add((c["pattern"], c["code"], r.api, r.anchor))
                if len(res.samples) < 4:
                    res.samples.append({"pattern": c["pattern"], "code": c["code"][:200], "matches": n,
                                        "first": cc.show_match(r.matches[0])})
            if not r.compare_model:
                res.count("not-modelled:" + getattr(r, "not_modelled", "use_previous"))
                continue
            model = cc.parse_model_matches(answers[id(r)])
            if r.api == "find_match" and not isinstance(model, str):
                model = model[:1]                 # a history step that asked find_match: the first match only
            diffs = cc.compare(r.matches, model)
            if diffs:
                res.disagreements.append({"case": case,
                                          "real": [cc.show_match(m) for m in r.matches[:3]],
                                          "model": [cc.show_match(m) for m in model[:3]] if not isinstance(model, str) else model,
                                          "fields": diffs[:6], "origin": c["origin"]})
        STATE["runs"] = runs
        STATE["skips"] = {k: v for k, v in res.distribution.items() if k.startswith(("skipped", "not-modelled"))}
        return res
    return run


# --------------------------------------------------------------------------
# shrinking

def _stmt_removals(src):
    """sources with one statement removed (from any body that keeps >= 1 statement; orelse/finalbody may empty)."""
    try:
        tree = ast.parse(src)
    except SyntaxError:
        return
    n_lists = 0
    for node in ast.walk(tree):
        for field in ("body", "orelse", "finalbody"):
            v = getattr(node, field, None)
            if isinstance(v, list) and v and all(isinstance(s, ast.stmt) for s in v):
                n_lists += 1
    seen = 0
    for li in range(n_lists):
        t = ast.parse(src)
        k = 0
        target = None
        for node in ast.walk(t):
            for field in ("body", "orelse", "finalbody"):
                v = getattr(node, field, None)
                if isinstance(v, list) and v and all(isinstance(s, ast.stmt) for s in v):
                    if k == li:
                        target = (node, field, v)
                    k += 1
        if target is None:
            continue
        node, field, v = target
        minimum = 1 if (field == "body" and not isinstance(node, ast.Module)) else 0
        for i in range(len(v)):
            if len(v) - 1 < minimum:
                continue
            t2 = ast.parse(src)
            k = 0
            for node2 in ast.walk(t2):
                for field2 in ("body", "orelse", "finalbody"):
                    v2 = getattr(node2, field2, None)
                    if isinstance(v2, list) and v2 and all(isinstance(s, ast.stmt) for s in v2):
                        if k == li:
                            del v2[i]
                        k += 1
            try:
                out = ast.unparse(t2)
                ast.parse(out)
            except Exception:
                continue
            seen += 1
            yield out


def shrink(pattern, code, still_fails, budget=150):
    """greedy statement removal on the program, then on the pattern."""
    changed = True
    while changed and budget > 0:
        changed = False
        for cand in _stmt_removals(code):
            budget -= 1
            if budget <= 0:
                break
            try:
                if cand.strip() and still_fails(pattern, cand):
                    code = cand
                    changed = True
                    break
            except Exception:
                continue
        if changed:
            continue
        for cand in _stmt_removals(pattern):
            budget -= 1
            if budget <= 0:
                break
            try:
                if cand.strip() and still_fails(cand, code):
                    pattern = cand
                    changed = True
                    break
            except Exception:
                continue
    return pattern, code


def shrink_history(spec, idx, still, budget=400):
    """greedy: cut what follows the failing step, then drop earlier steps one at a time, then the unused reports'
    submissions; `still(spec, idx)` says whether step idx still fails."""
    spec = json.loads(json.dumps(spec))
    spec["steps"] = spec["steps"][:idx + 1]
    changed = True
    while changed and budget > 0:
        changed = False
        for j in range(len(spec["steps"]) - 1):
            cand = dict(spec, steps=spec["steps"][:j] + spec["steps"][j + 1:])
            budget -= 1
            try:
                ok = still(cand, idx - 1)
            except Exception:
                ok = False
            if ok:
                spec, idx, changed = cand, idx - 1, True
                break
    if len(spec["reports"]) > 1:
        used = sorted({st.get("r", 0) % len(spec["reports"]) for st in spec["steps"]})
        if len(used) == 1:
            cand = {"reports": [spec["reports"][used[0]]], "steps": [dict(st, r=0) for st in spec["steps"]]}
            try:
                if still(cand, idx):
                    spec = cand
            except Exception:
                pass
    # the plainest report on which it still fails: a custom Report, no Source.verify(), no submission at all
    for i in range(len(spec["reports"])):
        rep = spec["reports"][i]
        mine = [st for st in spec["steps"] if st.get("r", 0) % len(spec["reports"]) == i]
        tries = [dict(rep, **{"global": False})] if rep.get("global") else []
        if rep["setup"] == "source":
            tries.append(dict(rep, **{"global": False, "setup": "submission"}))
        if rep["setup"] != "none" and not any(st.get("target") == "sub" or st["op"] in ("restore", "set_source") for st in mine):
            tries.append({"global": False, "setup": "none", "main": None})
        for t in tries:
            cand = dict(spec, reports=spec["reports"][:i] + [t] + spec["reports"][i + 1:])
            try:
                if still(cand, idx):
                    spec = cand
            except Exception:
                pass
    return spec, idx


# --------------------------------------------------------------------------
# C10 search: the embedding oracle on every real match

def embed_verdicts(driver, run):
    if run.exc is not None or not run.matches:
        return []
    a = driver.ask([run.embed_request()])[0].split(" ")
    if a[0] != "ok" or len(a) != 1 + len(run.matches):
        return [False] * len(run.matches)
    return [x == "1" for x in a[1:]]


def rerun(case):
    """re-execute a stored case dict on the real code"""
    prog = cc.Program(case["code"], case.get("setup", "code"))
    for b in case.get("before") or []:
        # matches looked up earlier on the same report: match['__e__'] hands out (and tags) the cached student node
        bp = cc.RealRun(b["parent_pattern"], prog)
        if bp.raw and b["parent_match"] < len(bp.raw):
            bp.raw[b["parent_match"]][b["parent_key"]]
    if case.get("api") in ("sub", "prev"):
        parent = cc.RealRun(case["parent_pattern"], prog)
        key = case.get("parent_key")
        mi = case.get("parent_match", 0)
        return cc.RealRun(case["pattern"], prog, api=case["api"],
                          anchor=parent.matches[mi]["exps"][key] if key is not None else (),
                          parent=parent.raw[mi], key=key, use_previous=case.get("use_previous", False))
    return cc.RealRun(case["pattern"], prog, api=case.get("api", "find_matches"))


CASE_KEYS = ("pattern", "code", "setup", "api", "use_previous", "parent_pattern", "parent_key", "parent_match", "before")


def search_c10(rng, tier, broken, corr):
    from common import Driver
    driver = Driver("driver_c10")
    runs = STATE.get("runs", [])
    info = {"evaluations": 0, "distinct_nontrivial": 0,
            "rule": "oracle = Lean checkMatch (kind/content/child-of-partner/order/placeholder bindings) evaluated by the "
                    "driver on every AstMap returned by the real find_matches / find_match / CaitNode.find_matches "
                    "(sub-matches with the parent's bindings included) - on a fresh report and as a step of a HISTORY on one "
                    "report (the same and other programs asked before, cache hits, submission vs explicit student_code, "
                    "unparsable texts, expire_cait_cache, set_source / restore_code, Source.verify, MAIN_REPORT, two reports "
                    "alternating), where the program a match must embed into is a fresh ast.parse of the text THAT step "
                    "asked about: every matched node must be a node of that tree (same dump with positions); "
                    "a CONTINUED match (find_matches / find_match(child, use_previous=match), match['__e__'].find_matches("
                    "child, use_previous=True)) is judged together with the bindings of the match it continues (they are "
                    "added to its symbol tables before checkMatch: one identifier per _name_ across both), for child "
                    "patterns rooted at every node kind the programs have (each operator of BinOp / UnaryOp / BoolOp / "
                    "AugAssign apart; kinds with a handler of their own in the matcher under test are listed in the "
                    "distribution as continued-root / continued-root-never) that reuse the parent's _var_ names for the "
                    "same and for another identifier; non-trivial = a real match",
            "samples": [], "skips": STATE.get("skips", {})}
    failures = []
    if not driver.available:
        info["skipped"] = "driver missing"
        return failures, info
    owners = [(c, r) for c, r in runs if r.exc is None and r.matches]
    answers = driver.ask([r.embed_request() for _, r in owners])
    info["distinct_nontrivial"] = len({(c["pattern"], c["code"], r.api, r.anchor, r.use_previous) for c, r in owners})
    bad = {}
    for (c, r), a in zip(owners, answers):
        toks = a.split(" ")
        info["evaluations"] += len(r.matches)
        if toks[0] != "ok" or len(toks) != 1 + len(r.matches) or "0" in toks[1:]:
            bad.setdefault((c["pattern"], c["code"], r.api, r.use_previous), (c, r, a))
    hist_bad = sorted(((c, r, a) for c, r, a in bad.values() if c.get("history") is not None),
                      key=lambda x: len(json.dumps(x[0]["history"])))
    for c, r, a in hist_bad[:1]:
        def still(spec, idx):
            rr = cc.run_history(spec)[idx]
            if rr is None or rr.exc is not None or not rr.matches:
                return False
            return bool(rr.foreign) or any(not v for v in embed_verdicts(driver, rr))
        spec, idx = shrink_history(c["history"], c["step"], still)
        rr = cc.run_history(spec)[idx]
        st = spec["steps"][idx]
        sig = {"oracle": "embedding", "after": "history-on-one-report",
               "why": "nodes-of-another-tree" if rr.foreign else "not-an-embedding"}
        failures.append(Failure(sig, "step %d of a history on one report, %s(%r) about %s: %s" % (
            idx + 1, st["op"], st["pattern"],
            "the submission %r" % rr.code if st.get("target") == "sub" else "student_code=%r" % rr.code,
            rr.foreign or "returns a match that is not an embedding"),
            {"history": spec, "step": idx, "pattern": st["pattern"], "code": rr.code,
             "match": cc.show_match(rr.matches[0]) if rr.matches else None,
             "match_linenos": [m.match_lineno for m in rr.raw or []]}))
    bad = {k: v for k, v in bad.items() if v[0].get("history") is None}
    # plain questions in run order (they are shrunk); continued matches are not shrunk: the smallest witnesses
    plain = [v for v in bad.values() if v[1].api not in ("sub", "prev")]
    cont = sorted((v for v in bad.values() if v[1].api in ("sub", "prev")),
                  key=lambda v: len(v[0]["code"]) + len(v[0]["pattern"]) + len(v[0].get("parent_pattern", "")))
    info["continued_matches_judged"] = sum(len(r.matches) for c, r in owners if r.api in ("sub", "prev") and r.use_previous)
    for c, r, a in (plain[:3] + cont[:2] if len(plain) >= 3 else plain + cont[:3 - len(plain) + 1]):
        case = {k: c[k] for k in CASE_KEYS if k in c}
        if r.api not in ("sub", "prev"):
            def still(p, s):
                rr = rerun(dict(case, pattern=p, code=s))
                return any(not v for v in embed_verdicts(driver, rr))
            p2, s2 = shrink(case["pattern"], case["code"], still)
            case = dict(case, pattern=p2, code=s2)
        after_other = False
        if case.get("before"):
            alone = {k: v for k, v in case.items() if k != "before"}
            if False in embed_verdicts(driver, rerun(alone)):
                case = alone                  # fails on a fresh report as well: not a matter of what was looked up before
            else:
                after_other = True
        rr = rerun(case)
        vs = embed_verdicts(driver, rr)
        idx = vs.index(False) if False in vs else 0
        sig = {"oracle": "embedding", "pattern": case["pattern"], "code": case["code"]}
        if after_other:
            sig["after"] = "another-match-bound-to-the-same-student-node-was-looked-up-first"
        for k in ("api", "use_previous", "parent_pattern"):
            if case.get(k) not in (None, "find_matches", False):
                sig[k] = case[k]
        if rr.use_previous and rr.parent is not None:
            reused = sorted(k for k in cc.pattern_names(rr.ptree) if k.startswith("__") and k in r.parent.exp_table)
            if commutative_left_reuse(case["pattern"], reused):
                # one root cause whatever the program: a stable signature
                sig = {"oracle": "embedding", "cause": "inherited-binding-overrides-left-operand-of-commutative-root"}
        how, detail = "find_matches(%r)" % case["pattern"], ""
        if rr.api == "prev":
            how = "find_matches(%r, use_previous=<match %d of %r>)" % (case["pattern"], case.get("parent_match", 0),
                                                                         case["parent_pattern"])
        elif rr.api == "sub":
            how = "<match %d of %r>[%r].find_matches(%r, use_previous=%s)" % (
                case.get("parent_match", 0), case["parent_pattern"], case.get("parent_key"), case["pattern"],
                bool(case.get("use_previous")))
        elif rr.api == "node":
            how = "CaitNode.find_matches(%r)" % case["pattern"]
        if rr.use_previous and rr.parent is not None and rr.matches:
            inh = cc.inherited_binds(rr.parent)
            mine = {}
            for (t, k), lst in rr.matches[idx]["binds"].items():
                mine.setdefault(k, set()).update(i for i, _ in lst)
            clash = {k: (sorted(mine[k]), sorted(set(ids))) for (t, k), ids in inh.items()
                     if k in mine and mine[k] - set(ids)}
            if clash:
                sig["why"] = "continued-match-contradicts-inherited-binding"
                detail = "; " + ", ".join("%s is bound to %s, the match it continues binds it to %s" % (k, a_, b_)
                                          for k, (a_, b_) in sorted(clash.items()))
        if after_other:
            detail += "; earlier on the same report: " + ", ".join(
                "<match %d of %r>[%r]" % (b["parent_match"], b["parent_pattern"], b["parent_key"]) for b in case["before"])
        failures.append(Failure(sig, "%s on %r returns a match that is not an embedding%s" % (how, case["code"], detail),
            dict(case, match_index=idx, original={"pattern": c["pattern"], "code": c["code"]},
                 match=cc.show_match(rr.embed_matches()[idx]) if rr.matches else None)))
    if owners:
        c, r = owners[0]
        info["samples"].append({"pattern": c["pattern"], "code": c["code"][:120], "match": cc.show_match(r.matches[0])})
    return failures, info


# --------------------------------------------------------------------------
# C11 search: derived patterns must match with the expected bindings

def search_c11(rng, tier, broken, corr):
    runs = STATE.get("runs", [])
    info = {"evaluations": 0, "distinct_nontrivial": 0,
            "rule": "oracle = a pattern derived from (a statement of) the program by wildcard / __expr__ replacement, "
                    "consistent _var_ renaming and sibling dropping must give >= 1 match, one of which binds every "
                    "placeholder to what it replaced - also on programs with DECOY statements (look-alike instances of "
                    "one template interleaved in every order, a subsequence of a body kept), again after CAIT was given "
                    "an unparsable text on the same report, as a step of a history on one report (other programs asked in "
                    "between, cache hits, submission vs explicit student_code, expire_cait_cache, set_source / "
                    "restore_code), and for sub-patterns searched inside / with an inherited "
                    "match (CaitNode.find_matches, find_matches(use_previous=match)) whose placeholders are fresh or "
                    "reuse names the inherited match bound, rooted at every node kind of the program (continued matches: "
                    "the child is the program's own subtree with the parent's placeholders put back consistently); nested "
                    "binary operations (every tree shape with 2-4 operands x every assignment of + * - to the inner nodes, "
                    "operands distinct / repeated / constant, in 24 statement contexts, every identifier a placeholder of its "
                    "own); a generalisation (same steps) of ANY pattern that matches must still match - also of the program "
                    "text with operands of + / * swapped; non-trivial = derivation with at least one step",
            "samples": [], "steps": {}, "skips": STATE.get("skips", {}),
            # derived cases for which the driver decided the hypotheses of c11_generalised_fragment_matches (genCase)
            "theorem_domain": {}}
    failures = []
    bad = []
    sub_bad = []
    stale_bad = []
    hist_bad = []
    for c, r in runs:
        d = c.get("derived")
        if d is None or c.get("history") is None:
            continue
        # the derived pattern asked as one step of a history on one report
        info["evaluations"] += 1
        info["history_steps"] = info.get("history_steps", 0) + 1
        g = getattr(r, "gen", None)
        if g is not None:
            key = "covered" if g == "covered" else "outside:" + g
            info.setdefault("theorem_domain_history_steps", {})
            info["theorem_domain_history_steps"][key] = info["theorem_domain_history_steps"].get(key, 0) + 1
        if r.api == "find_match":
            why = "raises " + r.exc if r.exc is not None else None if r.raw else "no match"
        else:
            why = cc.c11_verdict(d, r)
        if why is not None:
            hist_bad.append((c, r, d, why))
    hist_bad.sort(key=lambda x: len(json.dumps(x[0]["history"])))
    for c, r, d, why in hist_bad[:2]:
        try:
            fresh = cc.RealRun(d.pattern, cc.Program(d.code))
            fresh_why = cc.c11_verdict(d, fresh)
        except (SyntaxError, RecursionError):
            continue
        if fresh_why is not None:
            bad.append((c, d, fresh_why))           # not a matter of the history: the plain oracle's finding
            continue

        def still(spec, idx, d=d):
            rr = cc.run_history(spec)[idx]
            if rr is None:
                return False
            if rr.api == "find_match":
                return rr.exc is not None or not rr.raw
            return cc.c11_verdict(d, rr) is not None
        spec, idx = shrink_history(c["history"], c["step"], still)
        st = spec["steps"][idx]
        sig = {"oracle": "derived-pattern-after-history",
               "why": why.split(" ")[0] + (" " + why.split(" ")[1] if why.startswith("raises") else "")}
        failures.append(Failure(
            sig, "pattern %r derived from the program matches it on a fresh report; asked as step %d of a history on "
                 "one report (%s about %s) it gives: %s" % (
                     d.pattern, idx + 1, st["op"], "the submission" if st.get("target") == "sub" else "student_code",
                     why + (" (%s)" % r.foreign if getattr(r, "foreign", None) else "")),
            {"history": spec, "step": idx, "pattern": d.pattern, "code": d.code, "why": why}))
        break
    for c, r in runs:
        d = c.get("derived")
        if d is None or c.get("history") is not None:
            continue
        info["evaluations"] += 1
        if d.steps:
            info["distinct_nontrivial"] += 1
        for s in d.steps:
            info["steps"][s.split(":")[0]] = info["steps"].get(s.split(":")[0], 0) + 1
        g = getattr(r, "gen", None)
        if g is not None:
            info["theorem_domain"]["covered" if g == "covered" else "outside:" + g] = \
                info["theorem_domain"].get("covered" if g == "covered" else "outside:" + g, 0) + 1
        why = cc.c11_verdict(d, r)
        if why is not None:
            bad.append((c, d, why))
        elif len(info["samples"]) < 3 and d.steps:
            info["samples"].append({"pattern": d.pattern, "code": d.code[:120], "steps": d.steps,
                                    "vars": d.vars, "exps": {k: v[1] for k, v in d.exps.items()}})
    # matches within matches: the bound expression (generalised) must be found inside its own subtree, every
    # placeholder bound to what it replaced - also when it reuses a name the inherited match had bound
    for c, r in runs:
        expect = c.get("sub_expect")
        if expect is None:
            continue
        info["evaluations"] += 1
        info["sub_patterns"] = info.get("sub_patterns", 0) + 1
        tag = "sub:%s%s:%s" % (r.api, ":use_previous" if r.use_previous else "", expect.get("naming", "plain"))
        info.setdefault("sub_routes", {})[tag] = info.setdefault("sub_routes", {}).get(tag, 0) + 1
        verdict = sub_verdict(expect, r)
        if verdict is None:
            continue
        why, wrong = verdict
        sig = {"oracle": "sub-pattern", "why": why.split(" ")[0], "use_previous": bool(c.get("use_previous"))}
        if wrong:
            sig["wrong"] = "__expr__ placeholder not bound to the sub-expression it replaced"
            if r.use_previous and commutative_left_reuse(c["pattern"], wrong):
                sig["cause"] = "inherited-binding-overrides-left-operand-of-commutative-root"
        what = ("%s(%r%s) %s of a match of %r: %s%s" % (
            "find_matches" if r.api == "prev" else "CaitNode.find_matches", c["pattern"],
            ", use_previous=<that match>" if r.api == "prev" else ", use_previous=%s" % c.get("use_previous"),
            "over the program" if r.api == "prev" else "inside the subtree bound to %s" % c["parent_key"],
            c["parent_pattern"], why, " (%s)" % ", ".join(wrong) if wrong else ""))
        sub_bad.append((len(c["code"]) + len(c["pattern"]), Failure(sig, what, {k: c[k] for k in CASE_KEYS if k in c})))
    sub_bad.sort(key=lambda x: x[0])
    failures.extend(f for _, f in sub_bad)
    # the same derived pattern again after CAIT saw an unparsable text on the same report
    for c, badsrc, via, first, second in STATE.get("stale", []):
        d = c["derived"]
        info["evaluations"] += 1
        info["after_unparsable_text"] = info.get("after_unparsable_text", 0) + 1
        if cc.c11_verdict(d, first) is not None:
            continue                                   # reported by the plain derived-pattern oracle
        why = cc.c11_verdict(d, second)
        if why is None:
            continue
        sig = {"oracle": "derived-pattern-after-unparsable-text",
               "why": why.split(" ")[0] + (" " + why.split(" ")[1] if why.startswith("raises") else "")}
        stale_bad.append((len(c["code"]) + len(c["pattern"]), Failure(
            sig, "pattern %r derived from the program matches; after %s(%r) on the same report the same find_matches "
                 "call gives: %s" % (d.pattern, via, badsrc, why),
            {"pattern": d.pattern, "code": d.code, "setup": c["setup"], "api": "find_matches",
             "between": {"call": via, "student_code": badsrc}, "why": why})))
    stale_bad.sort(key=lambda x: x[0])
    failures.extend(f for _, f in stale_bad[:1])
    # generalising a MATCHING pattern must not lose the match
    for c, r in runs:
        parent = c.get("mono_parent")
        if parent is None:
            continue
        info["evaluations"] += 1
        info["generalised_matching_patterns"] = info.get("generalised_matching_patterns", 0) + 1
        why = "raises " + r.exc if r.exc is not None else ("no match" if not r.matches else None)
        if why is None:
            continue
        below, elsewhere = c.get("mono_cross", (0, 0))
        cause = ("fields-not-compared-below-commutative-operator" if below and not elsewhere else
                 "cross-field-pairing-elsewhere" if elsewhere else "field-respecting-match")
        sig = {"oracle": "generalise-matching-pattern", "why": why.split(" ")[0] + (" " + why.split(" ")[1] if why.startswith("raises") else ""),
               "cause": cause}
        failures.append(Failure(sig, "pattern %r matches %r, its generalisation %r does not (%s; the first match pairs nodes of "
                                     "different fields: %d below a + / *, %d elsewhere)" % (parent, c["code"], c["pattern"], why, below, elsewhere),
                                {"pattern": c["pattern"], "code": c["code"], "setup": c["setup"], "api": "find_matches",
                                 "generalisation_of": parent, "why": why}))
    seen = set()
    plain = []
    bad.sort(key=lambda x: len(x[1].code) + len(x[1].pattern))      # the smallest witness of each signature
    for c, d, why in bad:
        kinds = sorted({s.split(":")[0] for s in d.steps})
        sig = {"oracle": "derived-pattern", "why": why.split(" ")[0] + (" " + why.split(" ")[1] if why.startswith("raises") else ""),
               "base": d.base, "steps": kinds}
        key = json.dumps(sig, sort_keys=True)
        if key in seen:
            continue
        seen.add(key)
        plain.append(Failure(sig, "pattern %r derived from the program %r by %s: %s" % (d.pattern, d.code, d.steps or "no step", why),
                             {"pattern": d.pattern, "code": d.code, "steps": d.steps, "vars": d.vars,
                              "exps": {k: v[1] for k, v in d.exps.items()}, "why": why}))
        if len(plain) >= 5:
            break
    uniq, seen2 = [], set()
    for f in failures:
        k = json.dumps(f.signature, sort_keys=True)
        if k not in seen2:
            seen2.add(k)
            uniq.append(f)
    # the plain oracle's witnesses (one question on a fresh report) are the easiest to read: never crowded out
    n_plain = min(len(plain), max(2, 5 - len(uniq)))
    return plain[:n_plain] + uniq[:5 - n_plain], info


# --------------------------------------------------------------------------

def replay(payload):
    from common import Driver
    rp = payload.get("replay") or {}
    if not rp and payload.get("disagreements"):
        rp = payload["disagreements"][0]["case"]
    if rp and rp.get("history"):
        spec = rp["history"]
        for i, rep in enumerate(spec["reports"]):
            print("report %d: %s%s%s" % (i, rep["setup"], " (pedal's MAIN_REPORT, report= left out)" if rep.get("global") else "",
                                       "" if rep.get("main") is None else ", submission main code %r" % rep["main"]))
        d = Driver("driver_c10")
        for i, (st, r) in enumerate(zip(spec["steps"], cc.run_history(spec))):
            mark = " <== the step in question" if i == rp.get("step") else ""
            head = "step %d [report %d] %s" % (i + 1, st.get("r", 0) % len(spec["reports"]), st["op"])
            if "pattern" in st and st["op"] in cc.QUERY_OPS:
                head += "(%r)" % st["pattern"]
            if st.get("target") == "sub":
                head += " about the submission"
            elif "code" in st:
                head += " %r" % st["code"]
            if r is None:
                print(head + mark)
                continue
            print(head + " -> asked program %r%s" % (r.code, mark))
            if r.exc is not None:
                print("    raises", r.exc)
                continue
            print("    %d matches, match_lineno %s%s" % (len(r.raw), [m.match_lineno for m in r.raw],
                                                      "; " + r.foreign if r.foreign else ""))
            if r.raw and d.available:
                print("    checkMatch against the asked program:", embed_verdicts(d, r))
        return 0
    if not rp or "pattern" not in rp:
        print(json.dumps(payload, indent=1)[:3000])
        return 0
    case = {k: rp[k] for k in CASE_KEYS if k in rp}
    for k, v in case.items():
        print("%s: %s" % (k, v if k not in ("pattern", "code", "parent_pattern") else "\n" + str(v)))
    if rp.get("between"):
        # multi-step replay: question, unparsable text on the same report, same question
        from pedal.cait import cait_api
        prog = cc.Program(case["code"], case.get("setup", "code"))
        first = cc.RealRun(case["pattern"], prog)
        b = rp["between"]
        call = b["call"].split(" ")[0]
        try:
            if call == "parse_program":
                cait_api.parse_program(b["student_code"], report=prog.report)
            else:
                getattr(cait_api, call)(case["pattern"], student_code=b["student_code"], report=prog.report)
        except Exception as e:
            print("between: raised", type(e).__name__)
        second = cc.RealRun(case["pattern"], prog)
        print("first call : %d matches" % len(first.matches or []))
        print("between    : %s(%r) on the same report" % (call, b["student_code"]))
        print("second call: %d matches, cait['success'] = %r" % (len(second.matches or []), prog.report["cait"]["success"]))
        return 0
    r = rerun(case)
    if r.use_previous and r.parent is not None:
        print("the match it continues binds:", {"%s:%s" % k: v for k, v in cc.inherited_binds(r.parent).items()},
              "(counted as part of the continued match by checkMatch)")
    print("real  :", "raises " + r.exc if r.exc else json.dumps([cc.show_match(m) for m in r.matches], default=str))
    d = Driver("driver_c10")
    if d.available:
        if r.compare_model:
            model = cc.parse_model_matches(d.ask([r.request()])[0])
            print("model :", json.dumps([cc.show_match(m) for m in model], default=str) if not isinstance(model, str) else model)
        if r.exc is None:
            print("checkMatch on the real matches:", embed_verdicts(d, r))
    dd = rp.get("derived")
    if dd:
        print("derivation:", dd)
    return 0

"""
Two dimensions of the input space of C04 / C05 that seeded defects C04_F / C05_F showed to be missing (round 3, batch 2):

1. WHICH CLASS EXACTLY the student code raises, crossed with EVERY tracer style and every place a failure can come
   from.  The older sweep raises every builtin class once per entry point with a ROTATING tracer style, and its user
   classes are all proper subclasses: a class that the sandbox's own machinery singles out - named in an `except`,
   `isinstance`, `issubclass` or `raise` of pedal/sandbox/*.py, of the traceback renderer, or of the library classes
   the tracers are built on (bdb.Bdb -> BdbQuit) - and the BASE classes of those (Exception and BaseException
   themselves) never met every style.  The classes are READ FROM THE TREE UNDER TEST (`special_classes`); nothing is
   hard-coded.  For each: the exact class raised as an instance / as the bare class, and a student subclass of it;
   at module level, inside a function the module calls, through call(), evaluate(), inside an imported second
   student file (imported by the module / by the called function).

2. WHICH THREAD THE GRADER ITSELF RUNS ON (`GRADER_THREADS`): the main thread (all older histories), a plain
   threading.Thread, a concurrent.futures pool worker, a thread that was not started through `threading` at all
   (`_thread.start_new_thread`: `threading.current_thread()` is a _DummyThread), a threading.Timer - crossed with
   threaded = off / sandbox.threaded / threaded=True and every way an execution can end.  Borrowed globals are process
   wide; the trace function is per thread (the harness installs and compares it on the thread the history runs on).

Descriptors are written down by construction, as everywhere in sandboxexec_common.
"""
import ast
import builtins
import copy
import importlib
import inspect
import os

import sandboxexec_common as sx

# --------------------------------------------------------------------------
# 1. the exception classes the sandbox's own code treats specially


def _pedal_root():
    import pedal
    return os.path.dirname(os.path.abspath(pedal.__file__))


def _scanned_modules():
    """Module objects whose source is searched for exception class names: everything in pedal/sandbox, the traceback
    renderer, and the (non-pedal) modules that define a base class of a tracer style."""
    root = _pedal_root()
    names = []
    sandbox_dir = os.path.join(root, "sandbox")
    for fn in sorted(os.listdir(sandbox_dir)):
        if fn.endswith(".py") and fn != "__init__.py":
            names.append("pedal.sandbox." + fn[:-3])
    names.append("pedal.utilities.exceptions")
    mods = []
    for n in names:
        try:
            mods.append(importlib.import_module(n))
        except BaseException:       # noqa - a module of the tree that does not import is not ours to judge here
            continue
    try:
        from pedal.sandbox.tracer import TRACER_STYLES
        for cls in TRACER_STYLES.values():
            for base in cls.__mro__:
                m = getattr(base, "__module__", "")
                if base is object or m.startswith("pedal") or m == "builtins":
                    continue
                try:
                    mod = importlib.import_module(m)
                except BaseException:   # noqa
                    continue
                if mod not in mods:
                    mods.append(mod)
    except BaseException:   # noqa
        pass
    return mods


def _class_exprs(tree):
    """AST expressions standing where a class (or tuple of classes) is expected."""
    for node in ast.walk(tree):
        if isinstance(node, ast.ExceptHandler) and node.type is not None:
            yield node.type
        elif isinstance(node, ast.Raise) and node.exc is not None:
            yield node.exc.func if isinstance(node.exc, ast.Call) else node.exc
        elif isinstance(node, ast.Call) and isinstance(node.func, ast.Name) and \
                node.func.id in ("isinstance", "issubclass") and len(node.args) == 2:
            yield node.args[0] if node.func.id == "issubclass" else node.args[1]
            yield node.args[1]
        elif isinstance(node, ast.ClassDef):
            for b in node.bases:
                yield b


def _resolve(expr, mod):
    if isinstance(expr, ast.Tuple):
        out = []
        for e in expr.elts:
            out += _resolve(e, mod)
        return out
    if not isinstance(expr, (ast.Name, ast.Attribute)):
        return []
    try:
        val = eval(compile(ast.Expression(expr), "<special>", "eval"), dict(vars(mod)))   # names only: no calls
    except BaseException:   # noqa
        return []
    if isinstance(val, tuple):
        return [v for v in val if isinstance(v, type) and issubclass(v, BaseException)]
    return [val] if isinstance(val, type) and issubclass(val, BaseException) else []


_CACHE = {}


def special_classes():
    """-> [{"cls": class, "named_in": [module names], "level": 0|1|2, "core": bool, "why": "named" | "base of X"}]
    read from the tree under test.  level 2: named in the tracer module or in a module the tracer styles are built on
    (bdb) and DEFINED there, or a base class of such a class - crossed with EVERY style and place in the quick tier; level 1: named in
    the modules of `Sandbox._execute` / `timeout` (or a base of such) - every style and every place at least once;
    level 0: named elsewhere in pedal/sandbox or the traceback renderer - sampled in quick, complete in thorough."""
    key = _pedal_root()
    if key in _CACHE:
        return _CACHE[key]
    found = {}
    for mod in _scanned_modules():
        try:
            tree = ast.parse(inspect.getsource(mod))
        except BaseException:   # noqa
            continue
        library = not mod.__name__.startswith("pedal")
        if mod.__name__ == "pedal.sandbox.tracer":
            level = 2
        elif library or mod.__name__ in ("pedal.sandbox.sandbox", "pedal.sandbox.timeout"):
            level = 1
        else:
            level = 0
        for expr in _class_exprs(tree):
            for cls in _resolve(expr, mod):
                rec = found.setdefault(cls, {"cls": cls, "named_in": [], "level": 0, "why": "named"})
                if mod.__name__ not in rec["named_in"]:
                    rec["named_in"].append(mod.__name__)
                # a class DEFINED by the library a tracer style is built on (bdb.BdbQuit) is that library's signal
                own = library and cls.__module__ == mod.__name__
                rec["level"] = max(rec["level"], 2 if own else level)
    for cls, rec in list(found.items()):
        if rec["why"] != "named":
            continue
        for base in cls.__mro__[1:]:
            if base is object:
                continue
            if base not in found:
                found[base] = {"cls": base, "named_in": [], "level": rec["level"], "why": "base of " + cls.__name__}
            else:
                found[base]["level"] = max(found[base]["level"], rec["level"])
    for rec in found.values():
        rec["core"] = rec["level"] >= 1
    out = sorted(found.values(), key=lambda r: (r["cls"].__module__ != "builtins", r["cls"].__name__))
    _CACHE[key] = out
    return out


def _spelling(cls):
    """How student code can name the class: (import lines, expression) or None (pedal's own classes: `import pedal`
    is blocked in the sandbox; they reach student code only through the blocked features, covered elsewhere)."""
    if getattr(builtins, cls.__name__, None) is cls:
        return [], cls.__name__
    mod = cls.__module__
    if mod.startswith("pedal") or "." in cls.__qualname__:
        return None
    try:
        if getattr(importlib.import_module(mod), cls.__name__, None) is not cls:
            return None
    except BaseException:   # noqa
        return None
    return ["from %s import %s" % (mod, cls.__name__)], cls.__name__


def _constructor_args(cls):
    for args, src in ((("boom",), "'boom'"), ((), "")):
        try:
            cls(*args)
            return src
        except BaseException:   # noqa
            continue
    return None


SKIPPED_CLASSES = {}


def special_snippets():
    """Snippets (sandboxexec_common.snip) for every special class that student code can spell."""
    out = []
    SKIPPED_CLASSES.clear()
    for rec in special_classes():
        cls = rec["cls"]
        sp = _spelling(cls)
        if sp is None:
            SKIPPED_CLASSES[cls.__name__] = "student code cannot import it"
            continue
        args = _constructor_args(cls)
        if args is None:
            SKIPPED_CLASSES[cls.__name__] = "constructor takes neither ('boom') nor ()"
            continue
        imports, name = sp
        flags = sx.class_flags(cls)
        hz = ["synNoLine"] if issubclass(cls, SyntaxError) else []
        mro = [c.__name__ for c in cls.__mro__ if c is not object]
        n0 = len(imports)
        forms = [
            ("instance", imports + ["raise %s(%s)" % (name, args)], n0, [], name, flags, mro),
            ("bare", imports + ["raise %s" % name], n0, [], name, flags, mro),
            ("in-function", imports + ["def go():", "    raise %s(%s)" % (name, args), "go()"], n0 + 2, [n0 + 1],
             name, flags, mro),
            ("reraised", imports + ["try:", "    raise %s(%s)" % (name, args), "except BaseException:", "    raise"],
             n0 + 1, [], name, flags, mro),
        ]
        sub = "Sub" + name
        sub_flags = dict(flags, keyerr=False)          # a student subclass of KeyError keeps its own class
        forms.append(("subclass", imports + ["class %s(%s):" % (sub, name), "    pass", "raise %s(%s)" % (sub, args)],
                      n0 + 2, [], sub, sub_flags, [sub] + mro))
        for form, lines, fail_at, inner, cname, fl, cmro in forms:
            sn = sx.snip(lines, fail_at, cname, dict(fl), hazards=hz, inner=inner,
                         shape="special:%s:%s" % (cls.__name__, form), bases=[])
            sn["mro"] = cmro
            sn["special"] = {"cls": cls.__name__, "form": form, "core": rec["core"], "level": rec["level"]}
            if rec["level"] == 2 and form == "instance":
                sn["special"]["pin"] = True
            out.append(sn)
    return out


PLACES = [("run", None), ("call", None), ("eval", None), ("run", "inside"), ("call", "inside"), ("run", "before")]


def special_histories(rng, tier):
    """quick: the exact class, raised as an instance, of every level-2 class x every tracer style x every place
    (pinned); of every level-1 class every style and every place at least once (pinned); the other forms (bare
    class, inside a function, re-raised, student subclass) of level 2 with every style, of level 1 once with rotating
    style and place; level 0 rotating, a seeded third of it.
    thorough: the full product."""
    hists = []
    k = 0
    ns, npl = len(sx.STYLES), len(PLACES)
    for sn in special_snippets():
        info = sn["special"]
        pinned = False
        if tier != "quick" or info.get("pin"):
            combos = [(st, e, n) for st in sx.STYLES for e, n in PLACES]
            pinned = bool(info.get("pin"))
            if tier == "quick":
                # (the coverage style costs ten times the others: in quick it meets the three places that have a
                #  `with` of their own - _execute through run / call, _import - not all six)
                combos = [c for c in combos if c[0] != "coverage" or c[1:] in (("run", None), ("call", None),
                                                                                 ("run", "inside"))]
        elif info["level"] >= 1 and info["form"] == "instance":
            combos = [(sx.STYLES[(k + j) % ns], *PLACES[j % npl]) for j in range(max(ns, npl))]
            pinned = True
        elif info["level"] == 2:
            combos = [(st, *PLACES[(k + j) % npl]) for j, st in enumerate(sx.STYLES)]
        elif info["level"] == 1 or rng.random() < 0.34:
            combos = [(sx.STYLES[k % ns], *PLACES[(k // ns) % npl])]
        else:
            combos = []
        k += 1
        for style, entry, nest in combos:
            h = sx.gen_ops_for_snippet(rng, sn, entry, style, False, nest)
            if pinned:
                h[-1]["pin"] = True
            if info["level"] == 2:
                h[-1]["special_level2"] = True
            hists.append(sx.vary(rng, h, {"main": sx.MAIN_FILE, "spell": "bare", "args": None}))
    return hists


def describe_special():
    return {"classes_read_from_the_tree": [
        "%s [level %d] (%s%s)" % (r["cls"].__name__, r["level"], r["why"],
                         "" if not r["named_in"] else " in " + ", ".join(m.rsplit(".", 1)[-1] for m in r["named_in"][:3]))
        for r in special_classes()], "not_raised_by_student_code": dict(SKIPPED_CLASSES)}


# --------------------------------------------------------------------------
# 2. the thread the grader runs on

GRADER_THREADS = list(sx.GRADER_THREADS)


def on_thread(hist, kind):
    """A copy of the history that is executed with the grader on a thread of kind `kind`."""
    h = copy.deepcopy(hist)
    for op in sx.walk_ops(h):
        op["on"] = kind
    return h


def _endings():
    d = sx.desc
    return [
        ("run", "print('hello')\n", ["N"], "normal"),
        ("run", "import time\nprint('before')\ntime.sleep(0.001)\nv = 1 / 0\n",
         ["R", d("ZeroDivisionError", frames=[["S", 4]])], "c:zerodiv"),
        ("run", "raise Exception('plain')\n", ["R", d("Exception", frames=[["S", 1]])], "special:Exception:instance"),
        ("run", "import sys\nprint('bye')\nsys.exit(2)\n",
         ["R", d("SystemExit", exc=False, sysexit=True, frames=[["S", 3]])], "sys.exit"),
        ("run", "print('x')\nraise KeyboardInterrupt\n", ["R", d("KeyboardInterrupt", exc=False, frames=[["S", 2]])],
         "builtin:KeyboardInterrupt"),
        ("run", "class Halt(BaseException):\n    pass\nraise Halt('stop')\n",
         ["R", d("Halt", exc=False, frames=[["S", 3]], mro=["Halt", "BaseException"])], "user:BaseException"),
        ("run", "x = (\n", ["C", sx.compile_failure_desc("x = (\n", sx.MAIN_FILE)], "compile:unclosed-paren"),
    ]


FN_CODE = ("def f(*args, **kwargs):\n    print('in f')\n    return 7\n"
           "def broken(*args, **kwargs):\n    print('about to fail')\n    return {}['k']\n"
           "def leave(*args, **kwargs):\n    raise SystemExit(3)\n"
           "def interrupt(*args, **kwargs):\n    raise KeyboardInterrupt\n")


def _base_histories(rng):
    """Every way an execution can end x entry points, each followed by a clean execution on the same sandbox."""
    later = {"entry": "run", "inject": False, "code": "print('later')\n", "term": ["N"], "shape": "normal"}
    out = []
    for entry, code, term, shape in _endings():
        out.append([{"entry": entry, "inject": False, "code": code, "term": term, "shape": shape}, dict(later)])
    defs = {"entry": "run", "inject": False, "code": FN_CODE, "term": ["N"], "shape": "defs"}
    d = sx.desc
    calls = [
        {"entry": "call", "term": ["N"], "shape": "ok-call"},
        {"entry": "eval", "expr": "f() + 1", "term": ["N"], "shape": "ok-eval"},
        {"entry": "call", "fn": "broken", "term": ["R", d("KeyError", keyerr=True, frames=[["I", 1], ["S", 6]])],
         "shape": "c:keyerror"},
        {"entry": "eval", "expr": "broken()", "term": ["R", d("KeyError", keyerr=True, frames=[["I", 1], ["S", 6]])],
         "shape": "c:keyerror"},
        {"entry": "call", "fn": "leave", "term": ["R", d("SystemExit", exc=False, sysexit=True,
                                                        frames=[["I", 1], ["S", 8]])], "shape": "raise-SystemExit"},
        {"entry": "call", "fn": "interrupt", "term": ["R", d("KeyboardInterrupt", exc=False,
                                                            frames=[["I", 1], ["S", 10]])],
         "shape": "builtin:KeyboardInterrupt"},
        {"entry": "callmissing", "term": ["N"], "shape": "call-missing"},
    ]
    for c in calls:
        out.append([dict(defs), dict(c, inject=False), dict(later)])
    # all of them in ONE grading script, as a real grader would (the seed's demo)
    out.append([dict(defs)] + [dict(c, inject=False) for c in calls[:5]] + [dict(later)])
    # a second student file imported while the code runs (Sandbox._import re-enters the tracer)
    out.append([sx.nested_normal_op(rng, None, False, sx.NESTED_NORMAL_PROGRAMS[0]), dict(later)])
    vsn = [s for s in sx.failing_snippets(rng) if s["shape"] == "builtin:ValueError"][0]
    out.append(sx.gen_ops_for_snippet(rng, vsn, "run", None, False, "inside") + [dict(later)])
    out.append([sx.helper_compile_failure_op(rng, None, False, *sx.COMPILE_FAILURES[0]), dict(later)])
    # recording of the failure fails / storing of the captured output fails, on that thread
    out.append([{"entry": "run", "inject": True, "code": "v = 1 / 0\n",
                 "term": ["R", d("ZeroDivisionError", frames=[["S", 1]])], "shape": "c:zerodiv"}, dict(later)])
    return out


def _styled(hist, style):
    for op in hist:
        if op.get("style") is None:
            op["style"] = style
    return hist


def _containable_or_normal(hist):
    return all(op["term"][0] == "N" or sx.containable(op) for op in sx.walk_ops(hist))


def grader_thread_histories(rng, tier, sweep=(), nested=()):
    """quick: the base histories on every kind of thread (style rotating), a rotating half of them also with
    sandbox.threaded / threaded=True, a sample of the nested-execution histories and of the sweep on a rotating kind;
    thorough: base x kind x style x threaded mode, a tenth of the nested histories and 30 % of the sweep on a rotating
    kind."""
    import sandboxexec_dims as dm
    out = []
    k = 0
    base = _base_histories(rng)
    for kind in GRADER_THREADS:
        for h in base:
            styles = sx.STYLES if tier != "quick" else [sx.STYLES[k % len(sx.STYLES)]]
            for style in styles:
                plain = _styled(copy.deepcopy(h), style)
                t = on_thread(plain, kind)
                t[-1]["pin"] = True
                out.append(t)
                modes = []
                if _containable_or_normal(plain) and not any(op.get("inject") for op in plain):
                    if tier != "quick":
                        modes = dm.THREAD_MODES
                    elif k % 2 == 0:
                        modes = [dm.THREAD_MODES[(k // 2) % len(dm.THREAD_MODES)]]
                for m in modes:
                    t = on_thread(dm.threaded(plain, m), kind)
                    t[-1]["pin"] = True
                    out.append(t)
            k += 1
    # (thorough: `nested` is the full product at depth 2, thousands of histories - a tenth of it, kind rotating)
    step = 6 if tier == "quick" else 10
    for j in range(0, len(nested), step):
        out.append(on_thread(nested[j], GRADER_THREADS[(j // step) % len(GRADER_THREADS)]))
    for j, h in enumerate(sweep):
        if any(op.get("inject_store") or op.get("size") for op in h):
            continue
        if tier == "quick":
            if rng.random() < 0.03:
                out.append(on_thread(h, GRADER_THREADS[j % len(GRADER_THREADS)]))
        elif rng.random() < 0.3:
            out.append(on_thread(h, GRADER_THREADS[j % len(GRADER_THREADS)]))
    for h in out:
        for op in h[:-1]:
            op.pop("pin", None)
    return out


# --------------------------------------------------------------------------
# Formerly GATED inputs: they failed on the tree before /repo commit f011cb2 (the finish-claim repair, see
# notes/C05.md and notes/C14.md); since that fix they are ordinary inputs, on by default (VERIF_SANDBOXEXEC_GATED=0
# switches them off)


def gated_histories(rng, tier):
    """(a) the grader itself inside pedal's own `timeout()` (its thread IS an InterruptableThread): the first
    execution that finishes takes the thread's one-shot finish claim, every later `_stop_mocking` raises SystemExit
    with nothing undone; (b) the same through nesting: an execution with threaded=False started by the code of a
    threaded one."""
    import sandboxexec_dims as dm
    out = []
    for h in _base_histories(rng)[:3]:
        out.append(on_thread(_styled(copy.deepcopy(h), "none"), "pedal-timeout"))
    for mode in ("param", "sandbox"):
        h = dm.build({"entry": "run", "style": "none", "ending": "normal", "via": "mock",
                      "inner": [{"entry": "call", "ending": "normal"}]})
        h[-1]["threaded"] = mode
        for op in h[-1]["inner"]:
            if mode == "sandbox":
                op["threaded"] = "import"       # threaded=False passed explicitly
        out.append(h)
    return out


def gated_enabled():
    return os.environ.get("VERIF_SANDBOXEXEC_GATED", "1") not in ("", "0")


# --------------------------------------------------------------------------
# self-test: the descriptors against plain CPython


def selftest():
    import random
    import traceback
    bad = n = 0
    for sn in special_snippets():
        code = "\n".join(sn["lines"]) + "\n"
        n += 1
        try:
            exec(compile(code, "answer.py", "exec"), {"__name__": "__main__"})
            print("did not fail:", sn["shape"])
            bad += 1
        except BaseException as e:   # noqa
            tb = traceback.extract_tb(e.__traceback__)
            lines = [f.lineno for f in tb if f.filename == "answer.py"]
            want = [sn["fail_at"] + 1] + [i + 1 for i in sn["inner"]]
            if type(e).__name__ != sn["cls"] or lines != want:
                print("descriptor wrong:", sn["shape"], type(e).__name__, lines, want)
                bad += 1
            if isinstance(e, Exception) != bool(sn["flags"].get("exc")) or \
                    isinstance(e, SystemExit) != bool(sn["flags"].get("sysexit")):
                print("flags wrong:", sn["shape"])
                bad += 1
            if [c.__name__ for c in type(e).__mro__ if c is not object] != sn["mro"]:
                print("mro wrong:", sn["shape"])
                bad += 1
    rng = random.Random(0)
    q = special_histories(rng, "quick")
    t = special_histories(rng, "thorough")
    g = grader_thread_histories(rng, "quick")
    info = describe_special()
    print("special classes: %d (%d core), snippets: %d, histories quick %d / thorough %d, grader-thread histories "
          "(quick, without sweep) %d, wrong: %d" % (
              len(special_classes()), sum(1 for r in special_classes() if r["core"]), n, len(q), len(t), len(g), bad))
    for line in info["classes_read_from_the_tree"]:
        print("  ", line)
    print("   not raised by student code:", info["not_raised_by_student_code"])
    return bad


if __name__ == "__main__":
    import sys
    sys.exit(1 if selftest() else 0)

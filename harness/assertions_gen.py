"""
C07 case generation: the value pool (shapes named in the property's quantifier), real proxies for
every pool entry, and the request lines for the Lean driver.
"""
import re

import assertions_common as ac
from assertions_common import F


def f20(n):
    """the float n * 2^-20 (exactly representable; differences of such floats are exact)"""
    return n / float(1 << 20)


ONE = 1 << 20
# 0.001 * 2^20 = 1048.576: 1048 steps are inside the default tolerance, 1049 outside
IN, OUT = 1048, 1049


def pool_values():
    """(label, python value) — built once per process; identity of the objects matters for assert_is."""
    vals = [
        None, True, False, 0, 1, 2, 3, -1, 5,
        1.0, 2.0, 0.0, 0.5, -1.0, 3.0, f20(ONE + IN), f20(ONE + OUT), f20(ONE - IN), f20(ONE - OUT),
        f20(2 * ONE + IN), f20(ONE + 2 * OUT), f20(ONE + 500),
        "", "a", "b", "z", "ab", "Ab.", "abc", "a b", " A  b!", "a\nb", "b\na", "a.b", "Hello, World!",
        "hello world", "A", "1", "caat", "a+", "(", "^a.b$", "a\tb", "line one\nLine Two.",
        "a b ", "a  b", "a\rb", "a\r\nb", "a\x0cb", "a\x1cb", "a\xa0b", "ab ", "\n", " ",
        [], [1, 2], [2, 1], [1, 2, 3], [1, [2.0]], [1, [f20(2 * ONE + IN)]], [1, [f20(2 * ONE + OUT)]],
        ["a", "b"], ["A", "B."], [1, "a"], [{1}], [{2}], [None], [1.0, 2], ["a"], [[1], [2]], [1, "b"],
        (), (1, 2), (1, "a"), (1, 2, 3), ((1, 2),), (1.0, 2), ("a", "b"), (1, [2]),
        set(), {1}, {1, 2}, {3}, {2, 3}, {"a"}, {"a", "b"}, {"A"}, {"a", 1}, {(1, 2)},
        {1.0, f20(ONE + 1900)}, {f20(ONE + 950), 7.0}, {f20(ONE + 500), 5.0}, {f20(ONE + 400), f20(ONE + 600)},
        {"a", "A"}, {"a", "c"},
        {}, {"a": 1}, {"a": 1.0}, {"a": f20(ONE + IN)}, {"a": 1, "b": 2}, {"b": 2, "a": 1}, {1: "x"}, {1: "X."},
        {"a": [1, 2]}, {(1, 2): 3}, {1: 2}, {"A": 1}, {f20(ONE + 500): "x"}, {"a": 1, "B": 2}, {None: 0}, {0: None},
        int, float, str, bool, list, tuple, dict, set, object, Exception, (int, str), (str, list), (float, bool),
    ]
    out = [(ac.spec_of(v), v) for v in vals]
    thing = ac.get_sandbox().data["Thing"]
    out.append(({"t": "obj"}, thing()))
    out.append(({"t": "obj"}, thing()))
    out.append(({"t": "err", "how": "boom"}, ac.call("boom")))
    out.append(({"t": "err", "how": "mkexc"}, ac.call("mkexc")))
    out.append(({"t": "err", "how": "raw"}, ValueError("x")))
    return out


class Pool:
    def __init__(self):
        ac.setup()
        self.entries = pool_values()
        self.specs = [sp for sp, _ in self.entries]
        self.raw = [ac.raw(v) for _, v in self.entries]
        self.proxy = [ac.proxy_of(v) for _, v in self.entries]
        self.shape = [ac.shape(v) for v in self.raw]
        self.by_shape = {}
        for i, s in enumerate(self.shape):
            self.by_shape.setdefault(s, []).append(i)
        self.n = len(self.entries)

    def operand(self, i, w):
        return self.proxy[i] if w == "p" else self.raw[i]

    def idx(self, *shapes):
        return [i for s in shapes for i in self.by_shape.get(s, [])]


# executions for the output assertions: (how, text printed)
EXECUTIONS = [("say", "Hello, World!"), ("say", "hello world"), ("say", "a\nb"), ("say", "b\na"), ("say", ""),
              ("say", "Ab."), ("say", "caat"), ("say", "1"), ("say", "a b "), ("say", "a\rb"), ("say", "a\x0cb"),
              ("quiet", ""), ("sandbox", ""), ("sandbox_failed", ""), ("boom", "")]


def make_execution(how, text):
    """(operand for the assertion, text it printed)"""
    if how == "say":
        return ac.call("say", text), text + "\n"
    if how == "quiet":
        return ac.call("say_quiet"), ""
    if how == "sandbox":
        ac.call("say_quiet")            # a successful call: the sandbox is not in an error state
        return ac.get_sandbox(), ac.get_sandbox().raw_output
    if how == "sandbox_failed":
        ac.call("boom")                 # the sandbox now holds the exception of the failed call
        return ac.get_sandbox(), ac.get_sandbox().raw_output
    return ac.call("boom"), ""


def enc_execution(x):
    if isinstance(x, ac.rt.Sandbox):
        return ["0", str(ac.oid(x)), "0", ("X%d" if x.exception is not None else "O%d") % ac.oid(x)]
    return ac.enc_operand(x)


def enc_str_tok(s):
    return "S" + (",".join(str(ord(c)) for c in s) if s else "-")


def request_line(name, a, b, exact=False, delta=None, printed=None, spelling=None):
    """`a ...` request for one assertion call, or None when an operand is outside the wire universe."""
    d = ac.code_delta(name) if delta is None else delta
    ra, rb = ac.raw(a), ac.raw(b)
    search = "-"
    str_r = "-"
    out_l = "r"
    try:
        if name in ac.UNARY:
            right = ["0", "0", "0", enc_str_tok("None")]
            left = ac.enc_operand(a)
        elif name in ac.OUTPUT:
            left = enc_execution(a)
            right = ac.enc_operand(b)
            if not isinstance(ra, BaseException):
                out_l = enc_str_tok(ac.chomp(printed))
            if not isinstance(rb, BaseException):
                str_r = enc_str_tok(str(rb))
                if "regex" in name:
                    try:
                        search = "t" if re.search(str(rb), ac.chomp(printed)) is not None else "f"
                    except Exception:
                        search = "r"
        else:
            left = ac.enc_operand(a)
            right = ac.enc_operand(b)
            if name in ac.REGEX and not isinstance(rb, BaseException):
                str_r = enc_str_tok(str(rb))
                if isinstance(ra, str):
                    try:
                        search = "t" if re.search(ra, str(rb)) is not None else "f"
                    except Exception:
                        search = "r"
        dt = ac.enc_val(d, [])
    except ac.Unencodable:
        return None
    return " ".join(["a", name, "1" if exact else "0", search, str_r, out_l] + dt + left + right)

"""
C07 case generation: the value pool (shapes named in the property's quantifier), real proxies for
every pool entry, and the request lines for the Lean driver.
"""
import re

import assertions_common as ac
from assertions_common import F


def f20(n):
    """the float n * 2^-20 (exactly representable; differences of such floats are exact)"""
    return n / float(1 << 20)


ONE = 1 << 20
# 0.001 * 2^20 = 1048.576: 1048 steps are inside the default tolerance, 1049 outside
IN, OUT = 1048, 1049


def pool_values():
    """(label, python value) — built once per process; identity of the objects matters for assert_is."""
    vals = [
        None, True, False, 0, 1, 2, 3, -1, 5,
        1.0, 2.0, 0.0, 0.5, -1.0, 3.0, f20(ONE + IN), f20(ONE + OUT), f20(ONE - IN), f20(ONE - OUT),
        f20(2 * ONE + IN), f20(ONE + 2 * OUT), f20(ONE + 500),
        "", "a", "b", "z", "ab", "Ab.", "abc", "a b", " A  b!", "a\nb", "b\na", "a.b", "Hello, World!",
        "hello world", "A", "1", "caat", "a+", "(", "^a.b$", "a\tb", "line one\nLine Two.",
        "a b ", "a  b", "a\rb", "a\r\nb", "a\x0cb", "a\x1cb", "a\xa0b", "ab ", "\n", " ",
        [], [1, 2], [2, 1], [1, 2, 3], [1, [2.0]], [1, [f20(2 * ONE + IN)]], [1, [f20(2 * ONE + OUT)]],
        ["a", "b"], ["A", "B."], [1, "a"], [{1}], [{2}], [None], [1.0, 2], ["a"], [[1], [2]], [1, "b"],
        (), (1, 2), (1, "a"), (1, 2, 3), ((1, 2),), (1.0, 2), ("a", "b"), (1, [2]),
        set(), {1}, {1, 2}, {3}, {2, 3}, {"a"}, {"a", "b"}, {"A"}, {"a", 1}, {(1, 2)},
        {1.0, f20(ONE + 1900)}, {f20(ONE + 950), 7.0}, {f20(ONE + 500), 5.0}, {f20(ONE + 400), f20(ONE + 600)},
        {"a", "A"}, {"a", "c"},
        {}, {"a": 1}, {"a": 1.0}, {"a": f20(ONE + IN)}, {"a": 1, "b": 2}, {"b": 2, "a": 1}, {1: "x"}, {1: "X."},
        {"a": [1, 2]}, {(1, 2): 3}, {1: 2}, {"A": 1}, {f20(ONE + 500): "x"}, {"a": 1, "B": 2}, {None: 0}, {0: None},
        int, float, str, bool, list, tuple, dict, set, object, Exception, (int, str), (str, list), (float, bool),
    ]
    out = [(ac.spec_of(v), v) for v in vals]
    thing = ac.get_sandbox().data["Thing"]
    out.append(({"t": "obj"}, thing()))
    out.append(({"t": "obj"}, thing()))
    out.append(({"t": "err", "how": "boom"}, ac.call("boom")))
    out.append(({"t": "err", "how": "mkexc"}, ac.call("mkexc")))
    out.append(({"t": "err", "how": "raw"}, ValueError("x")))
    return out


class Pool:
    def __init__(self):
        ac.setup()
        self.entries = pool_values()
        self.specs = [sp for sp, _ in self.entries]
        self.raw = [ac.raw(v) for _, v in self.entries]
        self.proxy = [ac.proxy_of(v) for _, v in self.entries]
        self.shape = [ac.shape(v) for v in self.raw]
        self.by_shape = {}
        for i, s in enumerate(self.shape):
            self.by_shape.setdefault(s, []).append(i)
        self.n = len(self.entries)

    def operand(self, i, w):
        return self.proxy[i] if w == "p" else self.raw[i]

    def idx(self, *shapes):
        return [i for s in shapes for i in self.by_shape.get(s, [])]


# executions for the output assertions: (how, text printed)
EXECUTIONS = [("say", "Hello, World!"), ("say", "hello world"), ("say", "a\nb"), ("say", "b\na"), ("say", ""),
              ("say", "Ab."), ("say", "caat"), ("say", "1"), ("say", "a b "), ("say", "a\rb"), ("say", "a\x0cb"),
              ("quiet", ""), ("sandbox", ""), ("sandbox_failed", ""), ("boom", "")]


def make_execution(how, text):
    """(operand for the assertion, text it printed)"""
    if how == "say":
        return ac.call("say", text), text + "\n"
    if how == "quiet":
        return ac.call("say_quiet"), ""
    if how == "sandbox":
        ac.call("say_quiet")            # a successful call: the sandbox is not in an error state
        return ac.get_sandbox(), ac.get_sandbox().raw_output
    if how == "sandbox_failed":
        ac.call("boom")                 # the sandbox now holds the exception of the failed call
        return ac.get_sandbox(), ac.get_sandbox().raw_output
    return ac.call("boom"), ""


def enc_execution(x, failed=None):
    if isinstance(x, ac.rt.Sandbox):
        if failed is None:
            failed = x.exception is not None
        return ["0", str(ac.oid(x)), "0", ("X%d" if failed else "O%d") % ac.oid(x)]
    return ac.enc_operand(x)


def enc_str_tok(s):
    return "S" + (",".join(str(ord(c)) for c in s) if s else "-")


def request_line(name, a, b, exact=False, delta=None, printed=None, spelling=None, failed=None):
    """`a ...` request for one assertion call, or None when an operand is outside the wire universe."""
    d = ac.code_delta(name) if delta is None else delta
    ra, rb = ac.raw(a), ac.raw(b)
    search = "-"
    str_r = "-"
    out_l = "r"
    try:
        if name in ac.UNARY:
            right = ["0", "0", "0", enc_str_tok("None")]
            left = ac.enc_operand(a)
        elif name in ac.OUTPUT:
            left = enc_execution(a, failed)
            right = ac.enc_operand(b)
            if not isinstance(ra, BaseException):
                out_l = enc_str_tok(ac.chomp(printed))
            if not isinstance(rb, BaseException):
                str_r = enc_str_tok(str(rb))
                if "regex" in name:
                    try:
                        search = "t" if re.search(str(rb), ac.chomp(printed)) is not None else "f"
                    except Exception:
                        search = "r"
        else:
            left = ac.enc_operand(a)
            right = ac.enc_operand(b)
            if name in ac.REGEX and not isinstance(rb, BaseException):
                str_r = enc_str_tok(str(rb))
                if isinstance(ra, str):
                    try:
                        search = "t" if re.search(ra, str(rb)) is not None else "f"
                    except Exception:
                        search = "r"
        dt = ac.enc_val(d, [])
    except ac.Unencodable:
        return None
    return " ".join(["a", name, "1" if exact else "0", search, str_r, out_l] + dt + left + right)


# --------------------------------------------------------------------------------------
# histories: the operand of an assertion is produced in the middle of a sequence of executions
#
# A history is a JSON-able list of steps executed on the shared sandbox:
#   ["say", t]      call('say', t)            prints t + "\n"        ["sayraw", t]  call('say_raw', t)  prints t
#   ["quiet"]       call('say_quiet')         prints nothing         ["boom"]       call('boom')        fails
#   ["sayboom", t]  call('say_boom', t)       prints t + "\n", then fails
#   ["evalsay", t]  evaluate("say(<t>)")      prints t + "\n"        ["eval"]       evaluate("1 + 1")
#   ["runcode", t]  run("print(<t>)")         prints t + "\n"; the step's result is the Sandbox
#   ["rerun"]       run()                     the student program again (prints ac.MAIN_PRINTS); result: the Sandbox
#   ["missing"]     call('no_such_function')  fails without executing anything (a raw exception comes back)
#   ["getitem"]     sandbox['TABLE']          a lookup: no execution, but an entry in the sandbox's context list
#   ["clear_output"], ["open"] (enter a CommandBlock), ["close"] (leave the innermost one; nothing if none is open)
#   ["L", how] / ["R", how]   produce the left / right operand of a value assertion from the object given to
#                   run_history: how = ident (call('ident', obj)) | evalv (evaluate of a name bound to obj) |
#                   getv (sandbox[name]) | boom (the operand is the result of a failed call instead)
# What every step printed and whether it failed is KNOWN TO THE GENERATOR and never read back from pedal.

from pedal.sandbox.commands import CommandBlock, clear_output as _clear_output  # noqa: E402

EXEC_KINDS = ("say", "sayraw", "quiet", "boom", "sayboom", "evalsay", "eval", "runcode", "rerun", "missing")
HISTORY_LIMIT = 1500        # executions after which a history starts on a fresh sandbox (see ac.renew)
_open_blocks = []
_live = {"key": None, "out": None}
_name_counter = [0]


def end_history():
    """leave every CommandBlock a history left open and forget the live history"""
    while _open_blocks:
        _open_blocks.pop().__exit__(None, None, None)
    _live["key"] = None
    _live["out"] = None


def step_effect(step):
    """(printed text, failed, adds an entry to the sandbox's context list) of one step - the generator's knowledge"""
    k = step[0]
    if k in ("say", "sayboom", "evalsay", "runcode"):
        return step[1] + "\n", k == "sayboom", True
    if k == "sayraw":
        return step[1], False, True
    if k == "rerun":
        return ac.MAIN_PRINTS, False, True
    if k in ("quiet", "eval"):
        return "", False, True
    if k == "boom":
        return "", True, True
    if k == "missing":
        return "", True, False
    if k == "getitem":
        return "", None, True
    if k in ("L", "R"):
        return "", step[1] == "boom", True
    return "", None, False


def _produce(how, obj):
    sb = ac.get_sandbox()
    if how == "ident":
        return ac.call("ident", obj)
    if how == "boom":
        return ac.call("boom")
    _name_counter[0] += 1
    name = "_c07_hist_%d" % _name_counter[0]
    sb.data[name] = obj
    return ac.evaluate(name) if how == "evalv" else sb[name]


def run_step(step, left=None, right=None):
    k = step[0]
    sb = ac.get_sandbox()
    if k == "say":
        return ac.call("say", step[1])
    if k == "sayraw":
        return ac.call("say_raw", step[1])
    if k == "quiet":
        return ac.call("say_quiet")
    if k == "boom":
        return ac.call("boom")
    if k == "sayboom":
        return ac.call("say_boom", step[1])
    if k == "evalsay":
        return ac.evaluate("say(%r)" % (step[1],))
    if k == "eval":
        return ac.evaluate("1 + 1")
    if k == "runcode":
        return ac.run("print(%r)" % (step[1],))
    if k == "rerun":
        return ac.run()
    if k == "missing":
        return ac.call("no_such_function")
    if k == "getitem":
        return sb["TABLE"]
    if k == "clear_output":
        _clear_output()
        return None
    if k == "open":
        block = CommandBlock()
        block.__enter__()
        _open_blocks.append(block)
        return None
    if k == "close":
        if _open_blocks:
            _open_blocks.pop().__exit__(None, None, None)
        return None
    if k == "L":
        return _produce(step[1], left)
    if k == "R":
        return _produce(step[1], right)
    raise ValueError(step)


def run_history(steps, left=None, right=None):
    """Execute the steps (after a successful call and clear_output(), so that the start is defined).
    -> {"ops": [result of step i or None], "L": operand, "R": operand}; what the operands stand for is hist_expect's
    business"""
    end_history()
    ac.setup()
    if len(getattr(ac.get_sandbox(), "_context", ())) > HISTORY_LIMIT:
        ac.renew()
    ac.call("say_quiet")
    _clear_output()
    out = {"ops": [], "L": None, "R": None}
    for step in steps:
        res = run_step(step, left, right)
        out["ops"].append(res)
        if step[0] in ("L", "R"):
            out[step[0]] = res
    return out


def hist_expect(steps, on):
    """(text printed, failed) of the execution that operand `on` of the history stands for when the assertion is made
    after the last step: a call / evaluate result stands for its own execution, the Sandbox (also as the result of a
    run step) for everything written since the last clear_output and for the outcome of the latest execution.
    Computed from the steps alone."""
    total, sandbox_failed = "", False
    for step in steps:
        printed, failed, _ = step_effect(step)
        total = "" if step[0] == "clear_output" else total + printed
        if failed is not None:
            sandbox_failed = failed
    if on == "sandbox" or steps[on][0] in ("runcode", "rerun"):
        return total, sandbox_failed
    printed, failed, _ = step_effect(steps[on])
    return printed, bool(failed)


def live_history(steps):
    """run_history, but the history of the previous call is reused when it is the same and still live
    (assertions do not execute anything, so many probes can be made on one history)"""
    key = repr(steps)
    if _live["key"] != key:
        out = run_history(steps)
        _live["key"], _live["out"] = key, out
    return _live["out"]


def hist_label(steps, on):
    """where the operand stands in the history when the assertion is made (for signatures and the evidence counts)"""
    n, starts, idx, born_in_block = 0, [], {}, {}
    for i, step in enumerate(steps):
        if step[0] == "open":
            starts.append(n)
        elif step[0] == "close":
            if starts:
                starts.pop()
        elif step_effect(step)[2]:
            idx[i] = n
            born_in_block[i] = bool(starts)
            n += 1
    where = "open-block" if starts else "no-open-block"
    if on == "sandbox" or (isinstance(on, int) and steps[on][0] in ("runcode", "rerun")):
        return "sandbox/" + where
    if on in ("L", "R"):
        on = max(i for i, s in enumerate(steps) if s[0] == on)
    kind = "failed-result" if step_effect(steps[on])[1] else "result"
    if on not in idx:
        return kind + "/no-execution/" + where
    if not starts:
        return kind + ("/block-closed-since" if born_in_block[on] else "/no-block")
    c, s0 = idx[on], starts[-1]
    return kind + ("/made-before-the-open-block" if c < s0 else
                   "/first-in-open-block" if c == s0 else "/later-in-open-block")

"""
C18 shared pieces: running tifa_analysis the way the property observes it, program generators
(introductory subset with every documented builtin/method, arbitrary-grammar programs, mutated corpus
programs), and the oracle written from the property text.
"""
import ast
import builtins
import json
import os
import random
import traceback

from common import REPO, use_repo

use_repo()


# --------------------------------------------------------------------------------------------
# observing the real code

def canon_issues(analysis):
    out = []
    for label, items in analysis.issues.items():
        for i in items:
            loc = getattr(i, "location", None)
            line = getattr(loc, "line", None)
            name = None
            try:
                name = i.fields.get("name")
            except Exception:
                pass
            out.append([label, name if isinstance(name, (str, type(None))) else str(name), line])
    return sorted(out, key=lambda t: json.dumps(t))


def where_of(err):
    """Innermost pedal frame of the exception: identifies the root cause of an internal failure."""
    tb = traceback.extract_tb(err.__traceback__)
    for fr in reversed(tb):
        if os.sep + "pedal" + os.sep in fr.filename:
            return os.path.basename(fr.filename) + ":" + fr.name
    return "?"


def tifa_feedback(report):
    return [f for f in report.feedback]


def is_system(f):
    return (getattr(f, "category", None) or "").lower() == "system"


def observe(code, offset=0, repeats=2):
    """Fresh report; `repeats`+1 calls of tifa_analysis(code).  Returns a JSON-able dict; never raises
    (an escaping exception is recorded under 'raised')."""
    from pedal.core.report import MAIN_REPORT
    from pedal.core.commands import contextualize_report
    from pedal.tifa import tifa_analysis
    res = {"calls": []}
    try:
        contextualize_report(code)
        if offset:
            MAIN_REPORT.submission.line_offsets[MAIN_REPORT.submission.main_file] = offset
    except BaseException as e:   # not TIFA's business
        res["setup_error"] = type(e).__name__
        return res
    base = len(MAIN_REPORT.feedback)
    first = None
    for k in range(repeats + 1):
        try:
            t = tifa_analysis(code)
        except BaseException as e:
            res["raised"] = type(e).__name__ + ": " + str(e)[:120]
            res["raised_class"] = type(e).__name__
            return res
        fbs = MAIN_REPORT.feedback[base:]
        call = {"success": bool(t.success), "issues": canon_issues(t), "feedback": len(fbs),
                "system": sum(1 for f in fbs if is_system(f)), "same_object": first is None or t is first}
        if not t.success:
            call["error_class"] = type(t.error).__name__
            call["error"] = str(t.error)[:160]
            call["where"] = where_of(t.error) if isinstance(t.error, BaseException) else "?"
        res["calls"].append(call)
        if first is None:
            first = t
    return res


def fresh_issues(code):
    """A second, independent analysis (new report): determinism."""
    r = observe(code, repeats=0)
    return r["calls"][0]["issues"] if r.get("calls") else r


def nlines(code):
    return len(code.split("\n"))


def oracle(code, obs, must_complete, determinism=None):
    """-> list of (signature, what)."""
    bad = []
    if "setup_error" in obs:
        return bad
    if "raised" in obs:
        return [({"kind": "raised", "error": obs["raised_class"]}, "tifa_analysis raised " + obs["raised"])]
    c0 = obs["calls"][0]
    for k, c in enumerate(obs["calls"][1:], 1):
        if c["issues"] != c0["issues"] or c["success"] != c0["success"]:
            bad.append(({"kind": "not-idempotent", "what": "issues"}, "call %d returned different issues than call 0" % k))
        if c["feedback"] != c0["feedback"]:
            bad.append(({"kind": "not-idempotent", "what": "feedback"},
                        "call %d attached %d more feedback object(s) to the report" % (k, c["feedback"] - c0["feedback"])))
    if determinism is not None and determinism != c0["issues"]:
        bad.append(({"kind": "nondeterministic"}, "a fresh analysis of the same code gave different issues"))
    n = nlines(code)
    for label, name, line in c0["issues"]:
        if line is not None and not (1 <= line <= n):
            bad.append(({"kind": "line-out-of-range", "label": label},
                        "issue %s located at line %r of a %d-line source" % (label, line, n)))
    if not c0["success"]:
        if c0["system"] != 1:
            bad.append(({"kind": "failure-not-reported"}, "failed analysis attached %d system feedback" % c0["system"]))
        if must_complete:
            bad.append(({"kind": "analysis-failed", "error": c0["error_class"], "where": c0["where"]},
                        "introductory-subset program not analysed: %s: %s" % (c0["error_class"], c0["error"])))
    return bad


# --------------------------------------------------------------------------------------------
# well-typed calls of every documented builtin function / method (templates found by trying the REAL
# Python function on candidate argument tuples)

CANDIDATE_ARGS = [
    (), ("1",), ("2.5",), ("'ab'",), ("'a'",), ("[3, 1, 2]",), ("['a', 'b']",), ("{'a': 1}",), ("(1, 2)",), ("{1, 2}",),
    ("True",), ("None",), ("len",), ("str", "[1, 2]"), ("None", "[1, 0]"),
    ("1", "2"), ("2.5", "1"), ("'a'", "'b'"), ("[1, 2]", "[3, 4]"), ("'ab'", "1"), ("1", "'ab'"), ("[1, 2]", "1"),
    ("{'a': 1}", "'a'"), ("'a'", "{'a': 1}"), ("int", "int"), ("1", "int"), ("'abc'", "'a'", "'b'"), ("1", "2", "3"),
    ("'ab'", "1", "'c'"), ("[1, 2]", "0", "5"), ("1.5", "2.5"), ("'a b'",), ("'%d'",), ("['a', 'b']", "'a'"),
]

MANUAL_BUILTINS = {
    "input": "input('prompt')", "open": "open('data.txt')", "print": "print(1, 'a')", "help": "help(len)",
    "__import__": "__import__('math')", "exit": "exit()", "quit": "quit()", "breakpoint": "breakpoint()",
    "exec": "exec('x = 1')", "eval": "eval('1 + 1')", "compile": "compile('1', 'f', 'eval')",
    "globals": "globals()", "locals": "locals()", "vars": "vars()", "dir": "dir()",
    "setattr": "setattr(object(), 'a', 1)", "delattr": "delattr(object(), 'a')", "getattr": "getattr(1, 'real')",
    "hasattr": "hasattr(1, 'real')", "super": "super()", "classmethod": "classmethod(len)",
    "staticmethod": "staticmethod(len)", "next": "next(iter([1, 2]))", "iter": "iter([1, 2])",
    "id": "id(1)", "hash": "hash('a')",
}

RECEIVERS = {
    "StrType": ["'hello world'"], "ListType": ["[3, 1, 2]", "['a', 'b']"], "DictType": ["{'a': 1, 'b': 2}"],
    "IntType": ["5"], "FloatType": ["2.5"], "BoolType": ["True"], "NumType": ["2.5"], "SetType": ["{1, 2}"],
    "TupleType": ["(1, 2, 1)"], "FileType": ["open('data.txt')"],
}


STD_MODULES = ("math", "random", "string", "json", "pprint", "dataclasses")


def _try(expr_src, env=None):
    """Well-typed = the REAL function accepts these arguments (a ValueError etc. is still a well-typed call)."""
    try:
        eval(compile(expr_src, "<template>", "eval"), {"__builtins__": builtins}, env or {})
        return True
    except (TypeError, AttributeError, NameError, SyntaxError):
        return False
    except BaseException:
        return True


def builtin_call_programs(rows):
    """rows: [(table, name), ...] from the generated table.  -> [(table, name, code or None)]"""
    out = []
    for table, name in rows:
        src = None
        if table == "builtins":
            if name in MANUAL_BUILTINS:
                src = MANUAL_BUILTINS[name]
            elif isinstance(getattr(builtins, name, None), type) and issubclass(getattr(builtins, name), BaseException):
                src = "%s('message')" % name if _try("%s('message')" % name) else "%s()" % name
            elif hasattr(builtins, name):
                for args in CANDIDATE_ARGS:
                    cand = "%s(%s)" % (name, ", ".join(args))
                    if _try(cand):
                        src = cand
                        break
            code = None if src is None else "value = %s\nprint(value)\n" % src
        elif table.startswith("module:"):
            mod = table.split(":", 1)[1]
            if mod.split(".")[0] not in STD_MODULES:
                out.append((table, name, None))
                continue
            if (mod, name) == ("dataclasses", "dataclass"):
                out.append((table, name, "from dataclasses import dataclass\n@dataclass\nclass Point:\n    x: int\n"
                                         "    y: int\nvalue = Point(1, 2)\nprint(value.x)\n"))
                continue
            try:
                m = __import__(mod, fromlist=["_"])
                f = getattr(m, name, None)
            except BaseException:
                m = f = None
            if f is not None and callable(f):
                for args in CANDIDATE_ARGS:
                    cand = "%s.%s(%s)" % (mod, name, ", ".join(args))
                    if _try(cand, {mod.split(".")[0]: __import__(mod.split(".")[0])}):
                        src = cand
                        break
            code = None if src is None else "import %s\nvalue = %s\nprint(value)\n" % (mod, src)
        else:
            for recv in RECEIVERS.get(table, []):
                if table == "FileType":
                    manual = {"close": "()", "read": "()", "readline": "()", "readlines": "()", "write": "('x')",
                              "writelines": "(['x'])", "tell": "()", "seek": "(0)"}
                    if name in manual:
                        src = "handle.%s%s" % (name, manual[name])
                    break
                for args in CANDIDATE_ARGS:
                    cand = "%s.%s(%s)" % (recv, name, ", ".join(args))
                    if _try(cand):
                        src = "receiver.%s(%s)" % (name, ", ".join(args))
                        code_recv = recv
                        break
                if src:
                    break
            if src is None:
                code = None
            elif table == "FileType":
                code = "handle = open('data.txt')\nvalue = %s\nprint(value)\n" % src
            else:
                code = "receiver = %s\nvalue = %s\nprint(value)\nprint(receiver)\n" % (code_recv, src)
        out.append((table, name, code))
    return out


# --------------------------------------------------------------------------------------------
# CS1-style programs (typed generator)

class Intro:
    """Well-typed programs in the introductory subset: assignments, operators, builtin functions, methods of
    numbers/strings/lists/dicts, branches, loops, function definitions, imports of standard modules."""

    def __init__(self, rng):
        self.rng = rng
        self.vars = {}      # name -> type
        self.funcs = {}     # name -> (param types, return type)
        self.counter = 0
        self.imports = set()

    def fresh(self, prefix="v"):
        self.counter += 1
        return "%s%d" % (prefix, self.counter)

    def of_type(self, t):
        return [n for n, tt in self.vars.items() if tt == t]

    def expr(self, t, d=2):
        e = self.expr0(t, d)
        # compound expressions are parenthesised so that they can be used as operands / receivers
        if any(op in e for op in (" + ", " - ", " * ", " / ", " // ", " % ", " and ", " or ", "not ", " < ", " <= ",
                                  " > ", " >= ", " == ", " != ", " in ")) and not (e[0] in "([{" and e[-1] in ")]}"):
            return "(" + e + ")"
        return e

    def expr0(self, t, d=2):
        r = self.rng
        have = self.of_type(t)
        if have and r.random() < 0.45:
            return r.choice(have)
        if d <= 0:
            return self.literal(t)
        k = r.random()
        if t == "int":
            if k < 0.3:
                return "%s %s %s" % (self.expr("int", d - 1), r.choice(["+", "-", "*", "//", "%"]), self.expr("int", d - 1))
            if k < 0.45:
                return "len(%s)" % self.expr(r.choice(["str", "list_int", "list_str"]), d - 1)
            if k < 0.55:
                return "int(%s)" % self.expr(r.choice(["float", "int"]), d - 1)
            if k < 0.65:
                return "%s(%s)" % (r.choice(["sum", "max", "min"]), self.expr("list_int", d - 1))
            if k < 0.72:
                return "abs(%s)" % self.expr("int", d - 1)
            if k < 0.8:
                return "%s.%s(%s)" % (self.expr("str", d - 1), r.choice(["count", "find", "index"]), self.expr("str", 0))
            if k < 0.86 and self.of_type("dict"):
                return "%s[%s]" % (r.choice(self.of_type("dict")), self.expr("str", 0))
            if k < 0.92:
                return "%s[%s]" % (self.expr("list_int", d - 1), self.expr("int", 0))
            fs = [f for f, (ps, rt) in self.funcs.items() if rt == "int"]
            if fs:
                return self.call(r.choice(fs), d)
            return self.literal(t)
        if t == "float":
            if k < 0.3:
                return "%s %s %s" % (self.expr("float", d - 1), r.choice(["+", "-", "*", "/"]), self.expr(r.choice(["float", "int"]), d - 1))
            if k < 0.45:
                return "%s / %s" % (self.expr("int", d - 1), self.expr("int", d - 1))
            if k < 0.6:
                return "float(%s)" % self.expr(r.choice(["int", "float"]), d - 1)
            if k < 0.7:
                return "round(%s, 2)" % self.expr("float", d - 1)
            if k < 0.85:
                self.imports.add("math")
                return "math.%s(%s)" % (r.choice(["sqrt", "sin", "cos", "log", "exp", "fabs"]), self.expr("float", d - 1))
            return self.literal(t)
        if t == "str":
            if k < 0.25:
                return "%s + %s" % (self.expr("str", d - 1), self.expr("str", d - 1))
            if k < 0.4:
                return "str(%s)" % self.expr(r.choice(["int", "float", "bool"]), d - 1)
            if k < 0.6:
                return "%s.%s()" % (self.expr("str", d - 1), r.choice(["upper", "lower", "strip", "title", "capitalize"]))
            if k < 0.68:
                return "%s.replace(%s, %s)" % (self.expr("str", d - 1), self.expr("str", 0), self.expr("str", 0))
            if k < 0.76:
                return "%s[%s]" % (self.expr("str", d - 1), self.expr("int", 0))
            if k < 0.82:
                return "%s[%s:%s]" % (self.expr("str", d - 1), self.literal("int"), self.literal("int"))
            if k < 0.88:
                return "%s.join(%s)" % (self.literal("str"), self.expr("list_str", d - 1))
            if k < 0.93:
                return "%s * %s" % (self.expr("str", d - 1), self.literal("int"))
            return self.literal(t)
        if t == "bool":
            if k < 0.35:
                tt = r.choice(["int", "float", "str"])
                return "%s %s %s" % (self.expr(tt, d - 1), r.choice(["<", "<=", ">", ">=", "==", "!="]), self.expr(tt, d - 1))
            if k < 0.5:
                return "%s %s %s" % (self.expr("bool", d - 1), r.choice(["and", "or"]), self.expr("bool", d - 1))
            if k < 0.58:
                return "not %s" % self.expr("bool", d - 1)
            if k < 0.68:
                return "%s in %s" % (self.expr("int", 0), self.expr("list_int", d - 1))
            if k < 0.76:
                return "%s in %s" % (self.expr("str", 0), self.expr(r.choice(["str", "list_str"]), d - 1))
            if k < 0.84:
                return "%s.%s()" % (self.expr("str", d - 1), r.choice(["isdigit", "isalpha", "isupper", "islower"]))
            if k < 0.9:
                return "%s.startswith(%s)" % (self.expr("str", d - 1), self.literal("str"))
            return self.literal(t)
        if t == "list_int":
            if k < 0.2:
                return "[%s]" % ", ".join(self.expr("int", d - 1) for _ in range(r.randint(1, 3)))
            if k < 0.35:
                return "%s + %s" % (self.expr("list_int", d - 1), self.expr("list_int", d - 1))
            if k < 0.45:
                return "list(range(%s))" % self.expr("int", d - 1)
            if k < 0.55:
                return "sorted(%s)" % self.expr("list_int", d - 1)
            if k < 0.62:
                return "%s[1:]" % self.expr("list_int", d - 1)
            if k < 0.7:
                return "[%s for %s in %s]" % ("item * 2", "item", self.expr("list_int", d - 1))
            return self.literal(t)
        if t == "list_str":
            if k < 0.3:
                return "%s.split()" % self.expr("str", d - 1)
            if k < 0.45:
                return "[%s]" % ", ".join(self.expr("str", d - 1) for _ in range(r.randint(1, 3)))
            if k < 0.55 and self.of_type("dict"):
                return "list(%s.keys())" % r.choice(self.of_type("dict"))
            return self.literal(t)
        if t == "dict":
            return self.literal(t)
        return "None"

    def literal(self, t):
        r = self.rng
        return {"int": lambda: str(r.randint(0, 20)), "float": lambda: "%d.%d" % (r.randint(0, 9), r.randint(0, 9)),
                "str": lambda: repr(r.choice(["a", "hello", "x y", "", "Abc", "12"])),
                "bool": lambda: r.choice(["True", "False"]),
                "list_int": lambda: "[%s]" % ", ".join(str(r.randint(0, 9)) for _ in range(r.randint(0, 4))),
                "list_str": lambda: "[%s]" % ", ".join(repr(r.choice(["a", "b", "cat"])) for _ in range(r.randint(1, 3))),
                "dict": lambda: "{%s}" % ", ".join("%r: %d" % (k, r.randint(0, 9)) for k in r.sample(["a", "b", "c", "d"], r.randint(1, 3)))}[t]()

    def call(self, f, d=1):
        ps, _ = self.funcs[f]
        return "%s(%s)" % (f, ", ".join(self.expr(p, d - 1) for p in ps))

    TYPES = ["int", "float", "str", "bool", "list_int", "list_str", "dict"]

    def stmt(self, ind, depth, in_func=None, in_loop=False):
        r = self.rng
        k = r.random()
        out = []
        if k < 0.3 or depth <= 0:
            t = r.choice(self.TYPES)
            name = r.choice(self.of_type(t)) if (self.of_type(t) and r.random() < 0.3) else self.fresh()
            out.append("%s%s = %s" % (ind, name, self.expr(t)))
            self.vars[name] = t
        elif k < 0.42:
            args = [self.expr(r.choice(self.TYPES[:4])) for _ in range(r.randint(1, 3))]
            out.append("%sprint(%s)" % (ind, ", ".join(args)))
        elif k < 0.5:
            t = r.choice(["int", "float", "str", "list_int"])
            if self.of_type(t):
                out.append("%s%s %s= %s" % (ind, r.choice(self.of_type(t)), "+" if t in ("str", "list_int") else r.choice("+-*"), self.expr(t, 1)))
            else:
                out.append("%spass" % ind)
        elif k < 0.58:
            if self.of_type("list_int"):
                l = r.choice(self.of_type("list_int"))
                out.append("%s%s.append(%s)" % (ind, l, self.expr("int", 1)))
            elif self.of_type("dict"):
                out.append("%s%s[%s] = %s" % (ind, r.choice(self.of_type("dict")), self.literal("str"), self.expr("int", 1)))
            else:
                out.append("%spass" % ind)
        elif k < 0.72:
            out.append("%sif %s:" % (ind, self.expr("bool")))
            saved = dict(self.vars)
            out += self.block(ind + "    ", depth - 1, in_func, in_loop)
            self.vars = dict(saved)
            for _ in range(r.choice([0, 0, 1])):
                out.append("%selif %s:" % (ind, self.expr("bool")))
                out += self.block(ind + "    ", depth - 1, in_func, in_loop)
                self.vars = dict(saved)
            if r.random() < 0.6:
                out.append("%selse:" % ind)
                out += self.block(ind + "    ", depth - 1, in_func, in_loop)
                self.vars = dict(saved)
        elif k < 0.84:
            saved = dict(self.vars)
            kind = r.random()
            v = self.fresh("item")
            if kind < 0.3:
                out.append("%sfor %s in range(%s):" % (ind, v, self.expr("int", 1)))
                self.vars[v] = "int"
            elif kind < 0.55:
                out.append("%sfor %s in %s:" % (ind, v, self.expr("list_int", 1)))
                self.vars[v] = "int"
            elif kind < 0.75:
                out.append("%sfor %s in %s:" % (ind, v, self.expr(r.choice(["list_str", "str"]), 1)))
                self.vars[v] = "str"
            elif kind < 0.85 and self.of_type("dict"):
                k2 = self.fresh("val")
                out.append("%sfor %s, %s in %s.items():" % (ind, v, k2, r.choice(self.of_type("dict"))))
                self.vars[v] = "str"
                self.vars[k2] = "int"
            else:
                out.append("%sfor %s in enumerate(%s):" % (ind, v, self.expr("list_str", 1)))
            out += self.block(ind + "    ", depth - 1, in_func, True)
            self.vars = saved
        elif k < 0.9:
            c = self.fresh("count")
            out.append("%s%s = 0" % (ind, c))
            self.vars[c] = "int"
            out.append("%swhile %s < %s:" % (ind, c, self.expr("int", 1)))
            saved = dict(self.vars)
            out += self.block(ind + "    ", depth - 1, in_func, True)
            out.append("%s    %s += 1" % (ind, c))
            if r.random() < 0.2:
                out.append("%s    if %s:\n%s        %s" % (ind, self.expr("bool", 1), ind, r.choice(["break", "continue"])))
            self.vars = saved
        elif in_func is None and ind == "":
            f = self.fresh("func")
            ps = [r.choice(self.TYPES[:5]) for _ in range(r.randint(0, 3))]
            rt = r.choice(self.TYPES[:5])
            names = [self.fresh("p") for _ in ps]
            saved = dict(self.vars)
            self.vars = dict(zip(names, ps))
            ann = r.random() < 0.4
            pyt = {"int": "int", "float": "float", "str": "str", "bool": "bool", "list_int": "list[int]"}
            if ann:
                out.append("def %s(%s) -> %s:" % (f, ", ".join("%s: %s" % (n, pyt[t]) for n, t in zip(names, ps)), pyt[rt]))
            else:
                out.append("def %s(%s):" % (f, ", ".join(names)))
            if r.random() < 0.3:
                out.append('    """Docstring."""')
            out += self.block("    ", depth - 1, f, False)
            out.append("    return %s" % self.expr(rt))
            self.vars = saved
            self.funcs[f] = (ps, rt)
            v = self.fresh()
            out.append("%s = %s" % (v, self.call(f)))
            self.vars[v] = rt
        else:
            out.append("%sprint(%s)" % (ind, self.expr("str")))
        return out

    def block(self, ind, depth, in_func=None, in_loop=False):
        out = []
        for _ in range(self.rng.randint(1, 3)):
            out += self.stmt(ind, depth, in_func, in_loop)
        return out

    def program(self):
        body = []
        for _ in range(self.rng.randint(2, 8)):
            body += self.stmt("", 2)
        head = ["import %s" % m for m in sorted(self.imports)]
        if "math" in self.imports and self.rng.random() < 0.3:
            head.append("from math import pi")
        return "\n".join(head + body) + "\n"


def gen_intro(rng):
    for _ in range(20):
        code = Intro(rng).program()
        try:
            ast.parse(code)
            return code
        except SyntaxError:
            continue
    return "x = 1\nprint(x)\n"

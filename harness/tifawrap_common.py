"""
C18 shared pieces: running tifa_analysis the way the property observes it, program generators
(introductory subset with every documented builtin/method, arbitrary-grammar programs, mutated corpus
programs), and the oracle written from the property text.
"""
import ast
import builtins
import json
import os
import random
import traceback

from common import REPO, use_repo

use_repo()


# --------------------------------------------------------------------------------------------
# observing the real code

def canon_issues(analysis):
    out = []
    for label, items in analysis.issues.items():
        for i in items:
            loc = getattr(i, "location", None)
            line = getattr(loc, "line", None)
            name = None
            try:
                name = i.fields.get("name")
            except Exception:
                pass
            out.append([label, name if isinstance(name, (str, type(None))) else str(name), line])
    return sorted(out, key=lambda t: json.dumps(t))


def where_of(err):
    """Innermost pedal frame of the exception: identifies the root cause of an internal failure."""
    tb = traceback.extract_tb(err.__traceback__)
    for fr in reversed(tb):
        if os.sep + "pedal" + os.sep in fr.filename:
            return os.path.basename(fr.filename) + ":" + fr.name
    return "?"


def tifa_feedback(report):
    return [f for f in report.feedback]


def is_system(f):
    return (getattr(f, "category", None) or "").lower() == "system"


OWN_REPORT_MODES = (None, "contextualized", "no-submission")


def setup_report(code, filename=None, offset=0, own_report=None, extra_files=None):
    """own_report: None = pedal's MAIN_REPORT (the default argument of tifa_analysis); "contextualized" = a Report()
    of our own that got the submission; "no-submission" = a bare Report() (tifa_analysis(code, report=Report())).
    extra_files: further student files of the submission ({name: text}), importable from the main file."""
    from pedal.core.report import MAIN_REPORT, Report
    from pedal.core.commands import contextualize_report
    from pedal.core.submission import Submission
    if own_report:
        MAIN_REPORT.clear()
        report = Report()
        if own_report == "no-submission":
            return report
    else:
        report = MAIN_REPORT
    if extra_files:
        files = dict(extra_files)
        files[filename or "answer.py"] = code
        contextualize_report(Submission(files, filename or "answer.py"), report=report)
    elif filename is None:
        contextualize_report(code, report=report)
    else:
        contextualize_report(Submission({filename: code}, filename), report=report)
    if offset:
        report.submission.line_offsets[report.submission.main_file] = offset
    return report


def one_call(report, base, code, bare, first=None):
    """One tifa_analysis call -> JSON-able record (or {'raised': ...}).  `base` = number of feedback objects on the
    report before the first call; with a report of our own, (that, the number on MAIN_REPORT)."""
    from pedal.tifa import tifa_analysis
    from pedal.core.report import MAIN_REPORT
    own = report is not MAIN_REPORT
    if isinstance(base, tuple):
        base, main_base = base
    else:
        main_base = 0
    try:
        if own:
            t = tifa_analysis(report=report) if bare else tifa_analysis(code, report=report)
        else:
            t = tifa_analysis() if bare else tifa_analysis(code)
    except BaseException as e:
        return None, {"raised": type(e).__name__ + ": " + str(e)[:120] if _safe_str(e) else type(e).__name__,
                      "raised_class": type(e).__name__}
    fbs = report.feedback[base:]
    elsewhere = MAIN_REPORT.feedback[main_base:] if own else []
    # feedback attached ANYWHERE counts (a repeated analysis must attach none, on whichever report)
    call = {"success": bool(t.success), "issues": canon_issues(t), "feedback": len(fbs) + len(elsewhere),
            "system": sum(1 for f in fbs + elsewhere if is_system(f)), "same_object": first is None or t is first}
    if own:
        call["on_main_report_instead"] = len(elsewhere)
    if not t.success:
        call["error_class"] = type(t.error).__name__
        call["error"] = (str(t.error)[:160] if _safe_str(t.error) else "<unprintable>")
        call["where"] = where_of(t.error) if isinstance(t.error, BaseException) else "?"
        call["parse_failed"] = any(is_system(f) and "Could not parse" in str(getattr(f, "message", "")) for f in fbs + elsewhere)
    return t, call


def _safe_str(e):
    try:
        str(e)
        return True
    except BaseException:
        return False


def _bases(report):
    from pedal.core.report import MAIN_REPORT
    return len(report.feedback) if report is MAIN_REPORT else (len(report.feedback), len(MAIN_REPORT.feedback))


def observe(code, offset=0, repeats=2, filename=None, bare=False, own_report=None):
    """Fresh report; `repeats`+1 calls of tifa_analysis on the same code.  Returns a JSON-able dict; never
    raises (an escaping exception is recorded under 'raised')."""
    res = {"calls": []}
    try:
        report = setup_report(code, filename, offset, own_report)
    except BaseException as e:   # not TIFA's business
        res["setup_error"] = type(e).__name__
        return res
    base = _bases(report)
    first = None
    for k in range(repeats + 1):
        t, call = one_call(report, base, code, bare and own_report != "no-submission", first)
        if t is None:
            res.update(call)
            return res
        res["calls"].append(call)
        if first is None:
            first = t
    return res


def observe_history(codes, calls, offset=0, filename=None, own_report=None):
    """Fresh report whose main code is codes[0]; then tifa_analysis(codes[i]) for i in calls.
    -> list of call records (stops at the first escaping exception)."""
    out = []
    try:
        report = setup_report(codes[0], filename, offset, own_report)
    except BaseException as e:
        return [{"setup_error": type(e).__name__}]
    base = _bases(report)
    for i in calls:
        t, call = one_call(report, base, codes[i], False)
        out.append(call)
        if t is None:
            break
    return out


def fresh_issues(code, filename=None):
    """A second, independent analysis (new report): determinism."""
    r = observe(code, repeats=0, filename=filename)
    return r["calls"][0]["issues"] if r.get("calls") else r


def standalone_nondeterministic(code, filename=None):
    """In a NEW interpreter: do two fresh-report analyses of `code` differ?  (True / False / None = could not run).
    Tells a self-contained determinism failure from one that needs the programs analysed earlier in the run."""
    import subprocess
    import sys
    prog = ("import sys, json\nsys.path.insert(0, %r)\nimport tifawrap_common as tw\n"
            "c = json.load(sys.stdin)\n"
            "a = tw.observe(c['code'], repeats=0, filename=c['filename'])\n"
            "b = tw.observe(c['code'], repeats=0, filename=c['filename'])\n"
            "print('RESULT', json.dumps(a.get('calls') != b.get('calls')))\n" % os.path.dirname(os.path.abspath(__file__)))
    try:
        p = subprocess.run([sys.executable, "-X", "utf8", "-W", "ignore", "-c", prog], input=json.dumps({"code": code, "filename": filename}),
                           capture_output=True, text=True, timeout=120)
    except Exception:
        return None
    for line in p.stdout.splitlines():
        if line.startswith("RESULT "):
            return json.loads(line[7:])
    return None


def nlines(code):
    """Number of lines as CPython numbers them (universal newlines: \\n, \\r\\n and lone \\r end a line;
    form feed, \\x1c-\\x1e, \\x85, U+2028/9 do not)."""
    import re
    return len(re.split("\r\n|\r|\n", code))


def norm_message(msg):
    """Error message reduced to its shape (names and numbers removed): identifies a root cause across programs."""
    import re
    msg = re.sub(r"attribute '[^']*'", "attribute *", msg)
    msg = re.sub(r"\d+", "N", msg)
    return msg[:70]


def oracle(code, obs, must_complete, determinism=None, offset=0):
    """-> list of (signature, what)."""
    bad = []
    if "setup_error" in obs:
        return bad
    if "raised" in obs:
        return [({"kind": "raised", "error": obs["raised_class"]}, "tifa_analysis raised " + obs["raised"])]
    c0 = obs["calls"][0]
    for k, c in enumerate(obs["calls"][1:], 1):
        if c["issues"] != c0["issues"] or c["success"] != c0["success"]:
            bad.append(({"kind": "not-idempotent", "what": "issues"}, "call %d returned different issues than call 0" % k))
        if c["feedback"] != c0["feedback"]:
            bad.append(({"kind": "not-idempotent", "what": "feedback"},
                        "call %d attached %d more feedback object(s) to the report" % (k, c["feedback"] - c0["feedback"])))
    if determinism is not None and determinism != c0["issues"]:
        only_a = [i for i in c0["issues"] if i not in determinism] if isinstance(determinism, list) else []
        only_b = [i for i in determinism if i not in c0["issues"]] if isinstance(determinism, list) else determinism
        bad.append(({"kind": "nondeterministic"}, "a fresh analysis of the same code gave different issues (only in the "
                    "first: %s; only in the fresh one: %s)" % (json.dumps(only_a)[:300], json.dumps(only_b)[:300])))
    n = nlines(code)
    for label, name, line in c0["issues"]:
        if line is not None and not (offset + 1 <= line <= offset + n):
            bad.append(({"kind": "line-out-of-range", "label": label},
                        "issue %s located at line %r of a %d-line source" % (label, line, n)))
    if not c0["success"]:
        if c0["system"] != 1:
            bad.append(({"kind": "failure-not-reported"}, "failed analysis attached %d system feedback" % c0["system"]))
        if must_complete:
            bad.append(({"kind": "analysis-failed", "error": c0["error_class"], "message": norm_message(c0["error"])},
                        "introductory-subset program not analysed: %s: %s (in %s)" % (c0["error_class"], c0["error"], c0["where"])))
    return bad


# --------------------------------------------------------------------------------------------
# well-typed calls of every documented builtin function / method (templates found by trying the REAL
# Python function on candidate argument tuples)

CANDIDATE_ARGS = [
    (), ("1",), ("2.5",), ("'ab'",), ("'a'",), ("[3, 1, 2]",), ("['a', 'b']",), ("{'a': 1}",), ("(1, 2)",), ("{1, 2}",),
    ("True",), ("None",), ("len",), ("str", "[1, 2]"), ("None", "[1, 0]"),
    ("1", "2"), ("2.5", "1"), ("'a'", "'b'"), ("[1, 2]", "[3, 4]"), ("'ab'", "1"), ("1", "'ab'"), ("[1, 2]", "1"),
    ("{'a': 1}", "'a'"), ("'a'", "{'a': 1}"), ("int", "int"), ("1", "int"), ("'abc'", "'a'", "'b'"), ("1", "2", "3"),
    ("'ab'", "1", "'c'"), ("[1, 2]", "0", "5"), ("1.5", "2.5"), ("'a b'",), ("'%d'",), ("['a', 'b']", "'a'"),
]

MANUAL_BUILTINS = {
    "input": "input('prompt')", "open": "open('data.txt')", "print": "print(1, 'a')", "help": "help(len)",
    "__import__": "__import__('math')", "exit": "exit()", "quit": "quit()", "breakpoint": "breakpoint()",
    "exec": "exec('x = 1')", "eval": "eval('1 + 1')", "compile": "compile('1', 'f', 'eval')",
    "globals": "globals()", "locals": "locals()", "vars": "vars()", "dir": "dir()",
    "setattr": "setattr(object(), 'a', 1)", "delattr": "delattr(object(), 'a')", "getattr": "getattr(1, 'real')",
    "hasattr": "hasattr(1, 'real')", "super": "super()", "classmethod": "classmethod(len)",
    "staticmethod": "staticmethod(len)", "next": "next(iter([1, 2]))", "iter": "iter([1, 2])",
    "id": "id(1)", "hash": "hash('a')",
}

RECEIVERS = {
    "StrType": ["'hello world'"], "ListType": ["[3, 1, 2]", "['a', 'b']"], "DictType": ["{'a': 1, 'b': 2}"],
    "IntType": ["(5)"], "FloatType": ["2.5"], "BoolType": ["True"], "NumType": ["2.5"], "SetType": ["{1, 2}"],
    "TupleType": ["(1, 2, 1)"], "FileType": ["open('data.txt')"],
}


# standard modules whose functions cannot be tried for real here (they need a display): hand-written calls
MANUAL_MODULE_CALLS = {
    ("turtle", "forward"): "turtle.forward(10)", ("turtle", "backward"): "turtle.backward(10)",
    ("turtle", "color"): "turtle.color('red')", ("turtle", "right"): "turtle.right(90)",
    ("turtle", "left"): "turtle.left(90)",
}
NO_REAL_TRY = ("turtle", "tkinter")


def _try(expr_src, env=None):
    """Well-typed = the REAL function accepts these arguments (a ValueError etc. is still a well-typed call)."""
    import contextlib
    import io
    try:
        with contextlib.redirect_stdout(io.StringIO()):
            eval(compile(expr_src, "<template>", "eval"), {"__builtins__": builtins}, env or {})
        return True
    except (TypeError, AttributeError, NameError, SyntaxError):
        return False
    except BaseException:
        return True


def builtin_call_programs(rows):
    """rows: [(table, name), ...] from the generated table.  -> [(table, name, code or None)]"""
    out = []
    for table, name in rows:
        src = None
        if table == "builtins":
            if name in MANUAL_BUILTINS:
                src = MANUAL_BUILTINS[name]
            elif isinstance(getattr(builtins, name, None), type) and issubclass(getattr(builtins, name), BaseException):
                src = "%s('message')" % name if _try("%s('message')" % name) else "%s()" % name
            elif hasattr(builtins, name):
                for args in CANDIDATE_ARGS:
                    cand = "%s(%s)" % (name, ", ".join(args))
                    if _try(cand):
                        src = cand
                        break
            code = None if src is None else "value = %s\nprint(value)\n" % src
        elif table.startswith("extmodule:"):
            out.append((table, name, None))     # third-party module: outside the property's subset
            continue
        elif table.startswith("module:"):
            mod = table.split(":", 1)[1]
            if (mod, name) in MANUAL_MODULE_CALLS:
                out.append((table, name, "import %s\nvalue = %s\nprint(value)\n" % (mod, MANUAL_MODULE_CALLS[(mod, name)])))
                continue
            if mod.split(".")[0] in NO_REAL_TRY:
                out.append((table, name, "import %s\nvalue = %s.%s()\nprint(value)\n" % (mod, mod, name)))
                continue
            if (mod, name) == ("dataclasses", "dataclass"):
                out.append((table, name, "from dataclasses import dataclass\n@dataclass\nclass Point:\n    x: int\n"
                                         "    y: int\nvalue = Point(1, 2)\nprint(value.x)\n"))
                continue
            try:
                m = __import__(mod, fromlist=["_"])
                f = getattr(m, name, None)
            except BaseException:
                m = f = None
            if f is not None and callable(f):
                for args in CANDIDATE_ARGS:
                    cand = "%s.%s(%s)" % (mod, name, ", ".join(args))
                    if _try(cand, {mod.split(".")[0]: __import__(mod.split(".")[0])}):
                        src = cand
                        break
            code = None if src is None else "import %s\nvalue = %s\nprint(value)\n" % (mod, src)
        else:
            for recv in RECEIVERS.get(table, []):
                if table == "FileType":
                    manual = {"close": "()", "read": "()", "readline": "()", "readlines": "()", "write": "('x')",
                              "writelines": "(['x'])", "tell": "()", "seek": "(0)"}
                    if name in manual:
                        src = "handle.%s%s" % (name, manual[name])
                    break
                for args in CANDIDATE_ARGS:
                    cand = "%s.%s(%s)" % (recv, name, ", ".join(args))
                    if _try(cand):
                        src = "receiver.%s(%s)" % (name, ", ".join(args))
                        code_recv = recv
                        break
                if src:
                    break
            if src is None:
                code = None
            elif table == "FileType":
                code = "handle = open('data.txt')\nvalue = %s\nprint(value)\n" % src
            else:
                code = "receiver = %s\nvalue = %s\nprint(value)\nprint(receiver)\n" % (code_recv, src)
        out.append((table, name, code))
    return out


# --------------------------------------------------------------------------------------------
# state-leak probes: determinism across analyses.  TIFA's Type objects carry a mutable `fields` dict and
# mutable element types; a value whose Type object is shared between analyses (a class-level dict, a builtin
# declared once at import) lets one analysis change the next.  Each probe first READS through the value
# (augmented assignment: an issue when the attribute/element is unknown) and then WRITES it, so a second,
# fresh analysis of the same text sees what the first one left behind.

LEAK_VALUES = [
    "'Ada'", "''", "5", "0", "2.5", "True", "None", "1j", "[1, 2]", "[]", "(1, 2)", "()", "{'a': 1}", "{}", "{1, 2}",
    "len('a')", "input()", "int('3')", "float('2')", "str(4)", "bool(0)", "list('ab')", "dict()", "set()", "tuple([1])",
    "range(3)", "sorted([2, 1])", "open('data.txt')", "'a b'.split()", "'a'.upper()", "abs(-1)", "round(2.5)",
    "max(1, 2)", "sum([1])", "enumerate([1])", "zip([1], [2])", "map(str, [1])", "print", "len", "int", "str", "list",
    "math", "math.pi", "math.sqrt(4.0)", "random.randint(1, 2)", "json.loads('1')", "string.digits",
    "'%d' % 3", "f'{3}'", "b'by'", "...", "1 if input() else 'a'", "[1, 'a']", "undefined_name", "lambda: 1",
]


LEAK_HEAD = "import math\nimport random\nimport json\nimport string\n"

# A leak stays in the process: once a shared Type object has got the attribute `extra`, every later probe that
# reads `extra` through the same object sees it in BOTH of its analyses and looks deterministic.  Every probe
# therefore gets attribute names that were never used before in this process (`extra` -> `extra<N>`).
_LEAK_COUNTER = [0]


def fresh_leak_names(code):
    """Replace every attribute name `extra` / `extra<digits>` by one that no earlier probe of this process used."""
    import re
    mapping = {}

    def sub(m):
        if m.group(0) not in mapping:
            _LEAK_COUNTER[0] += 1
            mapping[m.group(0)] = "extra%d" % _LEAK_COUNTER[0]
        return mapping[m.group(0)]
    return re.sub(r"\bextra\d*\b", sub, code)


# element values x the way a container is built from them x the PATH by which the element is reached again:
# an element type TIFA takes from a shared object (a class-level `parents=[IntType()]` instance returned by
# promote(), a builtin's return type declared once) is written through the path and read back by the next analysis
LEAK_ELEMENTS = ["3", "2.5", "'a'", "True", "None", "(1, 2)", "[1]", "{'k': 1}", "input()", "len('a')", "int('3')", "1j", "b'x'",
                 "abs(-1)", "3 + 4", "-3", "not True", "2.5 * 2", "'a' + 'b'", "'a' * 2", "1 < 2", "3 if input() else 4",
                 "round(2.5)", "max(1, 2)", "float('1')", "str(1)", "bool(1)", "math.pi", "math.sqrt(4.0)",
                 "random.randint(1, 2)", "random.random()"]
LEAK_CONTAINERS = ["[%s]", "[%s, %s]", "(%s,)", "(%s, %s)", "{%s}", "{'k': %s}", "{%s: 0}", "[[%s]]", "[%s] * 2", "[%s] + [%s]",
                   "list([%s])", "sorted([%s])", "tuple([%s])", "set([%s])", "[%s for _ in range(2)]", "[e for e in [%s]]",
                   "{'k': [%s]}"]
LEAK_PATHS = ["probe[0]", "probe['k']", "probe[0][0]", "probe['k'][0]", "probe.pop()", "max(probe)", "min(probe)",
              "sorted(probe)[0]", "list(probe)[0]", "next(iter(probe))", "probe.get('k')", "probe.copy()[0]", "sum(probe)",
              "probe[0:1][0]", "probe[-1]"]
LEAK_SHAPES = [
    "probe = {c}\nfor element in probe:\n    print(element.extra + 1)\n    element.extra = 5\n",
    "probe = {c}\nfor element in probe:\n    element.extra += 1\n",
    "probe = {c}\nprint([element.extra + 1 for element in probe])\nfor element in probe:\n    element.extra = 5\n",
    "def use(things):\n    first = things[0]\n    print(first.extra + 1)\n    first.extra = 5\nuse({c})\n",
    "first, *others = {c}\nprint(first.extra + 1)\nfirst.extra = 5\n",
    "probe = {c}\nfor key, element in probe.items():\n    print(element.extra + 1, key.extra + 1)\n    element.extra = 5\n    key.extra = 5\n",
    "probe = {c}\nfor index, element in enumerate(probe):\n    print(element.extra + 1, index.extra + 1)\n    element.extra = 5\n    index.extra = 5\n",
    "probe = {c}\nfor left, right in zip(probe, probe):\n    print(left.extra + 1)\n    left.extra = 5\n",
    "probe = {c}\nprobe[0][0] += 1\nprobe[0][0] = 'a'\nprint(probe[0][0] + 1)\n",
    "probe = {c}\nfor element in probe:\n    print(element + 1)\nprobe.append('txt')\n",
    "probe = {c}\nfor element in probe:\n    print(element + 1)\nprobe.add('txt')\n",
    "probe = {c}\nprint(probe['k'] + 1)\nprobe['k'] = 'txt'\n",
]
LEAK_VALUE_SHAPES = [
    "probe = {v}\nprobe.extra += 1\nprobe.extra = 2\nprint(probe)\n",
    "probe = {v}\nprobe.extra += 'a'\nprobe.extra = 'b'\nprint(probe.extra)\n",
    "probe = {v}\nprobe[0] += 'a'\nprobe[0] = 'b'\nprint(probe[0] + 1)\n",
    "def use(thing):\n    thing.extra += 1\n    thing.extra = [1]\n    return thing\nprint(use({v}).extra)\n",
    "def make():\n    return {v}\nprint(make().extra + 1)\nmake().extra = 5\n",
    "def use(thing={v}):\n    print(thing.extra + 1)\n    thing.extra = 5\nuse()\n",
    "def use(thing: int):\n    print(thing.extra + 1)\n    thing.extra = 5\nuse({v})\n",
    "probe = {v}\nfor element in probe:\n    print(element + 1)\nprobe.append('txt')\n",
    "probe = {v}\nprint(probe['k'] + 1)\nprobe['k'] = 'txt'\n",
]


def leak_fragments(full):
    """-> [fragment text]; `full` = the whole product (thorough), else every element x container x the main paths
    plus every path for three element kinds."""
    out = []
    values = LEAK_VALUES + [e for e in LEAK_ELEMENTS if e not in LEAK_VALUES]
    for v in values:
        out += [sh.replace("{v}", v) for sh in LEAK_VALUE_SHAPES]
    for e in LEAK_ELEMENTS:
        for c in LEAK_CONTAINERS:
            cont = c.replace("%s", e)
            main_path = "probe['k']" if c.startswith("{'k'") else "probe[0]"
            paths = LEAK_PATHS if (full or e in ("3", "[1]")) else [main_path]
            for p in paths:
                out.append("probe = %s\nprint(%s.extra + 1)\n%s.extra = 5\n" % (cont, p, p))
            shapes = LEAK_SHAPES if (full or e in ("3", "'a'", "[1]")) else [LEAK_SHAPES[0], LEAK_SHAPES[3]]
            out += [sh.replace("{c}", cont) for sh in shapes]
    return out


def state_leak_programs(full=False, chunk=20):
    """Packed probes (each with attribute names no earlier probe used); every program is analysed twice on
    fresh reports by the caller."""
    frags = leak_fragments(full)
    out = []
    for k in range(0, len(frags), chunk):
        out.append(LEAK_HEAD + "".join(fresh_leak_names(f) for f in frags[k:k + chunk]))
    return out


# --------------------------------------------------------------------------------------------
# CS1-style programs (typed generator)

class Intro:
    """Well-typed programs in the introductory subset: assignments, operators, builtin functions, methods of
    numbers/strings/lists/dicts, branches, loops, function definitions, imports of standard modules."""

    def __init__(self, rng):
        self.rng = rng
        self.vars = {}      # name -> type
        self.funcs = {}     # name -> (param types, return type)
        self.counter = 0
        self.imports = set()

    def fresh(self, prefix="v"):
        self.counter += 1
        return "%s%d" % (prefix, self.counter)

    def of_type(self, t):
        return [n for n, tt in self.vars.items() if tt == t]

    def expr(self, t, d=2):
        e = self.expr0(t, d)
        # compound expressions are parenthesised so that they can be used as operands / receivers
        if any(op in e for op in (" + ", " - ", " * ", " / ", " // ", " % ", " and ", " or ", "not ", " < ", " <= ",
                                  " > ", " >= ", " == ", " != ", " in ")) and not (e[0] in "([{" and e[-1] in ")]}"):
            return "(" + e + ")"
        return e

    def expr0(self, t, d=2):
        r = self.rng
        have = self.of_type(t)
        if have and r.random() < 0.45:
            return r.choice(have)
        if d <= 0:
            return self.literal(t)
        k = r.random()
        if t == "int":
            if k < 0.3:
                return "%s %s %s" % (self.expr("int", d - 1), r.choice(["+", "-", "*", "//", "%"]), self.expr("int", d - 1))
            if k < 0.45:
                return "len(%s)" % self.expr(r.choice(["str", "list_int", "list_str"]), d - 1)
            if k < 0.55:
                return "int(%s)" % self.expr(r.choice(["float", "int"]), d - 1)
            if k < 0.65:
                return "%s(%s)" % (r.choice(["sum", "max", "min"]), self.expr("list_int", d - 1))
            if k < 0.72:
                return "abs(%s)" % self.expr("int", d - 1)
            if k < 0.8:
                return "%s.%s(%s)" % (self.expr("str", d - 1), r.choice(["count", "find", "index"]), self.expr("str", 0))
            if k < 0.86 and self.of_type("dict"):
                return "%s[%s]" % (r.choice(self.of_type("dict")), self.expr("str", 0))
            if k < 0.92:
                return "%s[%s]" % (self.expr("list_int", d - 1), self.expr("int", 0))
            fs = [f for f, (ps, rt) in self.funcs.items() if rt == "int"]
            if fs:
                return self.call(r.choice(fs), d)
            return self.literal(t)
        if t == "float":
            if k < 0.3:
                return "%s %s %s" % (self.expr("float", d - 1), r.choice(["+", "-", "*", "/"]), self.expr(r.choice(["float", "int"]), d - 1))
            if k < 0.45:
                return "%s / %s" % (self.expr("int", d - 1), self.expr("int", d - 1))
            if k < 0.6:
                return "float(%s)" % self.expr(r.choice(["int", "float"]), d - 1)
            if k < 0.7:
                return "round(%s, 2)" % self.expr("float", d - 1)
            if k < 0.85:
                self.imports.add("math")
                return "math.%s(%s)" % (r.choice(["sqrt", "sin", "cos", "log", "exp", "fabs"]), self.expr("float", d - 1))
            return self.literal(t)
        if t == "str":
            if k < 0.25:
                return "%s + %s" % (self.expr("str", d - 1), self.expr("str", d - 1))
            if k < 0.4:
                return "str(%s)" % self.expr(r.choice(["int", "float", "bool"]), d - 1)
            if k < 0.6:
                return "%s.%s()" % (self.expr("str", d - 1), r.choice(["upper", "lower", "strip", "title", "capitalize"]))
            if k < 0.68:
                return "%s.replace(%s, %s)" % (self.expr("str", d - 1), self.expr("str", 0), self.expr("str", 0))
            if k < 0.76:
                return "%s[%s]" % (self.expr("str", d - 1), self.expr("int", 0))
            if k < 0.82:
                return "%s[%s:%s]" % (self.expr("str", d - 1), self.literal("int"), self.literal("int"))
            if k < 0.88:
                return "%s.join(%s)" % (self.literal("str"), self.expr("list_str", d - 1))
            if k < 0.93:
                return "%s * %s" % (self.expr("str", d - 1), self.literal("int"))
            return self.literal(t)
        if t == "bool":
            if k < 0.35:
                tt = r.choice(["int", "float", "str"])
                return "%s %s %s" % (self.expr(tt, d - 1), r.choice(["<", "<=", ">", ">=", "==", "!="]), self.expr(tt, d - 1))
            if k < 0.5:
                return "%s %s %s" % (self.expr("bool", d - 1), r.choice(["and", "or"]), self.expr("bool", d - 1))
            if k < 0.58:
                return "not %s" % self.expr("bool", d - 1)
            if k < 0.68:
                return "%s in %s" % (self.expr("int", 0), self.expr("list_int", d - 1))
            if k < 0.76:
                return "%s in %s" % (self.expr("str", 0), self.expr(r.choice(["str", "list_str"]), d - 1))
            if k < 0.84:
                return "%s.%s()" % (self.expr("str", d - 1), r.choice(["isdigit", "isalpha", "isupper", "islower"]))
            if k < 0.9:
                return "%s.startswith(%s)" % (self.expr("str", d - 1), self.literal("str"))
            return self.literal(t)
        if t == "list_int":
            if k < 0.2:
                return "[%s]" % ", ".join(self.expr("int", d - 1) for _ in range(r.randint(1, 3)))
            if k < 0.35:
                return "%s + %s" % (self.expr("list_int", d - 1), self.expr("list_int", d - 1))
            if k < 0.45:
                return "list(range(%s))" % self.expr("int", d - 1)
            if k < 0.55:
                return "sorted(%s)" % self.expr("list_int", d - 1)
            if k < 0.62:
                return "%s[1:]" % self.expr("list_int", d - 1)
            if k < 0.7:
                return "[%s for %s in %s]" % ("item * 2", "item", self.expr("list_int", d - 1))
            return self.literal(t)
        if t == "list_str":
            if k < 0.3:
                return "%s.split()" % self.expr("str", d - 1)
            if k < 0.45:
                return "[%s]" % ", ".join(self.expr("str", d - 1) for _ in range(r.randint(1, 3)))
            if k < 0.55 and self.of_type("dict"):
                return "list(%s.keys())" % r.choice(self.of_type("dict"))
            return self.literal(t)
        if t == "dict":
            return self.literal(t)
        return "None"

    def literal(self, t):
        r = self.rng
        return {"int": lambda: str(r.randint(0, 20)), "float": lambda: "%d.%d" % (r.randint(0, 9), r.randint(0, 9)),
                "str": lambda: repr(r.choice(["a", "hello", "x y", "", "Abc", "12"])),
                "bool": lambda: r.choice(["True", "False"]),
                "list_int": lambda: "[%s]" % ", ".join(str(r.randint(0, 9)) for _ in range(r.randint(0, 4))),
                "list_str": lambda: "[%s]" % ", ".join(repr(r.choice(["a", "b", "cat"])) for _ in range(r.randint(1, 3))),
                "dict": lambda: "{%s}" % ", ".join("%r: %d" % (k, r.randint(0, 9)) for k in r.sample(["a", "b", "c", "d"], r.randint(1, 3)))}[t]()

    def call(self, f, d=1):
        ps, _ = self.funcs[f]
        return "%s(%s)" % (f, ", ".join(self.expr(p, d - 1) for p in ps))

    TYPES = ["int", "float", "str", "bool", "list_int", "list_str", "dict"]

    def stmt(self, ind, depth, in_func=None, in_loop=False):
        r = self.rng
        k = r.random()
        out = []
        if k < 0.3 or depth <= 0:
            t = r.choice(self.TYPES)
            name = r.choice(self.of_type(t)) if (self.of_type(t) and r.random() < 0.3) else self.fresh()
            out.append("%s%s = %s" % (ind, name, self.expr(t)))
            self.vars[name] = t
        elif k < 0.42:
            args = [self.expr(r.choice(self.TYPES[:4])) for _ in range(r.randint(1, 3))]
            out.append("%sprint(%s)" % (ind, ", ".join(args)))
        elif k < 0.5:
            t = r.choice(["int", "float", "str", "list_int"])
            if self.of_type(t):
                out.append("%s%s %s= %s" % (ind, r.choice(self.of_type(t)), "+" if t in ("str", "list_int") else r.choice("+-*"), self.expr(t, 1)))
            else:
                out.append("%spass" % ind)
        elif k < 0.58:
            if self.of_type("list_int"):
                l = r.choice(self.of_type("list_int"))
                out.append("%s%s.append(%s)" % (ind, l, self.expr("int", 1)))
            elif self.of_type("dict"):
                out.append("%s%s[%s] = %s" % (ind, r.choice(self.of_type("dict")), self.literal("str"), self.expr("int", 1)))
            else:
                out.append("%spass" % ind)
        elif k < 0.72:
            out.append("%sif %s:" % (ind, self.expr("bool")))
            saved = dict(self.vars)
            out += self.block(ind + "    ", depth - 1, in_func, in_loop)
            self.vars = dict(saved)
            for _ in range(r.choice([0, 0, 1])):
                out.append("%selif %s:" % (ind, self.expr("bool")))
                out += self.block(ind + "    ", depth - 1, in_func, in_loop)
                self.vars = dict(saved)
            if r.random() < 0.6:
                out.append("%selse:" % ind)
                out += self.block(ind + "    ", depth - 1, in_func, in_loop)
                self.vars = dict(saved)
        elif k < 0.84:
            saved = dict(self.vars)
            kind = r.random()
            v = self.fresh("item")
            if kind < 0.3:
                out.append("%sfor %s in range(%s):" % (ind, v, self.expr("int", 1)))
                self.vars[v] = "int"
            elif kind < 0.55:
                out.append("%sfor %s in %s:" % (ind, v, self.expr("list_int", 1)))
                self.vars[v] = "int"
            elif kind < 0.75:
                out.append("%sfor %s in %s:" % (ind, v, self.expr(r.choice(["list_str", "str"]), 1)))
                self.vars[v] = "str"
            elif kind < 0.85 and self.of_type("dict"):
                k2 = self.fresh("val")
                out.append("%sfor %s, %s in %s.items():" % (ind, v, k2, r.choice(self.of_type("dict"))))
                self.vars[v] = "str"
                self.vars[k2] = "int"
            else:
                out.append("%sfor %s in enumerate(%s):" % (ind, v, self.expr("list_str", 1)))
            out += self.block(ind + "    ", depth - 1, in_func, True)
            if r.random() < 0.15:
                out.append("%selse:" % ind)
                out += self.block(ind + "    ", depth - 1, in_func, in_loop)
            self.vars = saved
        elif k < 0.9:
            c = self.fresh("count")
            out.append("%s%s = 0" % (ind, c))
            self.vars[c] = "int"
            out.append("%swhile %s < %s:" % (ind, c, self.expr("int", 1)))
            saved = dict(self.vars)
            out += self.block(ind + "    ", depth - 1, in_func, True)
            out.append("%s    %s += 1" % (ind, c))
            if r.random() < 0.2:
                out.append("%s    if %s:\n%s        %s" % (ind, self.expr("bool", 1), ind, r.choice(["break", "continue"])))
            if r.random() < 0.15:
                out.append("%selse:" % ind)
                out += self.block(ind + "    ", depth - 1, in_func, in_loop)
            self.vars = saved
        elif in_func is None and ind == "":
            f = self.fresh("func")
            ps = [r.choice(self.TYPES[:5]) for _ in range(r.randint(0, 3))]
            rt = r.choice(self.TYPES[:5])
            names = [self.fresh("p") for _ in ps]
            saved = dict(self.vars)
            self.vars = dict(zip(names, ps))
            ann = r.random() < 0.4
            pyt = {"int": "int", "float": "float", "str": "str", "bool": "bool", "list_int": "list[int]"}
            if ann:
                out.append("def %s(%s) -> %s:" % (f, ", ".join("%s: %s" % (n, pyt[t]) for n, t in zip(names, ps)), pyt[rt]))
            else:
                out.append("def %s(%s):" % (f, ", ".join(names)))
            if r.random() < 0.3:
                out.append('    """Docstring."""')
            out += self.block("    ", depth - 1, f, False)
            out.append("    return %s" % self.expr(rt))
            self.vars = saved
            self.funcs[f] = (ps, rt)
            v = self.fresh()
            out.append("%s = %s" % (v, self.call(f)))
            self.vars[v] = rt
        else:
            out.append("%sprint(%s)" % (ind, self.expr("str")))
        return out

    # (template lines, {new variable: type}); {t:int} etc. are filled with well-typed expressions,
    # {v:int} with an existing variable of that type (the template is skipped when there is none), {n} with a
    # fresh name
    TEMPLATES = [
        (["{n} = ({t:int}, {t:str})", "print({n}[0], {n}[1])"], {}),
        (["{n}, {n2} = {t:int}, {t:int}", "print({n} + {n2})"], {"{n}": "int", "{n2}": "int"}),
        (["{n} = {{{t:int}, {t:int}}}", "{n}.add({t:int})", "print(len({n}))"], {}),
        (["{n} = f'{{{t:int}}} and {{{t:str}!r}} {{{t:float}:.2f}}'", "print({n})"], {"{n}": "str"}),
        (["{n} = '%d items, %s' % ({t:int}, {t:str})"], {"{n}": "str"}),
        (["{n} = '{{}} {{}}'.format({t:int}, {t:str})"], {"{n}": "str"}),
        (["{n} = {t:str}.split(',')", "print({n})"], {"{n}": "list_str"}),
        (["{n} = {t:str}.center(20)", "{n2} = {n}.zfill(30).ljust(40).rjust(50).lstrip().rstrip().swapcase()"], {"{n}": "str", "{n2}": "str"}),
        (["{n} = {t:str}.endswith('a') or {t:str}.isalnum() or {t:str}.isspace() or {t:str}.istitle()"], {"{n}": "bool"}),
        (["{n} = {t:str}.rfind('a') + {t:str}.rindex('a')"], {}),
        (["{n} = {t:str}.splitlines() + {t:str}.rsplit()"], {"{n}": "list_str"}),
        (["{v:list_int}.sort()", "{v:list_int}.reverse()", "{v:list_int}.insert(0, {t:int})", "{v:list_int}.extend({t:list_int})",
          "{v:list_int}.remove({t:int})", "{n} = {v:list_int}.pop()", "print({v:list_int}.index({t:int}), {v:list_int}.count({t:int}))"], {}),
        (["{n} = {v:dict}.get({t:str})", "print({n})", "print({v:dict}.keys(), {v:dict}.values(), {v:dict}.items())"], {}),
        (["{n} = {v:dict}.pop({t:str})", "{v:dict}.update({{'zz': {t:int}}})", "{n2} = {v:dict}.copy()"], {"{n2}": "dict"}),
        (["for {n}, {n2} in {v:dict}.items():", "    print({n}, {n2})"], {}),
        (["for {n} in {v:dict}:", "    print({n}, {v:dict}[{n}])"], {}),
        (["for {n}, {n2} in enumerate({t:list_str}):", "    print({n}, {n2})"], {}),
        (["for {n}, {n2} in zip({t:list_int}, {t:list_str}):", "    print({n}, {n2})"], {}),
        (["for {n} in range(len({t:list_int})):", "    print({n})"], {}),
        (["for {n} in range({t:int}, {t:int}, 2):", "    print({n})"], {}),
        (["{n} = int(input('Number? '))", "print({n} + 1)"], {"{n}": "int"}),
        (["{n} = input()", "print({n}.upper())"], {"{n}": "str"}),
        (["{n} = float(input('Value: '))"], {"{n}": "float"}),
        (["while True:", "    {n} = {t:int}", "    if {n} > 3:", "        break"], {}),
        (["{n} = {t:int} if {t:bool} else {t:int}"], {"{n}": "int"}),
        (["if 0 < {t:int} < 10:", "    print('small')"], {}),
        (["{n} = None", "if {n} is None:", "    {n} = {t:int}"], {}),
        (["{n} = [[1, 2], [3]]", "print({n}[0][1], len({n}))", "for row in {n}:", "    for cell in row:", "        print(cell)"], {}),
        (["{n} = [{t:int} for {n2} in range(5) if {n2} % 2 == 0]"], {"{n}": "list_int"}),
        (["{n} = {{'name': {t:str}, 'age': {t:int}}}", "print({n}['name'], {n}['age'])"], {}),
        (["{n} = [{{'name': 'a', 'n': 1}}, {{'name': 'b', 'n': 2}}]", "for rec in {n}:", "    print(rec['name'], rec['n'] + 1)"], {}),
        (["import random", "{n} = random.randint(1, {t:int})"], {"{n}": "int"}),
        (["from math import sqrt, floor", "{n} = floor(sqrt({t:float}))"], {"{n}": "int"}),
        (["import math", "{n} = math.pi * {t:float} ** 2 + math.ceil({t:float}) + math.floor({t:float})"], {"{n}": "float"}),
        (["{n} = max({t:int}, {t:int}) + min({t:list_int}) + round({t:float}) + abs({t:int}) + sum({t:list_int})"], {"{n}": "int"}),
        (["{n} = sorted({t:list_str}, key=len)", "{n2} = list(reversed({t:list_int}))"], {"{n}": "list_str", "{n2}": "list_int"}),
        (["{n} = list(map(str, {t:list_int}))", "{n2} = list(filter(None, {t:list_int}))"], {"{n2}": "list_int"}),
        (["{n} = str({t:int}) + str({t:float}) + str({t:bool}) + repr({t:str}) + chr(65) + hex(10) + bin(2) + oct(8)"], {"{n}": "str"}),
        (["{n} = ord('a') + len({t:str}) + int({t:float}) + int('12') + pow(2, 3) + divmod(7, 2)[0]"], {}),
        (["{n} = bool({t:int}) and isinstance({t:int}, int) and callable(len) and any({t:list_int}) and all({t:list_int})"], {"{n}": "bool"}),
        (["{n} = tuple({t:list_int})", "{n2} = set({t:list_int})", "print(type({n}), dict(), list('ab'), {n2})"], {}),
        (["def {n}(value, times=2, *, sep=' '):", "    \"\"\"Repeat.\"\"\"", "    return sep.join([str(value)] * times)",
          "print({n}({t:int}), {n}({t:str}, times=3), {n}(1, sep='-'))"], {}),
        (["def {n}(count):", "    if count <= 0:", "        return 0", "    return count + {n}(count - 1)", "print({n}({t:int}))"], {}),
        (["def {n}(items):", "    total = 0", "    for item in items:", "        total = total + item", "    return total",
          "{n2} = {n}({t:list_int})"], {"{n2}": "int"}),
        (["def {n}():", "    print('hi')", "{n}()", "{n2} = {n}()"], {}),
        (["def {n}(a, b):", "    return a, b", "{n2} = {n}(1, 2)", "print({n2}[0])"], {}),
        (["{n} = 'constant'", "def {n2}():", "    return {n} + '!'", "print({n2}())"], {}),
        (["def main():", "    print({t:str})", "if __name__ == '__main__':", "    main()"], {}),
        (["{n} = {t:int}", "{n} += 1", "{n} -= 1", "{n} *= 2", "{n} //= 2", "{n} %= 5", "{n} **= 2"], {"{n}": "int"}),
        (["{n} = {t:float}", "{n} /= 2", "{n} = -{n} + +{n}", "print({n} ** 0.5, {n} // 1, {n} % 2)"], {"{n}": "float"}),
        (["{n} = {t:list_int} * 2 + [0] * 3", "{n}[0] = {t:int}", "{n}[1:3] = [7, 8]", "print({n}[-1], {n}[::-1], {n}[:2])"], {"{n}": "list_int"}),
        (["{n} = {t:str}", "for {n2} in {n}:", "    if {n2} in 'aeiou':", "        print({n2})", "    elif {n2} == ' ':", "        continue",
          "    else:", "        pass"], {}),
        (["{n} = not {t:bool} and ({t:int} != {t:int} or {t:str} == {t:str}) and {t:int} not in {t:list_int}"], {"{n}": "bool"}),
        (["assert {t:bool}", "assert {t:int} == {t:int}, 'message'"], {}),
        (["try:", "    {n} = int({t:str})", "except ValueError:", "    {n} = 0", "print({n})"], {}),
        (["{n} = [{v:str}, {v:int}]", "{n2} = {n} + {n}", "{n} += [{v:str}]", "print({n}, {n2})"], {}),
        (["{n} = [input(), len({t:str}), {t:float} / 2]", "{n2} = {n} * 2 + {n}[1:]", "print({n2})"], {}),
        (["{n} = (1, 2) + (3,)", "print({n})"], {}),
        (["{n} = ()", "print(len({n}))"], {}),
        (["{n} = (1, 2)", "{n2} = {n} + {n}", "print({n2} + {n})"], {}),
        (["with open('data.txt') as {n}:", "    for {n2} in {n}:", "        print({n2}.strip())"], {}),
        (["{n} = open('out.txt', 'w')", "{n}.write({t:str})", "{n}.close()"], {}),
        (["def {n}(): ...", "{n}()"], {}),
        (["class {n}:", "    def __init__(self, size):", "        self.size = size", "    def area(self):", "        return self.size * self.size",
          "{n2} = {n}({t:int})", "print({n2}.area(), {n2}.size)"], {}),
        (["from dataclasses import dataclass", "@dataclass", "class {n}:", "    name: str", "    age: int",
          "{n2} = {n}('Ada', {t:int})", "print({n2}.name, {n2}.age + 1)"], {}),
        (["import json", "{n} = json.loads('[1, 2]')", "print(json.dumps({n}))"], {}),
        (["import string", "print(string.ascii_lowercase, string.digits)"], {}),
        (["{n} = (5).bit_length() + True.bit_length()", "{n2} = (2.5).is_integer()"], {}),
    ]

    def template(self, ind):
        import re
        r = self.rng
        for _ in range(10):
            lines, newvars = r.choice(self.TEMPLATES)
            text = "\n".join(lines)
            names = {"{n}": self.fresh("t"), "{n2}": self.fresh("u")}
            ok = True
            chosen = {}

            def fill(m):
                nonlocal ok
                kind, t = m.group(1), m.group(2)
                if kind == "t":
                    return self.expr(t, 1)
                if t not in chosen:
                    have = self.of_type(t)
                    if not have:
                        ok = False
                        return "MISSING"
                    chosen[t] = r.choice(have)
                return chosen[t]
            text = re.sub(r"\{(t|v):(\w+)\}", fill, text)
            if not ok:
                continue
            for k, v in names.items():
                text = text.replace(k, v)
            text = text.replace("{{", "{").replace("}}", "}")
            for k, t in newvars.items():
                self.vars[names[k]] = t
            return [ind + l for l in text.split("\n")]
        return [ind + "pass"]

    def block(self, ind, depth, in_func=None, in_loop=False):
        out = []
        for _ in range(self.rng.randint(1, 3)):
            if self.rng.random() < 0.25:
                saved = dict(self.vars)
                out += self.template(ind)
                if ind:
                    self.vars = saved
            else:
                out += self.stmt(ind, depth, in_func, in_loop)
        return out

    def program(self):
        body = []
        for _ in range(self.rng.randint(2, 8)):
            body += self.template("") if self.rng.random() < 0.35 else self.stmt("", 2)
        head = ["import %s" % m for m in sorted(self.imports)]
        if "math" in self.imports and self.rng.random() < 0.3:
            head.append("from math import pi")
        return "\n".join(head + body) + "\n"


# hand-written CS1 programs, one per construct family an introductory course reaches (every one must be
# analysed completely); also recombined at random by `gen_cs1_mix`
CS1_PROGRAMS = [
"n = 0\nwhile n < 3:\n    n += 1\nelse:\n    print('done')\n",
"for i in range(3):\n    if i == 5:\n        break\nelse:\n    print('none')\n",
"counter = 0\ndef bump():\n    global counter\n    counter = counter + 1\nbump()\nprint(counter)\n",
"xs = [1, 2, 3]\ndel xs[0]\nprint(xs)\n",
"d = {'a': 1}\ndel d['a']\nprint(d)\n",
"double = lambda v: v * 2\nprint(double(4))\n",
"names = ['b', 'a']\nnames.sort(key=lambda s: s.lower())\nprint(names)\n",
"def check(v):\n    if v < 0:\n        raise ValueError('negative')\n    return v\nprint(check(3))\n",
"try:\n    v = int('x')\nexcept ValueError as err:\n    print(err)\n    v = 0\nelse:\n    print('ok')\nfinally:\n    print('end')\nprint(v)\n",
"squares = {n: n * n for n in range(4)}\nprint(squares[2])\n",
"letters = {c for c in 'hello'}\nprint(len(letters))\n",
"def outer(a):\n    def inner(b):\n        return a + b\n    return inner(2)\nprint(outer(1))\n",
"def total(*values):\n    result = 0\n    for v in values:\n        result += v\n    return result\nprint(total(1, 2, 3))\n",
"def show(**options):\n    for key in options:\n        print(key, options[key])\nshow(a=1, b=2)\n",
"grid = [[0] * 3 for _ in range(2)]\ngrid[1][2] = 5\nprint(grid)\n",
"pairs = [(1, 'a'), (2, 'b')]\nfor number, letter in pairs:\n    print(number + 1, letter.upper())\n",
"text = 'a,b;c'\nparts = text.replace(';', ',').split(',')\nprint(parts[-1][::-1])\n",
"value = None\nif value is not None and value > 3:\n    print(value)\n",
"x = 5\nprint('big' if x > 3 else 'small')\nassert x > 0\n",
"i = 0\nwhile True:\n    i += 1\n    if i % 2 == 0:\n        continue\n    if i > 5:\n        break\nprint(i)\n",
"total = 0\nfor a in range(3):\n    for b in range(a):\n        total += a * b\nprint(total)\n",
"def fact(n):\n    return 1 if n <= 1 else n * fact(n - 1)\nprint(fact(5))\n",
"a, b = 1, 2\na, b = b, a\nprint(a, b)\n",
"first, *rest = [1, 2, 3]\nprint(first, rest)\n",
"s = 'hello'\nprint(s[0], s[-1], s[1:3], s[::2], len(s), s * 2, 'h' in s)\n",
"d = {}\nd['k'] = d.get('k', 0) + 1\nfor k, v in d.items():\n    print(k, v)\n",
"nums = [3, 1, 2]\nprint(max(nums), min(nums), sum(nums) / len(nums), sorted(nums, reverse=True))\n",
"print('a', 'b', sep='-', end='!\\n')\n",
"x = 10\nx //= 3\nx **= 2\nx %= 4\nprint(x)\n",
"name = input('Name? ')\nage = int(input('Age? '))\nprint(f'{name} is {age} years old; next year {age + 1}')\n",
"import random\nchoices = ['a', 'b']\nprint(random.choice(choices), random.random(), random.randint(1, 6))\nrandom.shuffle(choices)\n",
"import math\nprint(math.sqrt(16), math.floor(2.5), math.pi, math.pow(2, 3))\n",
"from random import randint\nprint(randint(1, 2))\n",
"import math as m\nprint(m.sqrt(4))\n",
"class Dog:\n    kind = 'dog'\n    def __init__(self, name):\n        self.name = name\n    def speak(self):\n        return self.name + ' says woof'\nd = Dog('Rex')\nprint(d.speak(), d.kind)\n",
"def greet(name='world'):\n    \"\"\"Greets.\"\"\"\n    print('hello', name)\ngreet()\ngreet('you')\ngreet(name='me')\n",
"x = 3\ny = 4.5\nz = x + y * 2 - x / y // 1 % 2 ** 2\nprint(z, -x, +y, not x, x < y <= 5, x == 3 and y != 2 or False)\n",
"xs = []\nxs.append(1)\nxs.extend([2, 3])\nxs.insert(0, 0)\nxs.remove(2)\nprint(xs.pop(), xs.index(1), xs.count(1), xs)\nxs.clear()\n",
"t = (1, 2, 3)\nprint(t[0], len(t), t.count(1), t.index(2), t + (4,), t * 2)\n",
"s = {1, 2}\ns.add(3)\ns.discard(1)\nprint(s | {4}, s & {2}, s - {2}, 2 in s)\n",
"pass\n",
"if True:\n    pass\nelif False:\n    pass\nelse:\n    pass\n",
"x = int(3.7) + float('2.5') + round(2.567, 1) + abs(-3) + pow(2, 3) + len(str(123)) + ord('a')\nprint(chr(97), bool(0), type(x), isinstance(x, float))\n",
"with open('f.txt', 'w') as out:\n    out.write('hi')\nwith open('f.txt') as inp:\n    data = inp.read()\n    lines = data.split('\\n')\nprint(lines)\n",
"matrix = [[1, 2], [3, 4]]\nflat = [cell for row in matrix for cell in row if cell % 2 == 0]\nprint(flat)\n",
"def f():\n    return\nprint(f())\n",
"def g(a, b=2, *args, c, d=4, **kw):\n    return a + b + c + d\nprint(g(1, c=3))\n",
"x = 1\ndef h():\n    x = 2\n    def k():\n        nonlocal x\n        x = 3\n    k()\n    return x\nprint(h(), x)\n",
"nums = list(range(10))\nevens = nums[::2]\nnums[2:4] = []\nprint(evens, nums, nums[-3:])\n",
"print('%s is %d' % ('a', 1), '{} {}'.format(1, 2), '{0:.2f}'.format(3.14159), 'a'.join(['x', 'y']))\n",
"import json\ndata = json.loads('{\"a\": [1, 2]}')\nprint(data['a'][0], json.dumps(data, indent=2))\n",
"while False:\n    pass\nfor _ in []:\n    pass\n",
"x: int = 5\ny: list[int] = [1]\nz: dict[str, int] = {}\ndef typed(a: int, b: str = 'x') -> bool:\n    return len(b) > a\nprint(typed(x), y, z)\n",
"result = [n for n in range(5)]\ntotal = sum(n * n for n in result)\nprint(total, any(n > 3 for n in result), all(result))\n",
"word = 'level'\nis_pal = word == word[::-1]\nprint(is_pal)\n",
"def count_vowels(text):\n    count = 0\n    for ch in text.lower():\n        if ch in 'aeiou':\n            count += 1\n    return count\nprint(count_vowels('Hello'))\n",
"x = 5\nmatch x:\n    case 1:\n        print('one')\n    case _:\n        print('other')\n",
"print(1 if 2 else 3, (lambda: 4)(), [1, 2][0], {'a': 1}['a'], (1, 2)[1], 'ab'[0])\n",
"import string\nprint(string.ascii_uppercase)\nimport pprint\npprint.pprint([1])\n",
"x = 0b101 + 0o7 + 0xff + 1e3 + 1_000\nprint(x, 1j.real)\n",
"xs = [1, 2, 3]\nfor i, x in enumerate(xs, 1):\n    xs[i - 1] = x * 2\nprint(xs)\n",
"data = {'a': [1, 2], 'b': [3]}\nfor key in sorted(data):\n    for item in data[key]:\n        print(key, item)\nprint(list(data.keys()), list(data.values()))\n",
"global_list = []\ndef add(item):\n    global_list.append(item)\nadd(1)\nprint(global_list)\n",
"def maybe(n):\n    if n:\n        return 'yes'\nprint(maybe(1))\n",
"exit()\n", "import sys\nsys.exit(0)\n", "import os\nprint(os.getcwd())\n", "import time\ntime.sleep(1)\nprint(time.time())\n",
"import turtle\nt = turtle.Turtle()\nt.forward(10)\n", "from math import *\nprint(sqrt(4))\n",
]


def gen_cs1_mix(rng):
    """2-3 of the CS1 programs one after the other (names may collide: still an introductory program)."""
    parts = [rng.choice(CS1_PROGRAMS) for _ in range(rng.randint(2, 3))]
    parts = [p for p in parts if "exit()" not in p]
    return "".join(parts) or "pass\n"


def gen_intro(rng):
    for _ in range(20):
        code = Intro(rng).program()
        try:
            ast.parse(code)
            return code
        except SyntaxError:
            continue
    return "x = 1\nprint(x)\n"


# --------------------------------------------------------------------------------------------
# arbitrary-grammar programs: every statement / expression / pattern kind of the running Python

class Grammar:
    NAMES = ["a", "b", "c", "data", "total", "f", "g", "Thing", "self", "x1", "résumé", "_"]

    def __init__(self, rng):
        self.r = rng

    def name(self):
        return self.r.choice(self.NAMES)

    def const(self):
        return self.r.choice(["0", "1", "42", "3.5", "1j", "'s'", '"""doc"""', "b'by'", "True", "False", "None", "...",
                              "'%s %d'", "10**3", "0x1f", "1_000", "''"])

    def expr(self, d):
        r = self.r
        if d <= 0:
            return r.choice([self.name(), self.const()])
        e = lambda: self.expr(d - 1)
        k = r.randrange(30)
        if k == 0:
            return "(%s %s %s)" % (e(), r.choice(["and", "or"]), e())
        if k == 1:
            return "(%s := %s)" % (self.name(), e())
        if k == 2:
            return "(%s %s %s)" % (e(), r.choice(["+", "-", "*", "/", "//", "%", "**", "<<", ">>", "|", "^", "&", "@"]), e())
        if k == 3:
            return "(%s %s)" % (r.choice(["not", "-", "+", "~"]), e())
        if k == 4:
            return "(lambda %s: %s)" % (self.params(lam=True), e())
        if k == 5:
            return "(%s if %s else %s)" % (e(), e(), e())
        if k == 6:
            return "{%s}" % ", ".join(r.choice(["%s: %s" % (e(), e()), "**%s" % e()]) for _ in range(r.randint(0, 3)))
        if k == 7:
            return "{%s}" % ", ".join(e() for _ in range(r.randint(1, 3)))
        if k == 8:
            return "[%s %s]" % (e(), self.comp(d))
        if k == 9:
            return "{%s %s}" % (e(), self.comp(d))
        if k == 10:
            return "{%s: %s %s}" % (e(), e(), self.comp(d))
        if k == 11:
            return "(%s %s)" % (e(), self.comp(d))
        if k == 12:
            return "(await %s)" % e()
        if k == 13:
            return "(yield %s)" % r.choice(["", e()])
        if k == 14:
            return "(yield from %s)" % e()
        if k == 15:
            ops = ["<", "<=", ">", ">=", "==", "!=", "is", "is not", "in", "not in"]
            return "(%s %s)" % (e(), " ".join("%s %s" % (r.choice(ops), e()) for _ in range(r.randint(1, 2))))
        if k in (16, 17):
            args = [r.choice([e(), "*%s" % e(), "%s=%s" % (self.name(), e()), "**%s" % e()]) for _ in range(r.randint(0, 3))]
            args.sort(key=lambda a: (a.startswith("**"), "=" in a and not a.startswith("*")))
            return "%s(%s)" % (r.choice([self.name(), e(), "print", "len", "range", "input", "int", "str", "sorted"]), ", ".join(args))
        if k == 18:
            return "f'%s{%s%s%s}%s'" % (r.choice(["", "t "]), self.name(), r.choice(["", "!r", "!s", "!a"]),
                                      r.choice(["", ":>10", ":.2f", ":{%s}" % self.name()]), r.choice(["", " u"]))
        if k == 19:
            return "%s.%s" % (e(), r.choice(["attr", "append", "upper", "x", "items", "real"]))
        if k in (20, 21):
            sl = r.choice([e(), "%s:%s" % (r.choice(["", e()]), r.choice(["", e()])), "::%s" % e(), "%s, %s" % (e(), e()), ":"])
            return "%s[%s]" % (e(), sl)
        if k == 22:
            return "[%s]" % ", ".join(r.choice([e(), "*%s" % e()]) for _ in range(r.randint(0, 3)))
        if k == 23:
            items = [r.choice([e(), "*%s" % e()]) for _ in range(r.randint(0, 3))]
            return "(%s%s)" % (", ".join(items), "," if len(items) == 1 else "")
        if k == 24:
            return self.const()
        return self.name()

    def comp(self, d):
        r = self.r
        out = []
        for _ in range(r.randint(1, 2)):
            out.append("%sfor %s in %s" % (r.choice(["", "", "async "]), self.target(d - 1), self.expr(d - 1)))
            for _ in range(r.choice([0, 0, 1])):
                out.append("if %s" % self.expr(d - 1))
        return " ".join(out)

    def target(self, d):
        r = self.r
        k = r.randrange(8)
        if d <= 0 or k < 4:
            return self.name()
        if k == 4:
            return "%s, %s" % (self.target(d - 1), self.target(d - 1))
        if k == 5:
            return "[%s, *%s]" % (self.name(), self.name())
        if k == 6:
            return "%s.%s" % (self.name(), "attr")
        return "%s[%s]" % (self.name(), self.expr(d - 1))

    def params(self, lam=False):
        r = self.r
        ann = (lambda n: n) if lam else (lambda n: n + r.choice(["", ": int", ": 'str'", ": list[int]"]))
        ps = []
        for i in range(r.randint(0, 2)):
            ps.append(ann("p%d" % i))
        if r.random() < 0.2 and ps:
            ps.append("/")
        for i in range(r.randint(0, 2)):
            ps.append(ann("q%d" % i) + ("=%s" % self.const() if r.random() < 0.5 else ""))
        # defaults must be contiguous at the end
        seen_default = False
        fixed = []
        for p in ps:
            if "=" in p:
                seen_default = True
            elif seen_default and p != "/":
                p = p + "=0"
            fixed.append(p)
        ps = fixed
        if r.random() < 0.3:
            ps.append("*args")
            if r.random() < 0.5:
                ps.append("kw=1")
        elif r.random() < 0.15:
            ps += ["*", "kwo"]
        if r.random() < 0.3:
            ps.append("**kwargs")
        return ", ".join(ps)

    def pattern(self, d):
        r = self.r
        k = r.randrange(10)
        if d <= 0 or k < 2:
            return r.choice(["0", "'s'", "None", "True", "_", self.name(), "-1", "A.b"])
        p = lambda: self.pattern(d - 1)
        if k == 2:
            return "[%s, *%s]" % (p(), r.choice(["_", "rest"]))
        if k == 3:
            return "(%s, %s)" % (p(), p())
        if k == 4:
            return "{%s: %s, **%s}" % (r.choice(["'k'", "1"]), p(), "rest")
        if k == 5:
            return "%s(%s)" % (r.choice(["Thing", "int", "str"]), r.choice(["", p(), "x=%s" % p()]))
        if k == 6:
            return "%s as %s" % (r.choice(["0", "[%s]" % p(), "int()"]), "bound")
        if k == 7:
            return "%s | %s" % (r.choice(["0", "'a'", "None"]), r.choice(["1", "'b'", "True"]))
        return p()

    def block(self, ind, d, n=None):
        out = []
        for _ in range(n or self.r.randint(1, 3)):
            out += self.stmt(ind, d)
        return out

    def stmt(self, ind, d):
        r = self.r
        e = lambda: self.expr(2)
        k = r.randrange(34) if d > 0 else r.randrange(14)
        i2 = ind + "    "
        if k == 0:
            return [ind + "%s = %s" % (" = ".join(self.target(2) for _ in range(r.randint(1, 2))), e())]
        if k == 1:
            return [ind + "%s %s= %s" % (r.choice([self.name(), "%s.attr" % self.name(), "%s[0]" % self.name()]),
                                      r.choice(["+", "-", "*", "/", "//", "%", "**", "<<", ">>", "|", "^", "&", "@"]), e())]
        if k == 2:
            return [ind + "%s: %s%s" % (r.choice([self.name(), "%s.attr" % self.name(), "(%s)" % self.name()]),
                                      r.choice(["int", "list[str]", "'T'", "dict[str, int]", e()]), r.choice(["", " = " + e()]))]
        if k == 3:
            return [ind + e()]
        if k == 4:
            return [ind + "pass"]
        if k == 5:
            return [ind + "del " + ", ".join(r.choice([self.name(), "%s[0]" % self.name(), "%s.attr" % self.name()]) for _ in range(r.randint(1, 2)))]
        if k == 6:
            return [ind + "assert " + e() + r.choice(["", ", " + e()])]
        if k == 7:
            return [ind + r.choice(["raise", "raise " + e(), "raise %s from %s" % (e(), e())])]
        if k == 8:
            return [ind + r.choice(["import math", "import os.path as osp", "import math, random", "from math import sqrt, pi as PI",
                                    "from . import sibling", "from ..pkg.mod import *", "import zzz_unknown_module",
                                    "from collections import *", "import json"])]
        if k == 9:
            return [ind + "global " + ", ".join(self.name() for _ in range(r.randint(1, 2)))]
        if k == 10:
            return [ind + "nonlocal " + self.name()]
        if k == 11:
            return [ind + r.choice(["return", "return " + e(), "break", "continue"])]
        if k == 12:
            return [ind + "print(%s)" % e()]
        if k == 13:
            return [ind + "type %s%s = %s" % (r.choice(["Alias", "Vec"]), r.choice(["", "[T]", "[T: int, *Ts, **P]"]), r.choice(["int", "list[T]", "int | str"]))]
        if k in (14, 15):
            out = [ind + "if %s:" % e()] + self.block(i2, d - 1)
            for _ in range(r.choice([0, 0, 1, 2])):
                out += [ind + "elif %s:" % e()] + self.block(i2, d - 1)
            if r.random() < 0.5:
                out += [ind + "else:"] + self.block(i2, d - 1)
            return out
        if k in (16, 17):
            out = [ind + "%sfor %s in %s:" % (r.choice(["", "", "", "async "]), self.target(2), e())] + self.block(i2, d - 1)
            if r.random() < 0.25:
                out += [ind + "else:"] + self.block(i2, d - 1)
            return out
        if k == 18:
            out = [ind + "while %s:" % e()] + self.block(i2, d - 1)
            if r.random() < 0.25:
                out += [ind + "else:"] + self.block(i2, d - 1)
            return out
        if k in (19, 20):
            deco = [ind + "@" + r.choice(["staticmethod", "property", self.name(), "%s(%s)" % (self.name(), e())])
                    for _ in range(r.choice([0, 0, 0, 1, 2]))]
            head = "%sdef %s%s(%s)%s:" % (r.choice(["", "", "", "async "]), r.choice(["f", "g", "helper", "__init__"]),
                                        r.choice(["", "", "[T]"]), self.params(), r.choice(["", " -> int", " -> 'T'", " -> list[str]"]))
            body = ([i2 + '"""Doc."""'] if r.random() < 0.3 else []) + self.block(i2, d - 1)
            return deco + [ind + head] + body
        if k == 21:
            deco = [ind + "@" + r.choice(["dataclass", self.name()]) for _ in range(r.choice([0, 0, 1]))]
            head = "class %s%s%s:" % (r.choice(["Thing", "Other"]), r.choice(["", "[T]"]),
                                      r.choice(["", "()", "(Base)", "(Base, metaclass=Meta)", "(%s)" % e()]))
            return deco + [ind + head] + self.block(i2, d - 1)
        if k == 22:
            items = ", ".join("%s%s" % (e(), r.choice(["", " as " + self.target(1)])) for _ in range(r.randint(1, 2)))
            return [ind + "%swith %s:" % (r.choice(["", "", "async "]), items)] + self.block(i2, d - 1)
        if k in (23, 24):
            star = r.random() < 0.15
            out = [ind + "try:"] + self.block(i2, d - 1)
            nh = r.randint(0 if not star else 1, 2)
            for _ in range(nh):
                out += [ind + "except%s %s%s:" % ("*" if star else "", r.choice(["ValueError", "(KeyError, IndexError)", "Exception", e()]),
                                                r.choice(["", " as err"]))] + self.block(i2, d - 1)
            if nh and not star and r.random() < 0.2:
                out += [ind + "except:"] + self.block(i2, d - 1)
            if nh and r.random() < 0.3:
                out += [ind + "else:"] + self.block(i2, d - 1)
            if nh == 0 or r.random() < 0.3:
                out += [ind + "finally:"] + self.block(i2, d - 1)
            return out
        if k == 25:
            out = [ind + "match %s:" % e()]
            for _ in range(r.randint(1, 3)):
                out += [i2 + "case %s%s:" % (self.pattern(2), r.choice(["", " if " + e()]))] + self.block(i2 + "    ", d - 1)
            return out
        if k == 26:
            return [ind + "%s = [%s for %s in %s]" % (self.name(), e(), self.name(), e())]
        if k == 27:
            return [ind + "%s.%s(%s)" % (self.name(), r.choice(["append", "add", "update", "sort", "pop"]), e())]
        if k == 28:
            return [ind + "%s, %s = %s, %s" % (self.name(), self.name(), e(), e())]
        if k == 29:
            return [ind + "%s[%s] = %s" % (self.name(), e(), e())]
        if k == 30:
            return [ind + "print(%s, end='')  # comment   with separator" % e()]
        if k == 31:
            return [ind + "%s = '''multi" % self.name(), "line \x0c string'''"]
        return [ind + "%s = %s" % (self.name(), e())]

    def program(self):
        lines = []
        for _ in range(self.r.randint(1, 6)):
            lines += self.stmt("", self.r.randint(0, 3))
        return "\n".join(lines) + "\n"


def gen_grammar(rng):
    """A random program over all language forms that `ast.parse` accepts."""
    g = Grammar(rng)
    for _ in range(50):
        code = g.program()
        try:
            ast.parse(code)
            return code
        except (SyntaxError, ValueError, RecursionError, MemoryError):
            continue
    return "pass\n"


# --------------------------------------------------------------------------------------------
# corpus: the repository's own Python files and the student-code strings inside its tests/examples

def corpus_programs(max_file_bytes=60000):
    """-> (files: [(path, code)], snippets: [code])"""
    files, snippets, seen = [], [], set()
    for top in ("tests", "examples", "pedal"):
        for dirpath, dirnames, filenames in os.walk(os.path.join(REPO, top)):
            dirnames.sort()
            for fn in sorted(filenames):
                if not fn.endswith(".py"):
                    continue
                path = os.path.join(dirpath, fn)
                try:
                    with open(path, encoding="utf-8") as fh:
                        code = fh.read()
                    tree = ast.parse(code)
                except Exception:
                    continue
                if len(code) <= max_file_bytes:
                    files.append((os.path.relpath(path, REPO), code))
                if top in ("tests", "examples"):
                    for node in ast.walk(tree):
                        if isinstance(node, ast.Constant) and isinstance(node.value, str):
                            s = node.value
                            if len(s) < 8 or len(s) > 3000 or s in seen:
                                continue
                            if not any(tok in s for tok in ("=", "print", "def ", "import ", "for ", "if ")):
                                continue
                            try:
                                t = ast.parse(s)
                            except Exception:
                                continue
                            if not t.body or all(isinstance(b, ast.Expr) and isinstance(b.value, (ast.Constant, ast.Name))
                                                 for b in t.body):
                                continue
                            seen.add(s)
                            snippets.append(s if s.endswith("\n") else s + "\n")
    return files, snippets


class Mutator:
    """Mutates / recombines corpus programs at the AST level (statement splice, expression swap, operator
    change, wrapping) and at the text level (line terminators, non-ASCII identifiers)."""

    def __init__(self, rng, snippets):
        self.r = rng
        self.snippets = snippets
        self.stmts, self.exprs = [], []
        for s in snippets[:400]:
            try:
                t = ast.parse(s)
            except Exception:
                continue
            for n in ast.walk(t):
                if isinstance(n, ast.stmt) and len(self.stmts) < 3000:
                    self.stmts.append(n)
                elif isinstance(n, ast.expr) and not isinstance(n, (ast.Starred,)) and len(self.exprs) < 6000:
                    if isinstance(getattr(n, "ctx", None), (ast.Store, ast.Del)):
                        continue
                    self.exprs.append(n)

    def mutate(self):
        r = self.r
        import copy
        for _ in range(30):
            base = r.choice(self.snippets)
            try:
                tree = copy.deepcopy(ast.parse(base))
            except Exception:
                continue
            for _ in range(r.randint(1, 4)):
                k = r.randrange(6)
                nodes = list(ast.walk(tree))
                if k == 0 and self.stmts:       # splice a statement from another program
                    holders = [n for n in nodes if isinstance(getattr(n, "body", None), list) and n.body]
                    h = r.choice(holders)
                    h.body.insert(r.randint(0, len(h.body)), copy.deepcopy(r.choice(self.stmts)))
                elif k == 1 and self.exprs:     # replace an expression by one from another program
                    cands = []
                    for n in nodes:
                        for f, v in ast.iter_fields(n):
                            if isinstance(v, ast.expr) and isinstance(getattr(v, "ctx", ast.Load()), ast.Load) and f not in ("annotation", "returns"):
                                cands.append((n, f))
                    if cands:
                        n, f = r.choice(cands)
                        setattr(n, f, copy.deepcopy(r.choice(self.exprs)))
                elif k == 2:                    # change an operator
                    ops = [n for n in nodes if isinstance(n, ast.BinOp)]
                    if ops:
                        r.choice(ops).op = r.choice([ast.Add, ast.Sub, ast.Mult, ast.Div, ast.FloorDiv, ast.Mod, ast.Pow])()
                elif k == 3:                    # wrap the whole program
                    kind = r.randrange(4)
                    body = tree.body
                    if kind == 0:
                        tree.body = [ast.If(test=ast.Name(id="flag", ctx=ast.Load()), body=body, orelse=[])]
                    elif kind == 1:
                        tree.body = [ast.For(target=ast.Name(id="loop_var", ctx=ast.Store()),
                                             iter=ast.Call(func=ast.Name(id="range", ctx=ast.Load()), args=[ast.Constant(3)], keywords=[]),
                                             body=body, orelse=[])]
                    elif kind == 2:
                        tree.body = [ast.FunctionDef(name="wrapped", args=ast.arguments(posonlyargs=[], args=[], kwonlyargs=[], kw_defaults=[], defaults=[]),
                                                     body=body, decorator_list=[], type_params=[]),
                                     ast.Expr(ast.Call(func=ast.Name(id="wrapped", ctx=ast.Load()), args=[], keywords=[]))]
                    else:
                        tree.body = [ast.Try(body=body, handlers=[ast.ExceptHandler(type=ast.Name(id="Exception", ctx=ast.Load()), name="err",
                                                                                   body=[ast.Pass()])], orelse=[], finalbody=[])]
                elif k == 4:                    # rename a variable everywhere (possibly to a non-ASCII identifier)
                    names = sorted({n.id for n in nodes if isinstance(n, ast.Name)})
                    if names:
                        old, new = r.choice(names), r.choice(["总计", "naïve", "x", "total", "print", "list"])
                        for n in nodes:
                            if isinstance(n, ast.Name) and n.id == old:
                                n.id = new
                elif k == 5 and len(self.snippets) > 1:   # concatenate with another program
                    try:
                        tree.body = tree.body + copy.deepcopy(ast.parse(r.choice(self.snippets)).body)
                    except Exception:
                        pass
            try:
                ast.fix_missing_locations(tree)
                code = ast.unparse(tree) + "\n"
                ast.parse(code)
                return code
            except Exception:
                continue
        return self.r.choice(self.snippets)


def line_terminator_variants(rng, code):
    """Same program text with unusual line terminators (CPython's tokenizer, str.splitlines and str.split('\\n')
    disagree on them) placed where the program stays valid: comments and string literals; CRLF/CR line ends."""
    k = rng.randrange(5)
    lines = code.split("\n")
    if k == 0:
        return "\r\n".join(lines)
    if k == 1:
        return "\r".join(lines)
    sep = rng.choice(["\x0c", "\x0b", "\x1c", "\x1d", "\x1e", "\x85", " ", " "])
    if k == 2:
        return "# leading %s comment\n" % sep + code
    if k == 3:
        return "banner = 'a%sb%sc'\n" % (sep, sep) + code + "# trailing %s%s" % (sep, sep)
    i = rng.randrange(len(lines))
    lines[i] = lines[i] + "  # note%sned" % sep if lines[i].strip() and not lines[i].rstrip().endswith(("'''", '"""', "\\")) else lines[i]
    return "\n".join(lines)


# --------------------------------------------------------------------------------------------
# BOUNDARY FAMILIES (must-complete programs of the introductory subset with one student slip each).
#
# TIFA's types carry statically known SIZES (the element types of a tuple, the parameters of a function, the
# type arguments of an annotation, the arguments of a call) and the visitor compares literal positions and
# argument counts against them (`key.value >= len(self.element_types)`, `len(arguments) == 1`,
# `len(type_arguments) != 2`, `len(pos_parameters) < len(arguments)`, `len(self.scope_chain) > 1` ...).  An
# off-by-one in any of these comparisons shows only when a program sits exactly ON the limit.  The families
# below therefore put every position / count from well below to well above every size that occurs:
#   index     : 40+ value sources of static size 0..4 (tuple literals, divmod, partition, as_integer_ratio, modf,
#               dict.items()/enumerate/zip elements, multi-value returns, *args, annotated tuple parameters ...)
#               subscripted with every literal position -5..5, booleans, constant expressions, a variable holding
#               the position, slices with every bound, tuple / string / None / float keys, as a load, a store, a
#               deletion and an augmented assignment
#   arity     : every documented builtin / method / module function (the generated table) called with no argument,
#               one fewer, one more, two more, all-None, reversed and an extra keyword argument; user functions with
#               0..3 parameters x 0..p defaults x *rest/**kw/keyword-only called with 0..p+2 arguments and a keyword
#   unpack    : k = 1..4 targets (nested, starred, attribute and subscript targets) against sources of size 0..3,
#               in assignments, for-loops and comprehensions
#   annotation: list/dict/tuple/set/... [0..3 type arguments, `(T,)`, `...`, nested] on variables, parameters and
#               returns, and indexing such a parameter
#   receiver  : every str/list/dict/set/tuple method on receivers of size 0, 1, 2 (same type and mixed)
#   nesting   : return/def/class/global/if-pass at depth 0..3
# Quick tier PACKS the fragments of one group into one program (an internal failure anywhere makes the whole
# analysis fail, and the line shrinker isolates the line); the thorough tier also runs every fragment on its own.

BOUNDARY_HEAD = "import math\nimport os\nimport sys\n"

INDEX_SOURCES = [
    "()", "(1,)", "(1, 'a')", "(1, 'a', 2.5)", "(1, 2, 3, 4)", "divmod(17, 5)", "(5).as_integer_ratio()",
    "(2.5).as_integer_ratio()", "'a-b'.partition('-')", "'a-b'.rpartition('-')", "tuple([1, 2])", "tuple('ab')",
    "(1, 2) + (3,)", "(1, 2) * 2", "math.modf(2.5)", "math.frexp(8.0)", "((1, 2), (3,))", "[1, 2]", "[]", "'ab'", "''",
    "{'a': 1}", "{}", "{0: 'a', 1: 'b'}", "[(1, 'a')]", "{'k': (1, 2)}['k']", "[(1, 2)][0]",
    "sorted({'a': 1}.items())[0]", "list(zip([1], 'a'))[0]", "list(enumerate('ab'))[0]", "max([(1, 2)])",
    "os.path.split('a/b')", "os.path.splitext('a.b')", "sys.argv", "sys.version_info", "range(3)", "{1, 2}", "input()",
    "5", "None", "len", "b'ab'", "'a b'.split()", "[[1, 2], [3]]", "pair()", "triple()", "nothing()", "several(1, 2)",
]
# how a value of static size reaches a NAME without being written as an expression: (setup lines, name)
INDEX_BINDINGS = [
    (["for value in {'ann': 90, 'bob': 72}.items():"], "value"), (["for value in enumerate(['a', 'b']):"], "value"),
    (["for value in zip([1], [2]):"], "value"), (["for value in zip([1], [2], [3]):"], "value"),
    (["for value in zip([1]):"], "value"), (["for value in zip():"], "value"),
    (["for value in [(1, 'a'), (2, 'b')]:"], "value"), (["for value in sorted({'a': 1}.items()):"], "value"),
    (["for value in [(1,), (2,)]:"], "value"), (["for value in [(), ()]:"], "value"),
    (["for value in {(1, 2): 'a'}:"], "value"), (["for value in {'a': (1, 2)}.values():"], "value"),
    (["def reader(value: tuple[int, str]):"], "value"), (["def reader(value: tuple[int]):"], "value"),
    (["def reader(value: tuple[()]):"], "value"), (["def reader(value: tuple[int, ...]):"], "value"),
    (["def reader(*value):"], "value"), (["def reader(value=(1, 2)):"], "value"),
    (["first, *value = [1, 2, 3]", "if True:"], "value"), (["first, *value = (1, 'a', 2.5)", "if True:"], "value"),
    (["with open('data.txt') as handle:", "    value = handle.readline().partition(',')"], "value"),
]
INDEX_DEFS = ("def pair():\n    return 1, 'a'\ndef triple():\n    return 1, 'a', 2.5\ndef nothing():\n    return ()\n"
              "def several(*values):\n    return values\n")
INDEX_GROUPS = {
    "negative": [str(k) for k in range(-5, 0)],
    "position": [str(k) for k in range(0, 6)],
    "computed": ["True", "False", "1 + 1", "2 - 1", "3 - 1", "len('ab')", "0 + 0", "+2", "--2", "int('2')", "2 if value else 3"],
    "slice": ["0:", ":0", "1:", ":1", "2:", ":2", "3:", ":3", "2:2", "::2", "-1:", ":-1", "::-1", ":", "0:2:1", "-3:-2"],
    "key": ["0, 1", "'a'", "1.0", "None", "...", "(2,)", "[2]", "2, ", "value", "'2'"],
}
INDEX_USES = ["print(value[{i}])", "result = value[{i}]", "value[{i}] = 0", "value[{i}] += 1", "del value[{i}]",
              "print(value[{i}][{i}])", "print(len(value), value[{i}])"]


def index_fragments(full=True):
    """-> [(group, head, [fragment text, ...])]: every fragment is a few lines that are a program together with head.
    full=False (quick tier): every index form as a load through a name, every position 0..5 in every use (load, store,
    augmented store, deletion, double index), positions and negatives written directly and held in a variable."""
    out = []
    head = BOUNDARY_HEAD + INDEX_DEFS
    for src in INDEX_SOURCES:
        for gname, idxs in INDEX_GROUPS.items():
            if full or gname in ("position", "negative"):
                direct = ["print(%s[%s])\n" % (src, i) for i in idxs]
                out.append(("index/direct/%s/%s" % (gname, src), head, direct))
            via = []
            for i in idxs:
                uses = INDEX_USES if gname == "position" or (full and gname == "negative") else INDEX_USES[:2 if full else 1]
                for use in uses:
                    via.append("value = %s\n%s\n" % (src, use.replace("{i}", i)))
            out.append(("index/name/%s/%s" % (gname, src), head, via))
            if gname == "position" or (full and gname in ("negative", "computed")):
                held = ["value = %s\nposition = %s\nprint(value[position])\n" % (src, i) for i in idxs]
                out.append(("index/held/%s/%s" % (gname, src), head, held))
    for setup, name in INDEX_BINDINGS:
        ind = "    "
        for gname, idxs in INDEX_GROUPS.items():
            frags = []
            for i in idxs:
                uses = INDEX_USES if gname == "position" else INDEX_USES[:2 if full else 1]
                for use in uses:
                    frags.append("\n".join(setup) + "\n" + ind + use.replace("{i}", i) + "\n")
            out.append(("index/bound/%s/%s" % (gname, setup[0]), head, frags))
        comp = ["print([value[%s] for value in %s])\n" % (i, setup[0][len("for value in "):-1])
                for i in INDEX_GROUPS["position"] + INDEX_GROUPS["negative"]] if setup[0].startswith("for value in ") else []
        if comp:
            out.append(("index/comprehension/%s" % setup[0], head, comp))
    return out


def _value_call(code):
    """The `value = f(args)` line of a table-row program -> (line index, callee source, [positional argument sources])."""
    try:
        tree = ast.parse(code)
    except SyntaxError:
        return None
    for node in tree.body:
        if (isinstance(node, ast.Assign) and len(node.targets) == 1 and isinstance(node.targets[0], ast.Name)
                and node.targets[0].id == "value" and isinstance(node.value, ast.Call) and not node.value.keywords
                and node.lineno == node.end_lineno):
            return node.lineno - 1, ast.unparse(node.value.func), [ast.unparse(a) for a in node.value.args]
    return None


def arity_variants(args):
    vs = ["", ", ".join(args[:-1]), ", ".join(args + ["1"]), ", ".join(args + ["'x'", "None"]),
          ", ".join(["None"] * len(args)), ", ".join(reversed(args)), ", ".join(args + ["extra=1"]),
          ", ".join(args[:1] * 4), ", ".join(["[]"] * max(len(args), 1)), ", ".join(["()"] * (len(args) + 1))]
    seen, out = set(), []
    for v in vs:
        if v not in seen and v != ", ".join(args):
            seen.add(v)
            out.append(v)
    return out


STAR_VARIANTS = ["*[]", "*[1, 2]", "*'ab'", "**{}", "*(), **{}", "*[[1]]"]


def table_arity_fragments(table_progs):
    """Every generated table row with a well-typed call: the same call with other argument COUNTS.
    -> (must-complete groups, star-argument groups [calls with *args / **kwargs: not the introductory subset])"""
    must, star = [], []
    for table, name, code in table_progs:
        if code is None:
            continue
        found = _value_call(code)
        if found is None:
            continue
        at, callee, args = found
        lines = code.split("\n")
        head = "\n".join(lines[:at] + [""]) if at else ""
        tail = "\n".join(lines[at + 1:])
        must.append(("arity/%s/%s" % (table, name), head, ["value = %s(%s)\n%s" % (callee, v, tail) for v in arity_variants(args)]))
        star.append(("star-arguments/%s/%s" % (table, name), head, ["value = %s(%s)\n%s" % (callee, v, tail) for v in STAR_VARIANTS]))
    return must, star


def user_arity_fragments():
    out = []
    for p in range(0, 4):
        for d in range(0, p + 1):
            for var in ("", "*rest", "*rest, **kw", "**kw", "*, key=1"):
                params = ["p%d" % i for i in range(p - d)] + ["q%d=%d" % (i, i) for i in range(d)] + ([var] if var else [])
                body = " + ".join(["0"] + ["p%d" % i for i in range(p - d)] + ["q%d" % i for i in range(d)])
                head = "def func(%s):\n    return %s\n" % (", ".join(params), body)
                frags = []
                for k in range(0, p + 3):
                    for named in ("", "q0=5", "zz=1", "key=2"):
                        args = [str(i) for i in range(k)] + ([named] if named else [])
                        frags.append("result = func(%s)\nprint(result)\n" % ", ".join(args))
                out.append(("arity/user/%d-%d-%s" % (p, d, var), head, frags))
                if var.startswith("*rest"):
                    for pos in range(0, 3):
                        head2 = "def func(%s):\n    return rest[%d]\n" % (", ".join(params), pos)
                        out.append(("arity/user-rest/%d-%d-%s-%d" % (p, d, var, pos), head2,
                                    ["print(func(%s))\n" % ", ".join(str(i) for i in range(k)) for k in range(0, p + 4)]))
    for p in range(0, 3):
        ps = "".join(", p%d" % i for i in range(p))
        head = ("class Thing:\n    def __init__(self%s):\n        self.size = 1\n    def grow(self%s):\n        return self.size\n" % (ps, ps))
        frags = []
        for k in range(0, p + 2):
            a = ", ".join(str(i) for i in range(k))
            frags.append("item = Thing(%s)\nprint(item.grow(%s))\n" % (a, a))
            frags.append("func = lambda %s: 1\nprint(func(%s))\n" % (", ".join("p%d" % i for i in range(p)), a))
        out.append(("arity/method-lambda/%d" % p, head, frags))
    return out


UNPACK_SOURCES = ["()", "(1,)", "(1, 'a')", "(1, 'a', 2.5)", "divmod(17, 5)", "'a-b'.partition('-')", "[1, 2]", "[]", "'ab'",
                  "{'a': 1}", "input()", "5", "None", "pair()", "[(1, 2)][0]", "range(2)", "(1, (2, 3))", "((1, 2), 3)",
                  "input().split()", "[[1, 2], [3, 4]]"]
UNPACK_TARGETS = ["a", "a,", "a, b", "a, b, c", "a, b, c, d", "*a,", "a, *b", "*a, b", "a, *b, c", "a, b, *c", "a, b, c, *d",
                  "(a, b), c", "a, (b, c)", "[a, b]", "a, b.attr", "a, b[0]", "a, (b, *c)", "(a,), b"]
UNPACK_LOOPS = ["{'a': 1}.items()", "enumerate(['a'])", "zip([1], [2])", "zip([1], [2], [3])", "[(1, 'a'), (2, 'b')]",
                "[(1,), (2,)]", "[1, 2]", "'ab'", "{'a': 1}", "[]", "range(3)", "zip()", "enumerate([])", "{}.items()",
                "[[1, 2], [3, 4]]", "enumerate(zip([1], [2]))", "{'a': (1, 2)}.items()"]


def unpack_fragments():
    import re
    out = []
    head = "def pair():\n    return 1, 'a'\nb = [0]\n"
    for s in UNPACK_SOURCES:
        frags = []
        for t in UNPACK_TARGETS:
            names = sorted(set(re.findall(r"\b[a-d]\b", t)))
            frags.append("%s = %s\nprint(%s)\n" % (t, s, ", ".join(names)))
        out.append(("unpack/assign/%s" % s, head, frags))
    for s in UNPACK_LOOPS:
        frags = []
        for t in UNPACK_TARGETS:
            names = sorted(set(re.findall(r"\b[a-d]\b", t)))
            frags.append("for %s in %s:\n    print(%s)\n" % (t, s, ", ".join(names)))
            if ".attr" not in t and "[0]" not in t:
                frags.append("print([(%s) for %s in %s])\n" % (", ".join(names), t, s))
        out.append(("unpack/loop/%s" % s, "b = [0]\n", frags))
    return out


ANNOTATION_HEADS = ["list", "dict", "tuple", "set", "frozenset", "List", "Dict", "Tuple", "Set", "Optional", "Union", "int",
                    "str", "type", "Callable", "Iterable"]
ANNOTATION_ARGS = ["()", "int", "int, str", "int, str, float", "(int,)", "(int, str)", "int, ...", "...", "[int]", "[int], str",
                   "None", "'int'", "list[int]", "tuple[int, str]", "dict[str, int], int", "1", "int | str"]


def annotation_fragments():
    """A parameterised type written with 0..3 type arguments - declared, returned, CALLED as a constructor, and the
    declared value then USED (indexed at 0..3, iterated, measured), also through a parameter that gets no argument
    (so that it keeps the annotated type)."""
    out = []
    head = "from typing import List, Dict, Tuple, Set, Optional, Union, Callable, Iterable\n"
    for h in ANNOTATION_HEADS:
        frags = []
        for n, a in enumerate(ANNOTATION_ARGS):
            ann = "%s[%s]" % (h, a)
            frags.append("value%d: %s = None\nprint(value%d)\nfor element in value%d:\n    print(element)\n"
                         "print(value%d[0], value%d[1], value%d[2], len(value%d))\n" % (n, ann, n, n, n, n, n, n))
            frags.append("made%d = %s()\nprint(made%d)\nfilled%d = %s([])\nfor element in filled%d:\n    print(element)\n"
                         % (n, ann, n, n, ann, n))
            frags.append("def func%d(param: %s) -> %s:\n    return param\nprint(func%d(None))\nfor element in func%d():\n"
                         "    print(element)\n" % (n, ann, ann, n, n))
            for k in (0, 1, 2, 3):
                frags.append("def at%d_%d(param: %s):\n    return param[%d]\nprint(at%d_%d(None))\nprint(at%d_%d())\n"
                             % (n, k, ann, k, n, k, n, k))
        out.append(("annotation/%s" % h, head, frags))
    return out


RECEIVER_SIZES = {
    "StrType": ["''", "'a'", "'ab cd'"], "ListType": ["[]", "[1]", "[1, 2]", "[1, 'a']", "[[]]"],
    "DictType": ["{}", "{'a': 1}", "{'a': 1, 'b': 2}", "{'a': 1, 2: 'b'}"], "SetType": ["set()", "{1}", "{1, 'a'}"],
    "TupleType": ["()", "(1,)", "(1, 'a')"],
}


def receiver_fragments(table_progs):
    out = []
    per_table = {}
    for table, name, code in table_progs:
        if code is None or table not in RECEIVER_SIZES:
            continue
        found = _value_call(code)
        if found is None:
            continue
        per_table.setdefault(table, []).append((name, found[2]))
    for table, methods in sorted(per_table.items()):
        for recv in RECEIVER_SIZES[table]:
            frags = ["value = receiver.%s(%s)\nprint(value)\nprint(receiver)\n" % (name, ", ".join(args)) for name, args in methods]
            frags += ["for element in receiver.%s(%s):\n    print(element)\n" % (name, ", ".join(args)) for name, args in methods]
            out.append(("receiver/%s/%s" % (table, recv), "receiver = %s\n" % recv, frags))
    return out


def nesting_fragments():
    frags = ["return 1\n", "return\n", "global total\ntotal = 1\nprint(total)\n", "nonlocal_free = 1\nprint(nonlocal_free)\n",
             "def a():\n    return 1\nprint(a())\n",
             "def a():\n    def b():\n        return 1\n    return b()\nprint(a())\n",
             "def a():\n    def b():\n        def c():\n            return 1\n        return c()\n    return b()\nprint(a())\n",
             "def a():\n    def b():\n        def c():\n            def d():\n                return 1\n            return d()\n        return c()\n    return b()\nprint(a())\n",
             "def a():\n    class Inner:\n        def m(self):\n            return 1\n    return Inner().m()\nprint(a())\n",
             "class Outer:\n    class Inner:\n        def m(self):\n            def helper():\n                return 1\n            return helper()\nprint(Outer.Inner().m())\n",
             "if True:\n    def a():\n        return 1\n    print(a())\n",
             "for i in range(2):\n    def a():\n        return i\n    print(a())\n",
             "while True:\n    def a():\n        return 1\n    break\n",
             "def a():\n    global g\n    g = 1\n    def b():\n        global g\n        g = 2\n    b()\na()\nprint(g)\n",
             "def a():\n    x = 1\n    def b():\n        nonlocal x\n        x = 2\n        def c():\n            nonlocal x\n            x = 3\n        c()\n    b()\n    return x\nprint(a())\n",
             "def a(n):\n    if n:\n        for i in range(n):\n            while i:\n                if i > 1:\n                    return i\n                i -= 1\n    return 0\nprint(a(3))\n"]
    bodies = [["pass"], ["pass", "pass"], ["x = 1"], ["x = 1", "pass"], ["print(1)"]]
    for body in bodies:
        for orelse in [[]] + bodies:
            for test in ("True", "x > 0", "input()"):
                text = "x = 0\nif %s:\n%s" % (test, "".join("    %s\n" % l for l in body))
                if orelse:
                    text += "else:\n%s" % "".join("    %s\n" % l for l in orelse)
                frags.append(text + "print(x)\n")
    return [("nesting", "", frags)]


def callcycle_fragments():
    """Call CYCLES of every length 1..6 among plain function definitions (round 5, seed C18_I: the recursion guard
    looked only at the last two entries of the definition chain, so a cycle of three or more definitions recursed
    until RecursionError): direct recursion, k functions calling each other in a ring (entered at the first and at a
    middle member), a ring reached through a non-member, rings through a method, two rings sharing a member."""
    frags = []
    n = [0]

    def ring(k, enter=0, via=None):
        n[0] += 1
        tag = "r%d_" % n[0]
        names = ["%sf%d" % (tag, i) for i in range(k)]
        lines = []
        for i, name in enumerate(names):
            nxt = names[(i + 1) % k]
            lines.append("def %s(count):\n    if count <= 0:\n        return 0\n    return 1 + %s(count - 1)\n" % (name, nxt))
        start = names[enter % k]
        if via:
            lines.append("def %sstart(count):\n    return %s(count)\n" % (tag, start))
            start = "%sstart" % tag
        lines.append("print(%s(4))\n" % start)
        return "".join(lines)
    for k in range(1, 7):
        frags.append(ring(k))
        if k > 1:
            frags.append(ring(k, enter=k // 2))
            frags.append(ring(k, via=True))
    n[0] += 1
    t = "r%d_" % n[0]
    frags.append(("class %sNode:\n    def first(self, count):\n        if count <= 0:\n            return 0\n        return self.second(count - 1)\n"
                  "    def second(self, count):\n        return self.third(count)\n    def third(self, count):\n        return self.first(count)\n"
                  "print(%sNode().first(3))\n") % (t, t))
    n[0] += 1
    t = "r%d_" % n[0]
    frags.append(("def %sa(count):\n    if count <= 0:\n        return 0\n    return %sb(count - 1) + %sc(count - 1)\n"
                  "def %sb(count):\n    return %sa(count)\ndef %sc(count):\n    return %sd(count)\ndef %sd(count):\n    return %sa(count)\n"
                  "print(%sa(3))\n") % ((t,) * 10))
    return [("callcycle", "", frags)]


def pack_fragments(groups, individually=False, chunk=40):
    """[(group, head, [fragment, ...])] -> [(origin, code)].  Packed: the fragments of a group one after the other
    (at most `chunk` per program); individually: one program per fragment."""
    out = []
    for group, head, frags in groups:
        if not frags:
            continue
        if individually:
            for f in frags:
                out.append((group, head + f))
        else:
            for k in range(0, len(frags), chunk):
                out.append((group, head + "".join(frags[k:k + chunk])))
    return out


def boundary_programs(table_progs, individually=False, full=False):
    """-> (must-complete [(origin, code)], only-must-return [(origin, code)])"""
    arity, star = table_arity_fragments(table_progs)
    groups = (index_fragments(full) + arity + user_arity_fragments() + unpack_fragments() + annotation_fragments()
              + receiver_fragments(table_progs) + nesting_fragments() + callcycle_fragments())
    return pack_fragments(groups, individually), pack_fragments(star, individually)


# --------------------------------------------------------------------------------------------
# SCOPE-KIND HISTORIES (round 4, seed C18_G): what ONE Tifa object / ONE report keeps between analyses
#
# TifaCore.reset() re-creates about fifteen per-analysis registries (scope/path/ast counters, name_map, loop_usages,
# definition_chain, path_parents, class_scopes, module_scopes ...), all keyed by ids that restart at 0.  A registry that
# survives an analysis is invisible unless the k-th opened scope / path of the EARLIER program differs in KIND from the
# k-th of the LATER one and the later program contains something that kind changes (an annotated assignment, a write to a
# global, an unused local, a branch-only assignment, a recursive call).  So: blocks that open ONE scope (or path) of a
# known kind each, programs = 1..3 blocks in every order, histories = every ordered pair of single-block programs plus
# random longer chains, in four spellings (tifa_analysis on MAIN_REPORT / on a report of our own with and without a
# submission, and Tifa.process_code on one Tifa object with the first program analysed AGAIN at the end - the cache of
# tifa_analysis would serve a repeated text).  Oracle (property text: "deterministically ... the same issues when
# analysed again"): every step's (success, issues, feedback attached) equals what the same text gets alone on a fresh
# report of the same kind.

HISTORY_FILES = {
    "helper.py": "VOLUME = 3\ndef shout(text):\n    loud: str = text.upper()\n    return loud\nclass Tool:\n    size: int = 1\n",
    "tools.py": "import helper\ndef twice(value):\n    return value * 2\nlimit = twice(helper.VOLUME)\n",
}

SCOPE_BLOCKS = [
    # (kind, needs student files, text with {n})
    ("class/annotated-fields", False, "class Point{n}:\n    x: int = 0\n    y: int = 0\npoint{n} = Point{n}()\nprint(point{n}.x + point{n}.y)\n"),
    ("class/plain-fields-and-method", False,
     "class Counter{n}:\n    limit = 3\n    def __init__(self):\n        self.count = 0\n    def bump(self):\n        step: int = 1\n"
     "        self.count = self.count + step\n        return self.count\ncounter{n} = Counter{n}()\nprint(counter{n}.bump(), counter{n}.limit)\n"),
    ("class/dataclass", False,
     "from dataclasses import dataclass\n@dataclass\nclass Pet{n}:\n    name: str\n    age: int\npet{n} = Pet{n}('rex', 3)\nprint(pet{n}.name, pet{n}.age)\n"),
    ("class/empty", False, "class Marker{n}:\n    pass\nmarker{n} = Marker{n}()\nprint(marker{n})\n"),
    ("class/nested", False, "class Outer{n}:\n    class Inner{n}:\n        depth: int = 2\n    width: int = 1\nprint(Outer{n}.width)\n"),
    ("function/annotated-unused-local", False, "def count_up{n}():\n    count{n}: int = 0\n    return 1\nprint(count_up{n}())\n"),
    ("function/annotated-read-local", False, "def label{n}(number: int) -> str:\n    text{n}: str = str(number)\n    return text{n}\nprint(label{n}(2))\n"),
    ("function/unused-local", False, "def helper{n}(first):\n    spare{n} = first\n    return first\nprint(helper{n}(1))\n"),
    ("function/write-to-global", False, "total{n} = 0\ndef add_up{n}():\n    total{n} = 5\n    return total{n}\nprint(add_up{n}(), total{n})\n"),
    ("function/global-statement", False, "best{n} = 0\ndef record{n}(score):\n    global best{n}\n    best{n} = score\nrecord{n}(3)\nprint(best{n})\n"),
    ("function/annotated-global", False, "level{n} = 0\ndef raise_level{n}():\n    level{n}: int = 1\n    return 2\nprint(raise_level{n}(), level{n})\n"),
    ("function/nested", False, "def outer{n}():\n    seen{n}: int = 0\n    def inner{n}():\n        deep{n}: int = 1\n        return 2\n    return inner{n}()\nprint(outer{n}())\n"),
    ("function/recursive", False, "def fact{n}(k):\n    if k <= 1:\n        return 1\n    return k * fact{n}(k - 1)\nprint(fact{n}(3))\n"),
    ("function/loop-and-branch", False,
     "def total_of{n}(items):\n    result = 0\n    for item in items:\n        if item > 1:\n            result = result + item\n    return result\nprint(total_of{n}([1, 2]))\n"),
    ("function/never-called", False, "def idle{n}():\n    waiting{n}: int = 0\n    return 1\nprint('idle')\n"),
    ("function/called-twice", False, "def twice{n}(a):\n    kept{n}: int = a\n    return a\nprint(twice{n}(1))\nprint(twice{n}('a'))\n"),
    ("method/annotated-local", False,
     "class Shape{n}:\n    def area(self):\n        side{n}: int = 2\n        return 4\nshape{n} = Shape{n}()\nprint(shape{n}.area())\n"),
    ("lambda", False, "double{n} = lambda v: v * 2\nprint(double{n}(2))\n"),
    ("comprehension/list", False, "squares{n} = [v * v for v in [1, 2, 3]]\nprint(squares{n})\n"),
    ("comprehension/dict", False, "lengths{n} = {{w: len(w) for w in ['a', 'bb']}}\nprint(lengths{n})\n"),
    ("comprehension/generator", False, "print(sum(v for v in [1, 2, 3] if v > 1))\n"),
    ("import/student-file", True, "import helper\nprint(helper.shout('a'), helper.VOLUME)\n"),
    ("import/from-student-file", True, "from helper import shout\nprint(shout('b'))\n"),
    ("import/student-file-importing-another", True, "import tools\nprint(tools.twice(2))\n"),
    ("import/student-file-after-a-call", True, "def first_of{n}(first):\n    return first\nprint(first_of{n}(1))\nimport helper\nprint(helper.shout('a'))\n"),
    ("import/standard", False, "import math\nprint(math.sqrt(4))\n"),
    ("import/missing", False, "import nowhere{n}\nprint(nowhere{n}.thing)\n"),
    ("toplevel/annotated", False, "size{n}: int = 0\nlimit{n}: int = 3\nprint(limit{n})\n"),
    ("toplevel/overwritten", False, "first{n} = 1\nfirst{n} = 2\nprint(first{n})\n"),
    ("path/if-else", False, "answer{n} = input()\nif answer{n} == 'y':\n    reply{n} = 1\nelse:\n    reply{n} = 2\nprint(reply{n})\n"),
    ("path/if-only", False, "answer{n} = input()\nif answer{n} == 'y':\n    found{n} = 1\nprint(found{n})\n"),
    ("path/for", False, "for index{n} in range(3):\n    last{n} = index{n}\nprint(last{n})\n"),
    ("path/while", False, "tries{n} = 0\nwhile tries{n} < 3:\n    tries{n} = tries{n} + 1\nprint(tries{n})\n"),
    ("path/try", False, "try:\n    number{n} = int(input())\nexcept ValueError:\n    number{n} = 0\nprint(number{n})\n"),
    ("path/with", False, "with open('data.txt') as handle{n}:\n    text{n} = handle{n}.read()\nprint(text{n})\n"),
    ("undefined-name", False, "print(missing{n})\n"),
    # analyses that FAIL (what a failed analysis leaves behind: the TifaAnalysis object, the call chain it was in)
    ("failing/does-not-parse", False, "print(before{n})\ndef broken{n}(:\n    pass\n"),
    ("failing/relative-import-star", False, "print(before{n})\nfrom .. import *\nprint(after{n})\n"),
    ("failing/inside-a-call", False, "print(before{n})\ndef count_up{n}():\n    return max(*[])\nprint(count_up{n}())\n"),
]
HISTORY_MODES = ("MAIN_REPORT", "contextualized", "no-submission", "process_code")


def scope_block(k, n):
    return SCOPE_BLOCKS[k][2].format(n=n)


def history_programs(rng, how_many):
    """-> (single-block programs [(kind, code)], mixed programs [(kinds, code)] of 2..3 blocks in a random order)."""
    singles = [(kind, text.format(n="")) for kind, _, text in SCOPE_BLOCKS]
    mixed = []
    for _ in range(how_many):
        ks = [rng.randrange(len(SCOPE_BLOCKS)) for _ in range(rng.choice([2, 2, 3]))]
        mixed.append(("+".join(SCOPE_BLOCKS[k][0] for k in ks), "".join(scope_block(k, "_%d" % i) for i, k in enumerate(ks))))
    return singles, mixed


_FRESH_STEP = {}


def _step_record(call):
    if "raised_class" in call:
        return {"raised": call["raised_class"]}
    return {"success": call["success"], "issues": call["issues"], "feedback": call["feedback"], "system": call["system"]}


def fresh_step(code, mode, files=HISTORY_FILES):
    """What `code` gets ALONE on a fresh report of this kind (memoised per run: fresh-report determinism itself is what
    the rest of the search checks)."""
    key = (code, mode)
    if key not in _FRESH_STEP:
        _FRESH_STEP[key] = run_history([code], mode, files)[0]
    return _FRESH_STEP[key]


def run_history(codes, mode, files=HISTORY_FILES):
    """One fresh report (submission: codes[0] as main file + `files`), then every program of `codes` in order through
    the spelling `mode`; with "process_code", the FIRST program is analysed once more at the end (B, A..., B).
    -> one record per step: success, issues, feedback attached BY THIS STEP (on the report and on MAIN_REPORT)."""
    from pedal.core.report import MAIN_REPORT
    out = []
    try:
        report = setup_report(codes[0], None, 0, None if mode in ("MAIN_REPORT",) else
                              ("no-submission" if mode == "no-submission" else "contextualized"),
                              extra_files=None if mode == "no-submission" else files)
    except BaseException as e:
        return [{"setup_error": type(e).__name__}]
    if mode == "process_code":
        from pedal.tifa import Tifa
        try:
            tifa = Tifa(report=report)
        except BaseException as e:
            return [{"setup_error": "Tifa(): " + type(e).__name__}]
        steps = list(codes) + ([codes[0]] if len(codes) > 1 else [])
        for code in steps:
            before = len(report.feedback) + (len(MAIN_REPORT.feedback) if report is not MAIN_REPORT else 0)
            try:
                t = tifa.process_code(code)
            except BaseException as e:
                out.append({"raised": type(e).__name__})
                break
            after = len(report.feedback) + (len(MAIN_REPORT.feedback) if report is not MAIN_REPORT else 0)
            fbs = report.feedback + (MAIN_REPORT.feedback if report is not MAIN_REPORT else [])
            out.append({"success": bool(t.success), "issues": canon_issues(t), "feedback": after - before,
                        "system": sum(1 for f in fbs if is_system(f))})
        # `system` is cumulative above: make it per step
        prev = 0
        for r in out:
            if "system" in r:
                r["system"], prev = r["system"] - prev, r["system"]
        return out
    base = _bases(report)
    prev_fb = prev_sys = 0
    for code in codes:
        t, call = one_call(report, base, code, False)
        rec = _step_record(call)
        if "feedback" in rec:
            rec["feedback"], prev_fb = rec["feedback"] - prev_fb, rec["feedback"]
            rec["system"], prev_sys = rec["system"] - prev_sys, rec["system"]
        out.append(rec)
        if t is None:
            break
    return out


def history_oracle(codes, mode, files=HISTORY_FILES):
    """-> [(signature, what, step index)] for one history."""
    recs = run_history(codes, mode, files)
    bad = []
    if recs and "setup_error" in recs[0]:
        return bad, recs
    steps = list(codes) + ([codes[0]] if mode == "process_code" and len(codes) > 1 else [])
    # the gated input family gets a signature of its own, so that a record for it cannot cover the others
    hist = "history/several-student-file-imports" if sum(1 for c in steps if _imports_student_file(c)) > 1 else "history"
    for k, (code, rec) in enumerate(zip(steps, recs)):
        if "raised" in rec:
            bad.append(({"kind": "raised", "error": rec["raised"]}, "step %d of a history (%s) raised %s" % (k, mode, rec["raised"]), k))
            break
        alone = fresh_step(code, mode, files)
        if "raised" in alone or "setup_error" in alone:
            continue
        if rec["issues"] != alone["issues"] or rec["success"] != alone["success"]:
            only_h = [i for i in rec["issues"] if i not in alone["issues"]]
            only_f = [i for i in alone["issues"] if i not in rec["issues"]]
            bad.append(({"kind": "nondeterministic", "what": hist},
                        "history (%s): program %d of %d on one %s gets other issues than alone on a fresh one (success %s/%s; only in "
                        "the history: %s; only alone: %s)" % (mode, k + 1, len(steps), "Tifa object" if mode == "process_code" else "report",
                                                              rec["success"], alone["success"], json.dumps(only_h)[:300], json.dumps(only_f)[:300]), k))
        elif rec["feedback"] != alone["feedback"] or rec["system"] != alone["system"]:
            bad.append(({"kind": "nondeterministic", "what": hist + "-feedback"},
                        "history (%s): program %d of %d attached %d feedback object(s) (%d system), alone on a fresh report %d (%d)"
                        % (mode, k + 1, len(steps), rec["feedback"], rec["system"], alone["feedback"], alone["system"]), k))
    return bad, recs


def shrink_history(codes, mode, sig, files=HISTORY_FILES):
    """Drop programs of the history (never the last analysed one) while the signature stays."""
    def still(cs):
        return any(s == sig for s, _, _ in history_oracle(cs, mode, files)[0])
    codes = list(codes)
    changed = True
    while changed and len(codes) > 2:
        changed = False
        for i in range(len(codes)):
            cand = codes[:i] + codes[i + 1:]
            if len(cand) >= 2 and still(cand):
                codes, changed = cand, True
                break
    return codes


def _imports_student_file(code):
    return any(("import " + os.path.splitext(f)[0]) in code or ("from " + os.path.splitext(f)[0] + " ") in code for f in HISTORY_FILES)


def scope_histories(rng, n_mixed, n_chains, several_student_imports=False, full=False):
    """-> iterator of (codes, mode, description).  Every ordered pair of single-block programs (the spelling rotates
    with the pair, so every pair of KINDS is seen in a spelling chosen by position; every pair with a class/function/
    import block first (thorough: also function) additionally on one Tifa object), then random chains of 3..6 programs over singles + mixed.
    several_student_imports=False (C18_STUDENT_IMPORT_HISTORIES=0; the check passes True by default): histories in which
    MORE THAN ONE analysis imports a second student file are left out.  Before fix 458054d load_module kept the visited
    module - with function closures over the scope ids of THAT analysis - in report[tifa]['types']['modules'], and a
    later analysis on the same report that imported it again got write_out_of_scope/type_changes for `*return`; these
    histories have a signature of their own (what = history/several-student-file-imports)."""
    for codes, mode, desc in _scope_histories(rng, n_mixed, n_chains, full):
        if not several_student_imports:
            steps = list(codes) + ([codes[0]] if mode == "process_code" and len(codes) > 1 else [])
            if sum(1 for c in steps if _imports_student_file(c)) > 1:
                continue
        yield codes, mode, desc


def _scope_histories(rng, n_mixed, n_chains, full=False):
    singles, mixed = history_programs(rng, n_mixed)
    n = 0
    for ka, a in singles:
        for kb, b in singles:
            if a == b:
                continue
            n += 1
            yield [a, b], HISTORY_MODES[n % 3], "pair %s -> %s" % (ka, kb)
            if ka.split("/")[0] in ("class", "method", "import") or (full and ka.split("/")[0] == "function"):
                yield [b, a], "process_code", "pair %s, %s, %s again" % (kb, ka, kb)
    pool = singles + mixed
    for c in range(n_chains):
        chain = [rng.choice(pool) for _ in range(rng.randint(3, 6))]
        codes = []
        for _, code in chain:
            if code not in codes:
                codes.append(code)
        if len(codes) >= 2:
            yield codes, HISTORY_MODES[c % 4], "chain " + " -> ".join(k for k, _ in chain)


# --------------------------------------------------------------------------------------------
# REUSE FAMILIES (round 4, seed C18_H): a value whose TYPE went through clone()/shallow_clone()/clone_mutably()/a
# constructor/an operator is then used SEVERAL times, in every order
#
# Type objects are built in ~25 places from comprehensions over another type's parts (Type.clone and its overrides in
# TypeUnion/FunctionType/ListType/TupleType/DictType/ClassType/InstanceType/ModuleType/LiteralValue, shallow_clone,
# clone_mutably for arguments and builtin names, add_element_container_types for `+`, the 'identity' returns of
# sorted/reversed, the_self.clone() of .copy(), as_type of annotations, zip/enumerate/items definitions).  A part kept
# as a one-shot iterator (generator expression, zip, map, dict view of a temporary) works for the FIRST use and fails
# for a later one, and only if the later one needs an earlier position.  So: source literal x the way its type reaches
# the name `value` x every ordered pair (thorough: also triples) of uses - key lookups in and out of literal order,
# loops, method calls, stores, membership, printing.  All must complete.

REUSE_HEAD = "import copy\n"
REUSE_SOURCES = {
    "dict": ["{'apple': 3, 'pear': 5}", "{'name': 'a', 'age': 1, 'score': 2.5}", "{1: 'one', 2: 'two'}",
             "{'in': {'x': 1, 'y': 2}, 'out': {'x': 3, 'y': 4}}", "{'k': [1, 2], 'm': [3]}", "{}"],
    "list": ["[3, 1, 2]", "[1, 'a', 2.5]", "[(1, 'a'), (2, 'b')]", "['a', 'b']", "[[1, 2], [3]]", "[{'x': 1, 'y': 2}, {'x': 3, 'y': 4}]", "[]"],
    "tuple": ["(1, 'a', 2.5)", "((1, 2), (3, 4))", "(1,)"],
    "set": ["{1, 'a'}", "{1, 2}"],
    "str": ["'ab cd'"],
}
# how the type reaches `value`: (name, kinds it applies to, lines before the uses, indentation of the uses, lines after)
REUSE_PATHS = [
    ("literal", "dict list tuple set str", ["value = {src}"], "", []),
    ("alias", "dict list tuple set str", ["origin = {src}", "value = origin"], "", []),
    ("copy-method", "dict list set", ["origin = {src}", "value = origin.copy()"], "", []),
    ("copy-of-copy", "dict list set", ["origin = {src}", "value = origin.copy().copy()"], "", []),
    ("copy.copy", "dict list tuple set", ["value = copy.copy({src})"], "", []),
    ("copy.deepcopy", "dict list tuple set", ["value = copy.deepcopy({src})"], "", []),
    ("constructor", "dict list tuple set str", ["origin = {src}", "value = {ctor}(origin)"], "", []),
    ("returned", "dict list tuple set str", ["def make():", "    return {src}", "value = make()"], "", []),
    ("returned-copy", "dict list set", ["def make(origin):", "    return origin.copy()", "value = make({src})"], "", []),
    ("parameter", "dict list tuple set str", ["def use(value):"], "    ", ["    return value", "print(use({src}))"]),
    ("annotated-parameter", "dict list tuple set str", ["def use(value: {ctor}):"], "    ", ["    return value", "print(use({src}))"]),
    ("default-parameter", "dict list tuple set str", ["def use(value={src}):"], "    ", ["    return value", "print(use())"]),
    ("parameter-called-twice", "dict list tuple", ["def use(value):"], "    ", ["    return value", "print(use({src}))", "print(use({src}))"]),
    ("plus", "list tuple", ["origin = {src}", "value = origin + origin"], "", []),
    ("empty-plus", "list", ["value = [] + {src}"], "", []),
    ("times", "list tuple str", ["origin = {src}", "value = origin * 2"], "", []),
    ("augmented-plus", "list tuple", ["value = {src}", "value += {src}"], "", []),
    ("slice-all", "list tuple str", ["origin = {src}", "value = origin[:]"], "", []),
    ("slice-tail", "list tuple str", ["origin = {src}", "value = origin[0:]"], "", []),
    ("sorted", "list", ["origin = {src}", "value = sorted(origin)"], "", []),
    ("reversed", "list", ["origin = {src}", "value = list(reversed(origin))"], "", []),
    ("union", "set", ["origin = {src}", "value = origin | origin"], "", []),
    ("update", "dict set", ["value = {src}", "value.update({src})"], "", []),
    ("element-of-concatenation", "dict list tuple set", ["rows = [{src}]", "more = rows + rows", "for value in more:"], "    ", []),
    ("element-of-concatenation-indexed", "dict list tuple set", ["rows = [{src}]", "value = (rows + rows)[0]"], "", []),
    ("element-of-repetition", "dict list tuple set", ["rows = [{src}] * 2", "value = rows[1]"], "", []),
    ("element-of-list-copy", "dict list tuple set", ["rows = [{src}, {src}]", "value = rows.copy()[0]"], "", []),
    ("element-of-list-constructor", "dict list tuple set", ["rows = [{src}]", "for value in list(rows):"], "    ", []),
    ("element-of-slice", "dict list tuple set", ["rows = [{src}, {src}]", "for value in rows[1:]:"], "    ", []),
    ("element-of-appended", "dict list tuple set", ["rows = []", "rows.append({src})", "for value in rows:"], "    ", []),
    ("value-of-dict-copy", "dict list tuple set", ["holder = {{'k': {src}}}", "value = holder.copy()['k']"], "", []),
    ("value-of-dict-values", "dict list tuple set", ["holder = {{'k': {src}}}", "for value in holder.copy().values():"], "    ", []),
    ("item-of-tuple-plus", "dict list tuple set", ["holder = ({src}, 1)", "value = (holder + holder)[0]"], "", []),
    ("field-of-instance", "dict list tuple set", ["class Box:", "    def __init__(self):", "        self.data = {src}", "value = Box().data"], "", []),
    ("field-of-dataclass", "dict list tuple set", ["from dataclasses import dataclass", "@dataclass", "class Box:", "    data: {ctor}",
                                                   "value = Box({src}).data"], "", []),
    ("comprehension-element", "dict list tuple set", ["rows = [{src}, {src}]", "for value in [row for row in rows]:"], "    ", []),
    ("setdefault", "dict list", ["holder = {{}}", "value = holder.setdefault('k', {src})"], "", []),
    ("get-with-default", "dict list", ["holder = {{'k': {src}}}", "value = holder.get('k', {src})"], "", []),
    ("pop", "dict list tuple", ["rows = [{src}, {src}]", "value = rows.pop()"], "", []),
    ("conditional", "dict list tuple set", ["value = {src} if input() else {src}"], "", []),
    ("branches", "dict list tuple set", ["if input():", "    value = {src}", "else:", "    value = {src}"], "", []),
]
REUSE_QUICK_SOURCES = {"dict": 4, "list": 3, "tuple": 1, "set": 1, "str": 1}
REUSE_CTOR = {"dict": "dict", "list": "list", "tuple": "tuple", "set": "set", "str": "str"}
NAMESPACE_PATHS = [["alpha = 1", "beta = 'b'", "value = globals()"], ["alpha = 1", "beta = 'b'", "value = locals()"],
                   ["alpha = 1", "beta = 'b'", "value = vars()"],
                   ["alpha = 1", "beta = 'b'", "value = globals().copy()"]]


def reuse_uses(kind, src, full):
    """Single uses of `value` (each one or two lines); ordered pairs/triples are formed by the caller."""
    try:
        lit = ast.literal_eval(src)
    except Exception:
        lit = None
    if kind == "dict":
        keys = [repr(k) for k in lit] if lit else ["'apple'"]
        first, last = keys[0], keys[-1]
        uses = ["print(value[%s])" % last, "print(value[%s])" % first,
                "for key in value:\n    print(key, value[key])", "for key, item in value.items():\n    print(key, item)",
                "print(value.get(%s), len(value))" % last, "value[%s] = value[%s]" % (first, first)]
        if len(keys) > 2:
            uses.insert(1, "print(value[%s])" % keys[1])
        if lit and isinstance(lit[next(iter(lit))], dict):
            uses += ["print(value[%s]['y'])" % last, "print(value[%s]['x'])" % last]
        if full:
            uses += ["print(%s in value)" % first, "print(list(value.keys()))", "print(list(value.values()))", "print(value)",
                     "other = value.copy()\nprint(other[%s])" % first, "del value[%s]" % last, "print(sorted(value))",
                     "print(value.pop(%s))" % first, "value.update({%s: value[%s]})" % (last, last),
                     "print([value[key] for key in value])", "print(missing_key if False else value[%s])" % last]
        return uses
    if kind in ("list", "tuple", "str"):
        n = len(lit) if lit is not None else 2
        uses = ["print(value[%d])" % max(n - 1, 0), "print(value[0])", "for item in value:\n    print(item)", "print(len(value), value)",
                "print(value[-1])"]
        if kind == "list":
            uses += ["value.append(value[0])", "value[0] = value[%d]" % max(n - 1, 0)]
        if kind == "tuple" and n >= 2:
            uses += ["%s = value\nprint(p0)" % ", ".join("p%d" % i for i in range(n))]
        if lit and isinstance(lit[0], (tuple, list)):
            uses += ["print(value[0][1])", "print(value[0][0])", "for left, right in value:\n    print(right, left)" if len(lit[0]) == 2 else "print(value[-1][0])"]
        if full:
            uses += ["print(value[1:])", "print(value.count(value[0]))", "print(value.index(value[0]))", "print(value + value)",
                     "print(value * 2)", "print(sorted(value))", "print([item for item in value])", "print(value[0] in value)",
                     "for position, item in enumerate(value):\n    print(position, item)", "print(max(value), min(value))"]
        return uses
    if kind == "set":
        uses = ["for item in value:\n    print(item)", "print(len(value), value)", "print(1 in value)", "value.add(1)", "print(sorted(value))"]
        if full:
            uses += ["print(value | value)", "print(value.pop())", "other = value.copy()\nprint(other)", "print(max(value))"]
        return uses
    return []


def _indent(text, ind):
    return "".join(ind + line + "\n" for line in text.split("\n"))


SELF_STORE_SOURCES = [("{'in': {'x': 1}, 'out': {'x': 3}}", "'in'", "'new'"), ("[{'x': 1}, {'x': 2}]", "0", "1"),
                      ("{'k': [1, 2], 'm': [3]}", "'k'", "'new'"), ("[[1, 2], [3]]", "0", "1"), ("{'a': 1}", "'a'", "'b'")]
SELF_STORE_CLONES = ["other = value.copy()\nprint(other)", "more = [value] + [value]\nprint(more)", "print(value)",
                     "def show(table):\n    return table\nprint(show(value))"]


def self_store_fragments():
    """An element read out of a container and stored back into it, then a clone (C18_SELF_STORE_REUSE=0 switches the
    group off).  Before fix 7c87412 assign_target called set_index on the ELEMENT type instead of the container, a dict
    element became its own value type and every later clone() of it recursed until RecursionError."""
    frags = []
    for src, k1, k2 in SELF_STORE_SOURCES:
        for store in ("value[%s] = value[%s]" % (k1, k1), "inner = value[%s]\nvalue[%s] = inner" % (k1, k2),
                      "value[%s] = value[%s]" % (k2, k1)):
            for use in SELF_STORE_CLONES:
                frags.append("value = %s\n%s\n%s\n" % (src, store, use))
    return [("reuse/self-store", "", frags)]


def reuse_fragments(full=False, self_store=False):
    """-> [(group, head, [fragment, ...])] like the boundary families."""
    import itertools
    out = self_store_fragments() if self_store else []
    for kind, sources in REUSE_SOURCES.items():
        for src in (sources if full else sources[:REUSE_QUICK_SOURCES[kind]]):
            uses = reuse_uses(kind, src, full)
            n = len(uses)
            if full:
                # every ordered pair of the basic uses (also a use repeated), every ordered triple of the first four, every
                # further use before and after each of the first three
                b = len(reuse_uses(kind, src, False))
                seqs = list(itertools.product(range(b), repeat=2)) + list(itertools.permutations(range(min(b, 4)), 3))
                seqs += [q for e in range(b, n) for i in range(min(b, 3)) for q in ((e, i), (i, e))]
            else:
                # quick: every use directly followed / preceded by its neighbours in the list (the two lookups that
                # open the list are therefore seen out of AND in literal order), a use repeated, and one long run of
                # all uses forwards then backwards (anything one-shot is exhausted by then)
                seqs = [(i, (i + 1) % n) for i in range(n)] + [((i + 1) % n, i) for i in range(n)] + [(0, 0), (2 % n, 2 % n)]
                seqs.append(tuple(range(n)) + tuple(reversed(range(n))))
            for pname, kinds, before, ind, after in REUSE_PATHS:
                if kind not in kinds.split():
                    continue
                pre = "".join(l.format(src=src, ctor=REUSE_CTOR[kind]) + "\n" for l in before)
                post = "".join(l.format(src=src, ctor=REUSE_CTOR[kind]) + "\n" for l in after)
                frags = [pre + "".join(_indent(uses[i], ind) for i in seq) + post for seq in seqs]
                out.append(("reuse/%s/%s/%s" % (kind, pname, src), REUSE_HEAD, frags))
    keyuses = ["print(value['beta'])", "print(value['alpha'])", "for key in value:\n    print(key, value[key])", "print(len(value), value)",
               "print(value.get('alpha'))", "for key, item in value.items():\n    print(key, item)"]
    for before in NAMESPACE_PATHS:
        pre = "".join(l + "\n" for l in before)
        nseqs = list(itertools.permutations(range(len(keyuses)), 2))
        if not full:
            nseqs = [q for q in nseqs if abs(q[0] - q[1]) in (1, len(keyuses) - 1)] + [tuple(range(len(keyuses))) * 2]
        frags = [pre + "".join(_indent(keyuses[i], "") for i in seq) for seq in nseqs]
        out.append(("reuse/namespace/%s" % before[-1], "", frags))
        fpre = "def inside(alpha, beta):\n" + _indent(before[-1], "    ")
        frags = [fpre + "".join(_indent(keyuses[i], "    ") for i in seq) + "    return value\nprint(inside(1, 'b'))\n"
                 for seq in nseqs]
        out.append(("reuse/namespace-in-function/%s" % before[-1], "", frags))
    return out

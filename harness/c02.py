"""C02 — a submission is marked correct exactly when no shown negative feedback fired."""
import sys
import resolver_check as rk
import resolver_common as rc

THEOREMS = [
    "Pedal.Resolver.c02_correct_iff",
    "Pedal.Resolver.c02_success_marker_cannot_outvote",
    "Pedal.Resolver.c02_correct_when_none",
    "Pedal.Resolver.c01_suppressed_iff",
    "Pedal.Resolver.c01_used_is_first_shown",
]
NOTES = [
    "hypothesis HasMessages (a triggered feedback carries a message) is C20's invariant; the generator never "
    "produces a triggered feedback whose _get_message returns None",
    "`correct` is modelled by its truthiness (the code chains `correct and self.correct` and ends with bool())",
    "same model and generated tables as C01",
]
if __name__ == "__main__":
    sys.exit(rk.make("C02", rc.oracle_c02, THEOREMS, model_notes=NOTES)())

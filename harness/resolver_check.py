"""Check body shared by C01 / C02 / C03."""
import itertools
import json
import os

from common import VERIF, CorrResult, Failure, run_check
import resolver_common as rc
from translate_resolver import translate as translate_tables
from translate_merge import translate as translate_merge_program


def translate():
    """Both generated files: the tables (rank order, aliases, offsets, constants) and the IR program of
    FinalFeedback.merge's tail / finalize's conditions."""
    return {"tables": translate_tables(), "merge_program": translate_merge_program()}


TIE_THEOREMS = [
    "Pedal.Resolver.merge_ir_agrees",       # generated merge tail = hand-written reading, on every observation
    "Pedal.Resolver.finalize_ir_agrees",    # generated finalize conditions / keys / shape
    "Pedal.Resolver.merge_eq_spec",         # the hand model's merge is that reading
    "Pedal.Resolver.resolveIR_eq_resolve",  # what the driver executes = the model the theorems are about
]


def corpus_cases(prop):
    d = os.path.join(VERIF, "corpus", prop)
    out = []
    if os.path.isdir(d):
        for name in sorted(os.listdir(d)):
            if name.endswith(".json"):
                with open(os.path.join(d, name)) as fh:
                    out.append(json.load(fh))
    return out


def nontrivial_key(objs, case):
    """Non-trivial: at least two eligible feedbacks, or a suppression that changes eligibility."""
    sups = case["sups"]
    elig = [i for i, f in enumerate(objs) if rc.spec_eligible(f, sups)]
    elig0 = [i for i, f in enumerate(objs) if rc.spec_eligible(f, [])]
    scored = sum(1 for f in objs if f.score is not None)
    if len(elig) >= 2 or elig != elig0 or scored >= 2:
        return json.dumps(case, sort_keys=True)
    return None


def make(prop, oracle, theorems, *, domain=rc.in_c01_domain, gen_kwargs=None, model_notes=None,
         refuted_full=None, extra_streams=None, extra_corr=None):
    gen_kwargs = gen_kwargs or {}

    def correspond(rng, tier, driver):
        res = CorrResult()
        res.rule = ("cases = corpus + seeded random reports (0-5 feedbacks via Feedback(...) and core commands over "
                    "20 categories x 19 priorities x kinds x muted/unscored/activate/else_message/fields/scores, 0-3 "
                    "suppressions of all five forms, half aimed at existing feedback); real = "
                    "pedal.resolvers.simple.resolve on MAIN_REPORT, model = Pedal.Resolver.resolve through the driver; "
                    "non-trivial = >=2 eligible feedbacks, or a suppression changing eligibility, or >=2 scored")
        n = 4000 if tier == "quick" else 30000
        cases = corpus_cases("resolver") + corpus_cases(prop)
        for _ in range(n):
            r = rng.random()
            cases.append(rc.gen_case(rng, malformed=(r < 0.08), offgrid=(r > 0.85), **gen_kwargs))
        reals, lines = [], []
        for case in cases:
            objs, real = rc.run_real(case)
            reals.append((case, objs, real))
            lines.append(rc.request_line(objs, case))
        answers = driver.ask(lines)
        for (case, objs, real), line, ans in zip(reals, lines, answers):
            model = rc.parse_model(ans)
            res.evaluations += 1
            res.count("error" if "error" in real else ("default" if not real["used"] else "shown"))
            res.count("nfb=%d" % len(objs))
            res.count("nsup=%d" % len(case["sups"]))
            if "error" not in model and "bad" not in model:
                res.count("model-score:" + ("exact" if model["score"][0] == "e" else model["score"][:1]))
            k = nontrivial_key(objs, case)
            if k:
                res.nontrivial.add(k)
            d = rc.compare(real, model)
            if d:
                res.disagreements.append({"case": case, "real": real, "model": model, "fields": d, "request": line})
        res.samples = [c for c, _, _ in reals[-3:]]
        if extra_corr is not None:
            extra_corr(rng, tier, driver, res)
        res.reals = reals
        return res

    def search(rng, tier, broken, corr):
        failures = []
        info = {"rule": "real resolve() vs the property oracle written from the statement; corpus, the correspondence "
                        "cases, seeded random cases and (thorough) every report of <=2 feedbacks over a reduced alphabet",
                "evaluations": 0, "distinct_nontrivial": 0, "samples": []}
        seen = set()
        nt = set()

        def consider(case, objs, real):
            info["evaluations"] += 1
            if not domain(case):
                return
            v = oracle(objs, case, real)
            k = nontrivial_key(objs, case)
            if k:
                nt.add(k)
            if v is not None:
                sig, what = v

                def still(c):
                    o, r = rc.run_real(c)
                    vv = oracle(o, c, r) if domain(c) else None
                    return vv is not None and vv[0] == sig
                small = rc.shrink(case, still)
                key = json.dumps(small, sort_keys=True)
                if key not in seen:
                    seen.add(key)
                    o, r = rc.run_real(small)
                    vv = oracle(o, small, r)
                    failures.append(Failure(sig, vv[1] if vv else what, {"case": small, "real": r}))

        for case, objs, real in getattr(corr, "reals", []):
            consider(case, objs, real)
            if len(failures) >= 5:
                break
        n = 3000 if tier == "quick" else 30000
        if broken:
            n *= 5
        for case in corpus_cases("resolver") + corpus_cases(prop):
            objs, real = rc.run_real(case)
            consider(case, objs, real)
        for _ in range(n):
            if len(failures) >= 5:
                break
            case = rc.gen_case(rng, offgrid=rng.random() < 0.1, **gen_kwargs)
            objs, real = rc.run_real(case)
            consider(case, objs, real)
        if (tier == "thorough" or broken) and len(failures) < 5:
            for case in small_scope():
                objs, real = rc.run_real(case)
                consider(case, objs, real)
                if len(failures) >= 5:
                    break
        for stream in (extra_streams or []):
            for f in stream(rng, tier, broken, info):
                failures.append(f)
        info["distinct_nontrivial"] = len(nt)
        return failures, info

    def replay(payload):
        case = payload.get("replay", {}).get("case")
        if case is None:
            print(json.dumps(payload, indent=1)[:4000])
            return 0
        objs, real = rc.run_real(case)
        print("case:", json.dumps(case))
        print("real:", real)
        print("oracle:", oracle(objs, case, real))
        return 0

    def go():
        return run_check(prop, proof_modules=["PedalProofs." + prop], theorems=list(theorems) + TIE_THEOREMS, driver_exe="driver_resolver",
                         translate=translate,
                         correspond=correspond, search=search, replay=replay, model_notes=model_notes,
                         refuted_full=refuted_full, leanchecker_modules=["PedalProofs." + prop])
    return go


def small_scope():
    """Every report of <=2 feedbacks over a reduced alphabet x <=1 suppression."""
    cats = ["syntax", "runtime", "instructor", "weird", None]
    prios = [None, "high", "low", "student", "lowest"]
    fbs = []
    for cat, pr, act, muted, kind, corr, sc in itertools.product(
            cats, prios, [True, False], [None, True], [None, "Compliment"], [None, True], [None, "+10%"]):
        kw = dict(label="a", category=cat, priority=pr, activate=act, muted=muted, kind=kind, correct=corr,
                  message="m", fields={'k': 1})
        if sc:
            kw['score'] = sc
            kw['valence'] = -1
        fbs.append(["Feedback", kw])
    sups_all = [[], [["runtime", True, None]], [["syntax", "a", {'k': 1}]], [[None, "a", {'k': 2}]], [[None, "a", None]]]
    # singles x all sups, pairs x a sample of sups
    for f in fbs:
        for s in sups_all:
            yield {"fbs": [f], "sups": s}
    step = 7
    for i in range(0, len(fbs), step):
        for j in range(0, len(fbs), step + 4):
            g = json.loads(json.dumps(fbs[j]))
            g[1]["label"] = "b"
            g[1]["message"] = "n"
            for s in sups_all[:3]:
                yield {"fbs": [fbs[i], g], "sups": s}

"""
C19 — shared pieces: encoding pedal types / values for the Lean driver, expression-tree programs, the real TIFA
runner and the run-time oracle (plain CPython evaluation, written from the property text).
"""
import itertools
import math
import operator

from common import enc_str, use_repo

use_repo()

from pedal import contextualize_report, clear_report                                   # noqa: E402
from pedal.tifa import tifa_analysis                                                    # noqa: E402
from pedal.types.new_types import is_subtype                                            # noqa: E402
from pedal.types.normalize import get_pedal_type_from_value, normalize_type             # noqa: E402

# (wire name, source symbol, python function)
BINOPS = [("add", "+", operator.add), ("sub", "-", operator.sub), ("mult", "*", operator.mul),
          ("div", "/", operator.truediv), ("floordiv", "//", operator.floordiv), ("mod", "%", operator.mod),
          ("pow", "**", operator.pow), ("lshift", "<<", operator.lshift), ("rshift", ">>", operator.rshift),
          ("bitor", "|", operator.or_), ("bitxor", "^", operator.xor), ("bitand", "&", operator.and_),
          ("matmult", "@", operator.matmul)]
CMPOPS = [("eq", "==", operator.eq), ("noteq", "!=", operator.ne), ("lt", "<", operator.lt), ("lte", "<=", operator.le),
          ("gt", ">", operator.gt), ("gte", ">=", operator.ge), ("is", "is", operator.is_),
          ("isnot", "is not", operator.is_not), ("in", "in", lambda a, b: operator.contains(b, a)),
          ("notin", "not in", lambda a, b: not operator.contains(b, a))]
OPS = {("b:" + n): (s, f) for n, s, f in BINOPS}
OPS.update({("c:" + n): (s, f) for n, s, f in CMPOPS})

CORE = ["int", "float", "str", "list", "tuple"]
# representatives: source text; several per class so value-dependent cells are seen
REPS = {
    "int": ["3", "-2", "0", "1"],
    "float": ["2.5", "-0.5", "0.0"],
    "str": ["'ab'", "''", "'%d'"],
    "list": ["[1, 2]", "[]", "[7]", "['a']"],
    "tuple": ["(1, 2)", "(5,)", "()", "('a', 1)"],
}
# the pedal type classes a leaf of each class may be given (the model's `keysOf`)
LEAF_HEADS = {"int": {"Lint", "int"}, "float": {"Lfloat", "float"}, "str": {"Lstr", "str"}, "list": {"list"},
              "tuple": {"tuple"}}

# --------------------------------------------------------------------------
# encoding pedal types

SIMPLE = {"AnyType": "any", "ImpossibleType": "imp", "NoneType": "none", "NumType": "num", "IntType": "int",
          "FloatType": "float", "BoolType": "bool", "StrType": "str", "LiteralInt": "Lint", "LiteralFloat": "Lfloat",
          "LiteralBool": "Lbool", "LiteralStr": "Lstr"}
CONTAINERS = {"ListType": "list", "SetType": "set", "FrozenSetType": "fset"}


def enc_ty(t, depth=0):
    """pedal Type object -> token list (anything unknown is `other <class name>`)."""
    name = type(t).__name__
    if depth > 40:
        return ["other", enc_str("too-deep")]
    if name in SIMPLE:
        return [SIMPLE[name]]
    if name in CONTAINERS:
        return [CONTAINERS[name], "1" if t.is_empty else "0"] + enc_ty(t.element_type, depth + 1)
    if name == "TupleType":
        if not isinstance(t.element_types, (tuple, list)):      # never consume an iterator while looking at it
            return ["other", enc_str("TupleType-with-%s" % type(t.element_types).__name__)]
        elems = list(t.element_types)
        out = ["tuple", str(len(elems))]
        for e in elems:
            out += enc_ty(e, depth + 1)
        return out
    if name == "DictType":
        items = list(t.element_types)
        out = ["dict", str(len(items))]
        for k, v in items:
            out += enc_ty(k, depth + 1) + enc_ty(v, depth + 1)
        return out
    return ["other", enc_str(name)]


def ty_str(tokens):
    return ",".join(tokens)


# --------------------------------------------------------------------------
# encoding values

def enc_val(v):
    if v is None:
        return ["n"]
    if isinstance(v, bool):
        return ["b1" if v else "b0"]
    if isinstance(v, int):
        return ["i%d" % v]
    if isinstance(v, float):
        return ["f"]
    if isinstance(v, str):
        return ["s"]
    if isinstance(v, (list, tuple, set)):
        items = list(v)                      # for a set: its iteration order, which is what pedal sees
        out = [{list: "list", tuple: "tuple", set: "set"}[type(v)], str(len(items))]
        for x in items:
            out += enc_val(x)
        return out
    if isinstance(v, dict):
        out = ["dict", str(len(v))]
        for k, x in v.items():
            out += enc_val(k) + enc_val(x)
        return out
    raise ValueError("value outside the modelled universe: %r" % (v,))


def gen_hashable(rng, d=0):
    r = rng.random()
    if r < 0.3:
        return rng.choice([0, 1, 2, -3, 10 ** 20])
    if r < 0.5:
        return rng.choice(["a", "", "key", "é"])
    if r < 0.62:
        return rng.choice([True, False])
    if r < 0.74:
        return rng.choice([0.5, 1.0, -2.25])
    if r < 0.8 or d >= 2:
        return None
    return tuple(gen_hashable(rng, d + 1) for _ in range(rng.randint(0, 3)))


def gen_value(rng, d=0):
    """nested value of ints/floats/bools/strs/None/lists/tuples/dicts/sets"""
    r = rng.random()
    if d >= 3 or r < 0.35:
        return gen_hashable(rng, 2)
    n = rng.choice([0, 1, 1, 2, 2, 3])
    homog = rng.random() < 0.5
    if r < 0.55:
        if homog:
            proto = gen_value(rng, d + 1)
            return [proto if rng.random() < 0.5 else gen_like(rng, proto, d + 1) for _ in range(n)]
        return [gen_value(rng, d + 1) for _ in range(n)]
    if r < 0.7:
        return tuple(gen_value(rng, d + 1) for _ in range(n))
    if r < 0.82:
        return {gen_hashable(rng, 1) for _ in range(n)}
    if homog:
        return {rng.choice(["a", "b", "c", "d"]): gen_value(rng, d + 1) for _ in range(n)}
    return {gen_hashable(rng, 1): gen_value(rng, d + 1) for _ in range(n)}


def gen_like(rng, proto, d):
    """another value of the same Python class (so widest_type has something to widen)"""
    if isinstance(proto, bool):
        return rng.choice([True, False])
    if isinstance(proto, int):
        return rng.randint(-5, 5)
    if isinstance(proto, float):
        return rng.choice([0.5, 1.5, -3.0])
    if isinstance(proto, str):
        return rng.choice(["x", "", "yz"])
    if proto is None:
        return None
    if isinstance(proto, list):
        return [gen_like(rng, p, d + 1) for p in proto] if rng.random() < 0.6 else []
    if isinstance(proto, tuple):
        return tuple(gen_like(rng, p, d + 1) for p in proto)
    return gen_value(rng, d)


# --------------------------------------------------------------------------
# expression trees:  ("L", cls, source, var)  |  ("N", op, left, right)

def leaves_of(tree, out=None):
    out = [] if out is None else out
    if tree[0] == "L":
        out.append(tree)
    else:
        leaves_of(tree[2], out)
        leaves_of(tree[3], out)
    return out


def number_leaves(tree, counter=None):
    counter = counter if counter is not None else itertools.count()
    if tree[0] == "L":
        return ("L", tree[1], tree[2], "v%d" % next(counter))
    return ("N", tree[1], number_leaves(tree[2], counter), number_leaves(tree[3], counter))


def expr_src(tree):
    if tree[0] == "L":
        return tree[3]
    return "(%s %s %s)" % (expr_src(tree[2]), OPS[tree[1]][0], expr_src(tree[3]))


def program_of(tree):
    lines = ["%s = %s" % (l[3], l[2]) for l in leaves_of(tree)]
    lines.append("r = " + expr_src(tree))
    return "\n".join(lines) + "\n"


def gen_tree(rng, depth, compare_rate=0.25):
    if depth == 0 or rng.random() < 0.25:
        cls = rng.choice(CORE)
        return ("L", cls, rng.choice(REPS[cls]), None)
    if rng.random() < compare_rate:
        op = "c:" + rng.choice(CMPOPS)[0]
    else:
        # arithmetic that keeps trees alive is favoured, the rest still appears
        name = rng.choice(["add", "sub", "mult", "div", "floordiv", "mod", "pow", "add", "mult", "mult"] +
                          [b[0] for b in BINOPS])
        op = "b:" + name
    return ("N", op, gen_tree(rng, depth - 1, compare_rate), gen_tree(rng, depth - 1, compare_rate))


def tree_json(tree):
    if tree[0] == "L":
        return ["L", tree[1], tree[2]]
    return ["N", tree[1], tree_json(tree[2]), tree_json(tree[3])]


def tree_from_json(j):
    if j[0] == "L":
        return ("L", j[1], j[2], None)
    return ("N", j[1], tree_from_json(j[2]), tree_from_json(j[3]))


# --------------------------------------------------------------------------
# plain CPython evaluation (the oracle's run-time truth), with a guard against astronomically large results

class Skip(Exception):
    pass


def _guard(op, a, b):
    ints = (int,)
    if op == "b:pow" and isinstance(a, ints) and isinstance(b, ints) and (abs(b) > 64 or abs(a) > 10 ** 40):
        raise Skip()
    if op == "b:pow" and isinstance(b, float) and abs(b) > 1e4:
        raise Skip()
    if op == "b:lshift" and isinstance(a, ints) and isinstance(b, ints) and b > 256:
        raise Skip()
    if op == "b:mult":
        for x, y in ((a, b), (b, a)):
            if isinstance(x, (str, list, tuple)) and isinstance(y, ints) and y > 1000:
                raise Skip()
    for x in (a, b):
        if isinstance(x, ints) and not isinstance(x, bool) and abs(x) > 10 ** 400:
            raise Skip()
        if isinstance(x, (str, list, tuple)) and len(x) > 5000:
            raise Skip()


def evaluate(tree):
    """-> ("ok", value) | ("TypeError", op, left class, right class) | ("other", exc class) | ("skip",)"""
    import ast
    if tree[0] == "L":
        return ("ok", ast.literal_eval(tree[2]))
    l = evaluate(tree[2])
    if l[0] != "ok":
        return l
    r = evaluate(tree[3])
    if r[0] != "ok":
        return r
    op = tree[1]
    try:
        _guard(op, l[1], r[1])
        return ("ok", OPS[op][1](l[1], r[1]))
    except Skip:
        return ("skip",)
    except TypeError:
        return ("TypeError", op, type(l[1]).__name__, type(r[1]).__name__)
    except Exception as e:  # noqa  ZeroDivisionError, ValueError, OverflowError
        return ("other", type(e).__name__)


_TYPE_LEVEL = {}


def type_level_error(op, lcls, rcls):
    """Does CPython raise TypeError *for those operand types*: for every pair of representative values of the two
    classes (None = a class the oracle has no representatives for)."""
    key = (op, lcls, rcls)
    if key not in _TYPE_LEVEL:
        import ast
        vals = dict((c, [ast.literal_eval(s) for s in REPS[c]]) for c in REPS)
        vals["bool"] = [True, False]
        vals["complex"] = [1 + 2j, -1j]
        if lcls not in vals or rcls not in vals:
            _TYPE_LEVEL[key] = None
        else:
            outs = []
            for a in vals[lcls]:
                for b in vals[rcls]:
                    try:
                        OPS[op][1](a, b)
                        outs.append(False)
                    except TypeError:
                        outs.append(True)
                    except Exception:  # noqa
                        outs.append(False)
            _TYPE_LEVEL[key] = all(outs)
    return _TYPE_LEVEL[key]


# --------------------------------------------------------------------------
# the real code

def run_tifa(tree):
    """-> dict(success, flagged, result type object, leaf types {var: type})"""
    code = program_of(tree)
    clear_report()
    contextualize_report(code)
    try:
        t = tifa_analysis()
    except Exception as e:  # noqa
        return {"success": False, "error": "%s: %s" % (type(e).__name__, e), "code": code}
    if not t.success:
        return {"success": False, "error": str(t.error)[:200], "code": code}
    issues = t.issues.get("incompatible_types", []) if hasattr(t.issues, "get") else []
    tl = t.top_level_variables
    res = {"success": True, "flagged": len(issues) > 0, "n_issues": len(issues), "code": code,
           "result": tl["r"].type if "r" in tl else None,
           "leaves": {l[3]: (tl[l[3]].type if l[3] in tl else None) for l in leaves_of(tree)}}
    return res


def conforms(value, inferred):
    """is_subtype(get_pedal_type_from_value(value), inferred) on the REAL functions -> True/False/'EXC ...'"""
    try:
        return is_subtype(get_pedal_type_from_value(value), inferred)
    except Exception as e:  # noqa
        return "EXC %s: %s" % (type(e).__name__, str(e)[:80])


def model_tree_tokens(tree, real):
    if tree[0] == "L":
        t = real["leaves"].get(tree[3])
        return ["L", tree[1]] + (enc_ty(t) if t is not None else ["other", enc_str("missing")])
    return ["N", tree[1]] + model_tree_tokens(tree[2], real) + model_tree_tokens(tree[3], real)


def value_facts(v):
    """real value typing: type tokens, is_subtype(t, t) twice, conformance to the normalised own type"""
    try:
        t = get_pedal_type_from_value(v)
        r1 = is_subtype(t, t)                       # the first query on a fresh type object
        r2 = is_subtype(t, t)                       # ... and a repeated one
        r3 = is_subtype(get_pedal_type_from_value(v), get_pedal_type_from_value(v))
        toks = enc_ty(get_pedal_type_from_value(v))
        norm = normalize_type(type(v)).as_type()
        conf = is_subtype(t, norm)
        return {"ty": ty_str(toks), "refl1": r1, "refl2": r2, "refl_fresh": r3, "conf": conf,
                "norm": ty_str(enc_ty(norm))}
    except Exception as e:  # noqa
        return {"error": "%s: %s" % (type(e).__name__, str(e)[:100])}

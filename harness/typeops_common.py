"""
C19 — shared pieces: encoding pedal types / values for the Lean driver, expression-tree programs, the real TIFA
runner and the run-time oracle (plain CPython evaluation, written from the property text).
"""
import itertools
import math
import operator

from common import enc_str, use_repo

use_repo()

from pedal import contextualize_report, clear_report                                   # noqa: E402
from pedal.tifa import tifa_analysis                                                    # noqa: E402
from pedal.types.new_types import is_subtype                                            # noqa: E402
from pedal.types.normalize import get_pedal_type_from_value, normalize_type             # noqa: E402

# (wire name, source symbol, python function)
BINOPS = [("add", "+", operator.add), ("sub", "-", operator.sub), ("mult", "*", operator.mul),
          ("div", "/", operator.truediv), ("floordiv", "//", operator.floordiv), ("mod", "%", operator.mod),
          ("pow", "**", operator.pow), ("lshift", "<<", operator.lshift), ("rshift", ">>", operator.rshift),
          ("bitor", "|", operator.or_), ("bitxor", "^", operator.xor), ("bitand", "&", operator.and_),
          ("matmult", "@", operator.matmul)]
CMPOPS = [("eq", "==", operator.eq), ("noteq", "!=", operator.ne), ("lt", "<", operator.lt), ("lte", "<=", operator.le),
          ("gt", ">", operator.gt), ("gte", ">=", operator.ge), ("is", "is", operator.is_),
          ("isnot", "is not", operator.is_not), ("in", "in", lambda a, b: operator.contains(b, a)),
          ("notin", "not in", lambda a, b: not operator.contains(b, a))]
OPS = {("b:" + n): (s, f) for n, s, f in BINOPS}
OPS.update({("c:" + n): (s, f) for n, s, f in CMPOPS})

CORE = ["int", "float", "str", "list", "tuple"]
# representatives: source text; several per class so value-dependent cells are seen
REPS = {
    "int": ["3", "-2", "0", "1"],
    "float": ["2.5", "-0.5", "0.0"],
    "str": ["'ab'", "''", "'%d'"],
    "list": ["[1, 2]", "[]", "[7]", "['a']"],
    "tuple": ["(1, 2)", "(5,)", "()", "('a', 1)"],
}
# the pedal type classes a leaf of each class may be given (the model's `keysOf`)
LEAF_HEADS = {"int": {"Lint", "int"}, "float": {"Lfloat", "float"}, "str": {"Lstr", "str"}, "list": {"list"},
              "tuple": {"tuple"}}

# --------------------------------------------------------------------------
# encoding pedal types

SIMPLE = {"AnyType": "any", "ImpossibleType": "imp", "NoneType": "none", "NumType": "num", "IntType": "int",
          "FloatType": "float", "BoolType": "bool", "StrType": "str", "LiteralInt": "Lint", "LiteralFloat": "Lfloat",
          "LiteralBool": "Lbool", "LiteralStr": "Lstr"}
CONTAINERS = {"ListType": "list", "SetType": "set", "FrozenSetType": "fset"}


def enc_ty(t, depth=0):
    """pedal Type object -> token list (anything unknown is `other <class name>`)."""
    name = type(t).__name__
    if depth > 40:
        return ["other", enc_str("too-deep")]
    if name in SIMPLE:
        return [SIMPLE[name]]
    if name in CONTAINERS:
        return [CONTAINERS[name], "1" if t.is_empty else "0"] + enc_ty(t.element_type, depth + 1)
    if name == "TupleType":
        if not isinstance(t.element_types, (tuple, list)):      # never consume an iterator while looking at it
            return ["other", enc_str("TupleType-with-%s" % type(t.element_types).__name__)]
        elems = list(t.element_types)
        out = ["tuple", str(len(elems))]
        for e in elems:
            out += enc_ty(e, depth + 1)
        return out
    if name == "DictType":
        items = list(t.element_types)
        out = ["dict", str(len(items))]
        for k, v in items:
            out += enc_ty(k, depth + 1) + enc_ty(v, depth + 1)
        return out
    return ["other", enc_str(name)]


def ty_str(tokens):
    return ",".join(tokens)


# --------------------------------------------------------------------------
# encoding values

def enc_val(v):
    if v is None:
        return ["n"]
    if isinstance(v, bool):
        return ["b1" if v else "b0"]
    if isinstance(v, int):
        return ["i%d" % v]
    if isinstance(v, float):
        return ["f"]
    if isinstance(v, str):
        return ["s"]
    if isinstance(v, (list, tuple, set)):
        items = list(v)                      # for a set: its iteration order, which is what pedal sees
        out = [{list: "list", tuple: "tuple", set: "set"}[type(v)], str(len(items))]
        for x in items:
            out += enc_val(x)
        return out
    if isinstance(v, dict):
        out = ["dict", str(len(v))]
        for k, x in v.items():
            out += enc_val(k) + enc_val(x)
        return out
    raise ValueError("value outside the modelled universe: %r" % (v,))


def gen_hashable(rng, d=0):
    r = rng.random()
    if r < 0.3:
        return rng.choice([0, 1, 2, -3, 10 ** 20])
    if r < 0.5:
        return rng.choice(["a", "", "key", "é"])
    if r < 0.62:
        return rng.choice([True, False])
    if r < 0.74:
        return rng.choice([0.5, 1.0, -2.25])
    if r < 0.8 or d >= 2:
        return None
    return tuple(gen_hashable(rng, d + 1) for _ in range(rng.randint(0, 3)))


def gen_value(rng, d=0):
    """nested value of ints/floats/bools/strs/None/lists/tuples/dicts/sets"""
    r = rng.random()
    if d >= 3 or r < 0.35:
        return gen_hashable(rng, 2)
    n = rng.choice([0, 1, 1, 2, 2, 3])
    homog = rng.random() < 0.5
    if r < 0.55:
        if homog:
            proto = gen_value(rng, d + 1)
            return [proto if rng.random() < 0.5 else gen_like(rng, proto, d + 1) for _ in range(n)]
        return [gen_value(rng, d + 1) for _ in range(n)]
    if r < 0.7:
        return tuple(gen_value(rng, d + 1) for _ in range(n))
    if r < 0.82:
        return {gen_hashable(rng, 1) for _ in range(n)}
    if homog:
        return {rng.choice(["a", "b", "c", "d"]): gen_value(rng, d + 1) for _ in range(n)}
    return {gen_hashable(rng, 1): gen_value(rng, d + 1) for _ in range(n)}


def gen_like(rng, proto, d):
    """another value of the same Python class (so widest_type has something to widen)"""
    if isinstance(proto, bool):
        return rng.choice([True, False])
    if isinstance(proto, int):
        return rng.randint(-5, 5)
    if isinstance(proto, float):
        return rng.choice([0.5, 1.5, -3.0])
    if isinstance(proto, str):
        return rng.choice(["x", "", "yz"])
    if proto is None:
        return None
    if isinstance(proto, list):
        return [gen_like(rng, p, d + 1) for p in proto] if rng.random() < 0.6 else []
    if isinstance(proto, tuple):
        return tuple(gen_like(rng, p, d + 1) for p in proto)
    return gen_value(rng, d)


# --------------------------------------------------------------------------
# expression trees:  ("L", cls, source, var)  |  ("N", op, left, right)

def leaves_of(tree, out=None):
    out = [] if out is None else out
    if tree[0] == "L":
        out.append(tree)
    else:
        leaves_of(tree[2], out)
        leaves_of(tree[3], out)
    return out


def number_leaves(tree, counter=None):
    counter = counter if counter is not None else itertools.count()
    if tree[0] == "L":
        return ("L", tree[1], tree[2], "v%d" % next(counter))
    return ("N", tree[1], number_leaves(tree[2], counter), number_leaves(tree[3], counter))


def expr_src(tree):
    if tree[0] == "L":
        return tree[3]
    return "(%s %s %s)" % (expr_src(tree[2]), OPS[tree[1]][0], expr_src(tree[3]))


def program_of(tree):
    lines = ["%s = %s" % (l[3], l[2]) for l in leaves_of(tree)]
    lines.append("r = " + expr_src(tree))
    return "\n".join(lines) + "\n"


def gen_tree(rng, depth, compare_rate=0.25):
    if depth == 0 or rng.random() < 0.25:
        cls = rng.choice(CORE)
        return ("L", cls, rng.choice(REPS[cls]), None)
    if rng.random() < compare_rate:
        op = "c:" + rng.choice(CMPOPS)[0]
    else:
        # arithmetic that keeps trees alive is favoured, the rest still appears
        name = rng.choice(["add", "sub", "mult", "div", "floordiv", "mod", "pow", "add", "mult", "mult"] +
                          [b[0] for b in BINOPS])
        op = "b:" + name
    return ("N", op, gen_tree(rng, depth - 1, compare_rate), gen_tree(rng, depth - 1, compare_rate))


def tree_json(tree):
    if tree[0] == "L":
        return ["L", tree[1], tree[2]]
    return ["N", tree[1], tree_json(tree[2]), tree_json(tree[3])]


def tree_from_json(j):
    if j[0] == "L":
        return ("L", j[1], j[2], None)
    return ("N", j[1], tree_from_json(j[2]), tree_from_json(j[3]))


# --------------------------------------------------------------------------
# plain CPython evaluation (the oracle's run-time truth), with a guard against astronomically large results

class Skip(Exception):
    pass


def _guard(op, a, b):
    ints = (int,)
    if op == "b:pow" and isinstance(a, ints) and isinstance(b, ints) and (abs(b) > 64 or abs(a) > 10 ** 40):
        raise Skip()
    if op == "b:pow" and isinstance(b, float) and abs(b) > 1e4:
        raise Skip()
    if op == "b:lshift" and isinstance(a, ints) and isinstance(b, ints) and b > 256:
        raise Skip()
    if op == "b:mult":
        for x, y in ((a, b), (b, a)):
            if isinstance(x, (str, list, tuple)) and isinstance(y, ints) and y > 1000:
                raise Skip()
    for x in (a, b):
        if isinstance(x, ints) and not isinstance(x, bool) and abs(x) > 10 ** 400:
            raise Skip()
        if isinstance(x, (str, list, tuple)) and len(x) > 5000:
            raise Skip()


def evaluate(tree):
    """-> ("ok", value) | ("TypeError", op, left class, right class) | ("other", exc class) | ("skip",)"""
    import ast
    if tree[0] == "L":
        return ("ok", ast.literal_eval(tree[2]))
    l = evaluate(tree[2])
    if l[0] != "ok":
        return l
    r = evaluate(tree[3])
    if r[0] != "ok":
        return r
    op = tree[1]
    try:
        _guard(op, l[1], r[1])
        return ("ok", OPS[op][1](l[1], r[1]))
    except Skip:
        return ("skip",)
    except TypeError:
        return ("TypeError", op, type(l[1]).__name__, type(r[1]).__name__)
    except Exception as e:  # noqa  ZeroDivisionError, ValueError, OverflowError
        return ("other", type(e).__name__)


_TYPE_LEVEL = {}


def type_level_error(op, lcls, rcls):
    """Does CPython raise TypeError *for those operand types*: for every pair of representative values of the two
    classes (None = a class the oracle has no representatives for)."""
    key = (op, lcls, rcls)
    if key not in _TYPE_LEVEL:
        import ast
        vals = dict((c, [ast.literal_eval(s) for s in REPS[c]]) for c in REPS)
        vals["bool"] = [True, False]
        vals["complex"] = [1 + 2j, -1j]
        if lcls not in vals or rcls not in vals:
            _TYPE_LEVEL[key] = None
        else:
            outs = []
            for a in vals[lcls]:
                for b in vals[rcls]:
                    try:
                        OPS[op][1](a, b)
                        outs.append(False)
                    except TypeError:
                        outs.append(True)
                    except Exception:  # noqa
                        outs.append(False)
            _TYPE_LEVEL[key] = all(outs)
    return _TYPE_LEVEL[key]


# --------------------------------------------------------------------------
# the real code

def run_tifa(tree):
    """-> dict(success, flagged, result type object, leaf types {var: type})"""
    code = program_of(tree)
    clear_report()
    contextualize_report(code)
    try:
        t = tifa_analysis()
    except Exception as e:  # noqa
        return {"success": False, "error": "%s: %s" % (type(e).__name__, e), "code": code}
    if not t.success:
        return {"success": False, "error": str(t.error)[:200], "code": code}
    issues = t.issues.get("incompatible_types", []) if hasattr(t.issues, "get") else []
    tl = t.top_level_variables
    res = {"success": True, "flagged": len(issues) > 0, "n_issues": len(issues), "code": code,
           "result": tl["r"].type if "r" in tl else None,
           "leaves": {l[3]: (tl[l[3]].type if l[3] in tl else None) for l in leaves_of(tree)}}
    return res


def conforms(value, inferred):
    """is_subtype(get_pedal_type_from_value(value), inferred) on the REAL functions -> True/False/'EXC ...'"""
    try:
        return is_subtype(get_pedal_type_from_value(value), inferred)
    except Exception as e:  # noqa
        return "EXC %s: %s" % (type(e).__name__, str(e)[:80])


def model_tree_tokens(tree, real):
    if tree[0] == "L":
        t = real["leaves"].get(tree[3])
        return ["L", tree[1]] + (enc_ty(t) if t is not None else ["other", enc_str("missing")])
    return ["N", tree[1]] + model_tree_tokens(tree[2], real) + model_tree_tokens(tree[3], real)


def value_facts(v):
    """real value typing: type tokens, is_subtype(t, t) twice, conformance to the normalised own type"""
    try:
        t = get_pedal_type_from_value(v)
        r1 = is_subtype(t, t)                       # the first query on a fresh type object
        r2 = is_subtype(t, t)                       # ... and a repeated one
        r3 = is_subtype(get_pedal_type_from_value(v), get_pedal_type_from_value(v))
        toks = enc_ty(get_pedal_type_from_value(v))
        norm = normalize_type(type(v)).as_type()
        conf = is_subtype(t, norm)
        return {"ty": ty_str(toks), "refl1": r1, "refl2": r2, "refl_fresh": r3, "conf": conf,
                "norm": ty_str(enc_ty(norm))}
    except Exception as e:  # noqa
        return {"error": "%s: %s" % (type(e).__name__, str(e)[:100])}


# --------------------------------------------------------------------------
# "how the operand got its value": binding forms (search-only stream; CPython's own execution is the oracle)
#
# A case is (form, stale, stmt, op, ca, sa, cb, sb): two variables `a` and `b` receive the values `sa` / `sb` (source
# text of representatives of the core classes ca / cb) through the binding form, then the operator / comparison under
# test is applied to them.  `stale` puts `a = <value of another class>; b = <...>` in front, so a binding form that
# leaves the PREVIOUS type on a re-bound name is seen.  `stmt` is how the operator is applied:
#   assign     r = a <op> b            lit-right  r = a <op> <sb>          lit-left   r = <sa> <op> b
#   augassign  r = a; r <op>= b        (binary operators only, statement-capable forms only)

def _cm_lines():
    return ["class CM:", "    def __init__(self, v):", "        self.v = v", "    def __enter__(self):",
            "        return self.v", "    def __exit__(self, *exc):", "        return False"]


def _ind(lines, n=1):
    return [("    " * n) + l for l in lines]


_ZERO = {"int": "0", "float": "0.0", "str": "''", "list": "[]", "tuple": "()"}

# statement forms: (sa, sb, ca, cb, body lines) -> program lines
STMT_FORMS = {
    "plain": lambda sa, sb, ca, cb, body: ["a = %s" % sa, "b = %s" % sb] + body,
    "copy": lambda sa, sb, ca, cb, body: ["c = %s" % sa, "d = %s" % sb, "a = c", "b = d"] + body,
    "chained": lambda sa, sb, ca, cb, body: ["c = a = %s" % sa, "b = d = %s" % sb] + body,
    "chained-unpack": lambda sa, sb, ca, cb, body: ["t = a, b = %s, %s" % (sa, sb)] + body,
    "unpack": lambda sa, sb, ca, cb, body: ["a, b = %s, %s" % (sa, sb)] + body,
    "unpack-paren": lambda sa, sb, ca, cb, body: ["(a, b) = (%s, %s)" % (sa, sb)] + body,
    "unpack-list-target": lambda sa, sb, ca, cb, body: ["[a, b] = (%s, %s)" % (sa, sb)] + body,
    "unpack-list-value": lambda sa, sb, ca, cb, body: ["a, b = [%s, %s]" % (sa, sb)] + body,
    "unpack-var": lambda sa, sb, ca, cb, body: ["t = (%s, %s)" % (sa, sb), "a, b = t"] + body,
    "swap": lambda sa, sb, ca, cb, body: ["a = %s" % sb, "b = %s" % sa, "a, b = b, a"] + body,
    "swap-list": lambda sa, sb, ca, cb, body: ["a = %s" % sb, "b = %s" % sa, "[a, b] = b, a"] + body,
    "rotate3": lambda sa, sb, ca, cb, body: ["b = %s" % sa, "c = %s" % sb, "a = None", "a, b, c = b, c, a"] + body,
    "rebind-unpack": lambda sa, sb, ca, cb, body: ["a = %s" % sb, "b = %s" % sa, "a, b = %s, %s" % (sa, sb)] + body,
    "nested-right": lambda sa, sb, ca, cb, body: ["a, (b, c) = %s, (%s, 0)" % (sa, sb)] + body,
    "nested-left": lambda sa, sb, ca, cb, body: ["(c, a), b = (0, %s), %s" % (sa, sb)] + body,
    "nested-both": lambda sa, sb, ca, cb, body: ["(a, c), [d, b] = (%s, 0), ('', %s)" % (sa, sb)] + body,
    "nested-deep": lambda sa, sb, ca, cb, body: ["((a,), (c, (b,))) = ((%s,), (0, (%s,)))" % (sa, sb)] + body,
    "star-tail": lambda sa, sb, ca, cb, body: ["a, b, *c = %s, %s, 0, ''" % (sa, sb)] + body,
    "star-mid": lambda sa, sb, ca, cb, body: ["a, *c, b = %s, 0, '', %s" % (sa, sb)] + body,
    "star-head": lambda sa, sb, ca, cb, body: ["*c, a, b = 0, '', %s, %s" % (sa, sb)] + body,
    "walrus-stmt": lambda sa, sb, ca, cb, body: ["(a := %s)" % sa, "(b := %s)" % sb] + body,
    "walrus-if": lambda sa, sb, ca, cb, body: ["if (a := %s) is not None:" % sa, "    b = %s" % sb, "else:",
                                                "    b = %s" % sb] + body,
    "return": lambda sa, sb, ca, cb, body: ["def fa():", "    return %s" % sa, "def fb():", "    x = %s" % sb,
                                             "    return x", "a = fa()", "b = fb()"] + body,
    "return-tuple": lambda sa, sb, ca, cb, body: ["def f():", "    return %s, %s" % (sa, sb), "a, b = f()"] + body,
    "subscript-tuple": lambda sa, sb, ca, cb, body: ["t = (%s, %s)" % (sa, sb), "a = t[0]", "b = t[1]"] + body,
    "subscript-list": lambda sa, sb, ca, cb, body: ["ta = [%s]" % sa, "tb = [%s]" % sb, "a = ta[0]", "b = tb[0]"] + body,
    "subscript-dict": lambda sa, sb, ca, cb, body: ["d = {'x': %s}" % sa, "e = {'y': %s}" % sb, "a = d['x']",
                                                     "b = e['y']"] + body,
    "ifelse": lambda sa, sb, ca, cb, body: ["if len('x') == 1:", "    a = %s" % sa, "else:", "    a = %s" % sa,
                                             "b = %s if a is not None else %s" % (sb, sb)] + body,
    "aug-bind": lambda sa, sb, ca, cb, body: ["a = %s" % _ZERO[ca], "b = %s" % _ZERO[cb], "a += %s" % sa,
                                               "b += %s" % sb] + body,
    "with-as": lambda sa, sb, ca, cb, body: _cm_lines() + ["with CM(%s) as a, CM(%s) as b:" % (sa, sb), "    pass"] + body,
    "with-body": lambda sa, sb, ca, cb, body: _cm_lines() + ["with CM(%s) as a, CM(%s) as b:" % (sa, sb)] + _ind(body),
    "for-list": lambda sa, sb, ca, cb, body: ["for a in [%s]:" % sa, "    for b in [%s]:" % sb] + _ind(body, 2),
    "for-tuple": lambda sa, sb, ca, cb, body: ["for a in (%s,):" % sa, "    for b in (%s,):" % sb] + _ind(body, 2),
    "for-after": lambda sa, sb, ca, cb, body: ["for a in [%s]:" % sa, "    pass", "for b in [%s]:" % sb, "    pass"] + body,
    "for-pairs": lambda sa, sb, ca, cb, body: ["for a, b in [(%s, %s)]:" % (sa, sb)] + _ind(body),
    "for-pairs-list-target": lambda sa, sb, ca, cb, body: ["for [a, b] in [(%s, %s)]:" % (sa, sb)] + _ind(body),
    "for-nested-target": lambda sa, sb, ca, cb, body: ["for i, (a, b) in enumerate([(%s, %s)]):" % (sa, sb)] + _ind(body),
    "for-zip": lambda sa, sb, ca, cb, body: ["for a, b in zip([%s], [%s]):" % (sa, sb)] + _ind(body),
    "for-enumerate": lambda sa, sb, ca, cb, body: ["for i, a in enumerate([%s]):" % sa,
                                                    "    for j, b in enumerate([%s]):" % sb] + _ind(body, 2),
    "for-items": lambda sa, sb, ca, cb, body: ["for b, a in {%s: %s}.items():" % (sb, sa)] + _ind(body),
    "for-items-rev": lambda sa, sb, ca, cb, body: ["for a, b in {%s: %s}.items():" % (sa, sb)] + _ind(body),
    "param": lambda sa, sb, ca, cb, body: ["def f(a, b):"] + _ind(body) + ["    return r", "r = f(%s, %s)" % (sa, sb)],
    "param-vars": lambda sa, sb, ca, cb, body: ["x = %s" % sa, "y = %s" % sb, "def f(a, b):"] + _ind(body) +
                                               ["    return r", "r = f(x, y)"],
    "param-unpack-inside": lambda sa, sb, ca, cb, body: ["def f(t):", "    a, b = t"] + _ind(body) +
                                                        ["    return r", "r = f((%s, %s))" % (sa, sb)],
    "param-kw": lambda sa, sb, ca, cb, body: ["def f(a, b):"] + _ind(body) + ["    return r", "r = f(b=%s, a=%s)" % (sb, sa)],
    "param-default": lambda sa, sb, ca, cb, body: ["def f(a, b=%s):" % sb] + _ind(body) + ["    return r", "r = f(%s)" % sa],
}
# expression forms: (sa, sb, ca, cb, expression text) -> program lines
EXPR_FORMS = {
    "lambda": lambda sa, sb, ca, cb, e: ["f = lambda a, b: " + e, "r = f(%s, %s)" % (sa, sb)],
    "listcomp": lambda sa, sb, ca, cb, e: ["rs = [%s for a in [%s] for b in [%s]]" % (e, sa, sb), "r = rs[0]"],
    "listcomp-pairs": lambda sa, sb, ca, cb, e: ["rs = [%s for a, b in [(%s, %s)]]" % (e, sa, sb), "r = rs[0]"],
    "listcomp-zip": lambda sa, sb, ca, cb, e: ["rs = [%s for a, b in zip([%s], [%s])]" % (e, sa, sb), "r = rs[0]"],
    "walrus-inline": lambda sa, sb, ca, cb, e: ["r = " + e],      # e is built with (a := sa) / (b := sb) as operands
}
BINDING_FORMS = list(STMT_FORMS) + list(EXPR_FORMS)
STMT_KINDS = ["assign", "lit-right", "lit-left", "augassign"]

# Forms on which the UNCHANGED pedal (f011cb2) breaks C19 and a repair is proposed (proposed_fixes/C19, see
# notes/C19.md); they are generated only with VERIF_C19_GATED=1 until the two commits are merged - then empty this dict.
GATED_FORMS = {}    # emptied: /repo commits 4b5ba68 (names after a star) and 48a5530 (walrus) repaired the five formerly gated forms
_FORMERLY_GATED = {
    "star-mid": "names after a starred target get the types of the elements right after the leading names",
    "star-head": "names after a starred target get the types of the elements right after the leading names",
    "walrus-stmt": "no visit_NamedExpr: a name bound by := is never stored (AnyType, nothing flagged)",
    "walrus-if": "no visit_NamedExpr",
    "walrus-inline": "no visit_NamedExpr",
}
# Open findings, one record per FAMILY: any failure of these forms (for unpack-list-value: with operands of two
# different classes) has the signature {"binding": <form>}, whichever kind it is.
OPEN_FAMILIES = {
    "param-kw": "keyword arguments are not bound to the parameters they name (AnyType)",
    "param-default": "a parameter left to its default value is typed AnyType",
    "unpack-list-value": "a list literal is typed by its first element, so unpacking [3, 'ab'] types both names int",
}


def open_family(form, ca, cb):
    return form in OPEN_FAMILIES and (form != "unpack-list-value" or ca != cb)


def binding_expr(stmt, op, sa, sb, an="a", bn="b"):
    sym = OPS[op][0]
    left = sa if stmt == "lit-left" else an
    right = sb if stmt == "lit-right" else bn
    return "%s %s %s" % (left, sym, right)


def binding_program(form, stale, stmt, op, ca, sa, cb, sb, probe=False):
    """source of the program, or None when the combination does not exist (augmented comparison, augmented
    assignment inside an expression form, a gated precondition)"""
    if stmt == "augassign":
        if not op.startswith("b:") or form in EXPR_FORMS:
            return None
        body = ["r = a", "r %s= b" % OPS[op][0]]
        expr = None
    else:
        if form == "walrus-inline":
            expr = binding_expr(stmt, op, sa, sb, "(a := %s)" % sa, "(b := %s)" % sb)
        else:
            expr = binding_expr(stmt, op, sa, sb)
        body = ["r = " + expr]
    if probe:                                         # the same program, but r = the two operands themselves
        expr, body = "(a, b)", ["r = (a, b)"]
        if form == "walrus-inline":
            expr = "((a := %s), (b := %s))" % (sa, sb)
    lines = []
    if stale == "same":
        # an earlier binding of the SAME class but another shape (round 5, seed C19_I: a re-bound variable kept its
        # old type whenever the new one counted as a subtype of it, e.g. a tuple of another length)
        def other_rep(cls, src):
            reps = [r for r in REPS[cls] if r != src]
            return sorted(reps, key=len, reverse=True)[0]
        lines += ["a = %s" % other_rep(ca, sa), "b = %s" % other_rep(cb, sb)]
    elif stale:
        other = [c for c in CORE if c != ca and c != cb]
        sc_a, sc_b = (cb, ca) if ca != cb else (other[0], other[1])
        lines += ["a = %s" % REPS[sc_a][0], "b = %s" % REPS[sc_b][0]]
    if form in STMT_FORMS:
        lines += STMT_FORMS[form](sa, sb, ca, cb, body)
    else:
        lines += EXPR_FORMS[form](sa, sb, ca, cb, expr)
    return "\n".join(lines) + "\n"


def gated_on():
    import os
    return os.environ.get("VERIF_C19_GATED", "") not in ("", "0")


def active_binding_forms():
    return [f for f in BINDING_FORMS if gated_on() or f not in GATED_FORMS]


def run_cpython(code):
    """plain CPython: -> ("ok", value of r) | ("TypeError", message) | ("other", exception class)"""
    import warnings
    env = {"__name__": "student"}
    try:
        with warnings.catch_warnings():
            warnings.simplefilter("ignore")           # `3 is b`: SyntaxWarning of the literal spellings
            compiled = compile(code, "student.py", "exec")
        exec(compiled, env)
    except TypeError as e:
        return ("TypeError", str(e))
    except Exception as e:  # noqa
        return ("other", type(e).__name__)
    if "r" not in env:
        return ("other", "r-not-bound")
    return ("ok", env["r"])


_PROBES = {}


def binding_delivers(form, stale, ca, sa, cb, sb):
    """generator self-check: does the binding form really leave a == sa and b == sb (same classes) when CPython runs it?"""
    import ast
    key = (form, stale, sa, sb)
    if key not in _PROBES:
        code = binding_program(form, stale, "assign", "b:add", ca, sa, cb, sb, probe=True)
        got = run_cpython(code) if code is not None else ("other", "no-program")
        want = (ast.literal_eval(sa), ast.literal_eval(sb))
        _PROBES[key] = (got[0] == "ok" and isinstance(got[1], tuple) and len(got[1]) == 2 and got[1] == want and
                        type(got[1][0]) is type(want[0]) and type(got[1][1]) is type(want[1]))
    return _PROBES[key]


def run_tifa_code(code):
    """-> dict(success, flagged, result type of r)"""
    clear_report()
    contextualize_report(code)
    try:
        t = tifa_analysis()
    except Exception as e:  # noqa
        return {"success": False, "error": "%s: %s" % (type(e).__name__, e), "code": code}
    if not t.success:
        return {"success": False, "error": str(t.error)[:200], "code": code}
    issues = t.issues.get("incompatible_types", []) if hasattr(t.issues, "get") else []
    tl = t.top_level_variables
    return {"success": True, "flagged": len(issues) > 0, "n_issues": len(issues), "code": code,
            "result": tl["r"].type if "r" in tl else None}

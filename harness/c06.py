"""C06 — sandboxed execution is observationally equivalent to plain CPython execution (pedal/sandbox/sandbox.py:
run(), call(), the input tracker, the namespace an execution sets up)."""
import json
import os
import sys
import time

if os.environ.get("PYTHONHASHSEED") != "0":
    # set/dict-of-str iteration order must be the same in this process and in the reference interpreters
    os.environ["PYTHONHASHSEED"] = "0"
    os.execv(sys.executable, [sys.executable, "-X", "utf8", "-W", "ignore"] + sys.argv)

from common import VERIF, CorrResult, Failure, dec_str, enc_opt, enc_str, parse_kv, run_check, use_repo

use_repo()
import sandboxequiv_common as sc            # noqa: E402
import sandboxequiv_gen as sg               # noqa: E402
import sandboxequiv_limits as sl            # noqa: E402
import sandboxequiv_compile as scomp        # noqa: E402
import sandboxequiv_history as shist        # noqa: E402
import sandboxequiv_api as sapi             # noqa: E402
import sandboxequiv_ref as ref              # noqa: E402
import translate_sandboxequiv as tr         # noqa: E402
from translate_sandboxequiv import translate  # noqa: E402

THEOREMS = [
    "Pedal.SandboxEquiv.gen_input_cfg",
    "Pedal.SandboxEquiv.gen_call_cfg",
    "Pedal.SandboxEquiv.gen_mock_cfg",
    "Pedal.SandboxEquiv.sandboxRun_eq_plainRun",
    "Pedal.SandboxEquiv.c06_io_equiv",
    "Pedal.SandboxEquiv.c06_io_exhausted_counterexample",
    "Pedal.SandboxEquiv.c06_student_globals_preserved",
    "Pedal.SandboxEquiv.c06_call_binding",
    "Pedal.SandboxEquiv.c06_call_applies",
    "Pedal.SandboxEquiv.c06_call_namespace",
    "Pedal.SandboxEquiv.c06_call_inv",
    "Pedal.SandboxEquiv.c06_calls_frame",
    "Pedal.SandboxEquiv.c06_override_shadow_counterexample",
]
NOTES = [
    "PARTIAL. CPython's execution of the student's source is a parameter of the model (an interaction tree for "
    "run(), `Env.apply`/`Env.evalLit` for call()); that exec(compile(source)) in the sandbox's namespace with a copied "
    "builtins table behaves like running the file as __main__ is NOT proved: it is the differential search "
    "(sandbox vs a fresh unmodified interpreter) over generated CS1 programs",
    "proved for all trees/queues/argument lists/namespaces: the input tracker vs CPython's input() when the queue is "
    "sufficient; call() applies the named function to exactly the instructor's values (given CPython evaluates a "
    "faithful literal to its value); the namespace after call() / any sequence of calls; what an execution's set-up rewrites",
    "the configuration the theorems are instantiated with (which branch does what, constants) is measured on every run "
    "by probing the individual mechanism functions of the tree under test (translate_sandboxequiv.py)",
    "not modelled: globals a called function rebinds itself, instructor-supplied input functions (callable inputs), "
    "threaded execution, tracing, imports of student modules, what the feedback says (C04); the merge of function_kwargs "
    "into the keyword arguments and the cut of the printed text into Sandbox.output lines are not in the Lean model: they "
    "are compared differentially (call correspondence fed through function_kwargs; line view against plain CPython's text "
    "cut at its newlines)",
    "where CPython gives up on runaway recursion depends on the stack depth: only the kind of exception is compared",
    "the direct counterpart of call(f, *args, target=t) is the statement `t = f(*args)` (call() is documented to "
    "assign its result to the target, `_` by default)",
]


# --------------------------------------------------------------------------
# cases

def corpus_cases():
    d = os.path.join(VERIF, "corpus", "C06")
    out = []
    if os.path.isdir(d):
        for name in sorted(os.listdir(d)):
            if name.endswith(".json"):
                with open(os.path.join(d, name)) as fh:
                    data = json.load(fh)
                out.extend(data if isinstance(data, list) else [data])
    return out


def generated_cases(rng, n):
    # the depths the generator's call chains use are the sizes around the limit constants of the tree under test
    sg.G.DEPTHS = sorted(sl.boundary_sizes(sl.limit_constants(), 80)) or sg.G.DEPTHS
    # student parameters named like the parameters of the grader's own call() (read from the tree under test)
    sg.G.WRAPPER_NAMES = sapi.reserved_names() + sapi.other_wrapper_names()
    cases = [sg.gen_case(rng, rng.choice(["small", "small", "large"]), exhausted_ok=rng.random() < 0.08)
             for _ in range(n)]
    # the same cases through the other public spellings (function_kwargs, get_function, explicit report, the ways of
    # queueing the inputs and starting the run)
    for k, v in sapi.respell(cases, rng).items():
        RESPELLED[k] = RESPELLED.get(k, 0) + v
    return cases


RESPELLED = {}


# --------------------------------------------------------------------------
# correspondence 1: the input tracker model

def tree_tokens(ev_p, ev_s):
    """Interaction tree (wire tokens) from the traced run with EOF after the queue (`ev_p`) and the traced run
    with the sandbox's replies after the queue (`ev_s`); leaves: 0 = end of the plain path, 1 = end of the
    sandbox's path where it leaves the plain one."""
    def reply_tok(rep):
        if rep is None:
            return "E"
        if isinstance(rep, list):
            return "T"
        return "V" + enc_str(rep)

    def linear(ev, leaf):
        toks = []
        for e in ev:
            if e[0] == "out":
                toks += ["O", enc_str(e[1])]
            else:
                toks += ["I", enc_str(e[1] or ""), "1", reply_tok(e[2])]
        return toks + ["D", str(leaf)]
    toks = []
    i = 0
    while i < len(ev_p) and i < len(ev_s) and ev_p[i] == ev_s[i]:
        toks += linear([ev_p[i]], 0)[:-2]
        i += 1
    if i == len(ev_p) and i == len(ev_s):
        return toks + ["D", "0"]
    a = ev_p[i] if i < len(ev_p) else None
    b = ev_s[i] if i < len(ev_s) else None
    if not (a and b and a[0] == b[0] == "inp" and a[1] == b[1]):
        raise ValueError("traces diverge at something that is not an input(): %r / %r" % (a, b))
    toks += ["I", enc_str(a[1] or ""), "2", reply_tok(a[2])] + linear(ev_p[i + 1:], 0) + \
            [reply_tok(b[2])] + linear(ev_s[i + 1:], 1)
    return toks


def dec_list(kv, key, parts, pos):
    """`key=<n> x… ` : the count is in kv, the items follow as bare tokens"""
    n = int(kv[key])
    return [dec_str(t) for t in parts[pos + 1:pos + 1 + n]]


def parse_io_answer(ans):
    parts = ans.strip().split(" ")
    if parts[0] != "ok":
        return None
    out = {}
    i = 1
    while i < len(parts):
        k, v = parts[i].split("=", 1)
        if k.endswith("consumed") or k.endswith("rest"):
            n = int(v)
            out[k] = [dec_str(t) for t in parts[i + 1:i + 1 + n]]
            i += 1 + n
        else:
            out[k] = v
            i += 1
    return out


def correspond_io(rng, tier, driver, res, cases):
    limit_cases = []
    for c in cases[: (40 if tier == "quick" else 400)]:
        if c["code"].count("input(") and rng.random() < 0.5:
            c2 = dict(c)
            c2["limit"] = rng.choice([1, 2, 3])
            c2["calls"] = []
            limit_cases.append(c2)
    groups = [(cases, None)] + [([c for c in limit_cases if c["limit"] == m], m) for m in (1, 2, 3)]
    for group, limit in groups:
        if not group:
            continue
        plain = sc.run_reference(group)
        # the sandbox's own path: after the queue, its default reply for ever (read from the tree under test)
        sbpath = sc.run_reference(group, pad=(tr.LAST.get("input") or {}).get("defaultReply", "0"), limit=limit)
        lines, meta = [], []
        for c, rp, rs in zip(group, plain, sbpath):
            if "timeout" in rp or "timeout" in rs or "harness_error" in rp or "harness_error" in rs:
                res.count("io:reference-gave-up")
                continue
            try:
                toks = tree_tokens(rp["events"], rs["events"])
            except ValueError as e:
                res.disagreements.append({"case": c, "real": "tree", "model": str(e)})
                continue
            q = c.get("inputs", [])
            lines.append(" ".join(["io", "-" if limit is None else str(limit), "0", str(len(q))] +
                                  [enc_str(x) for x in q] + toks))
            meta.append((c, rp, rs))
        answers = driver.ask(lines)
        for (c, rp, rs), line, ans in zip(meta, lines, answers):
            a = parse_io_answer(ans)
            res.evaluations += 1
            if a is None:
                res.disagreements.append({"case": c, "real": "-", "model": ans, "request": line[:300]})
                continue
            sb = sc.run_sandbox_guarded(c, 30)
            if "hung" in sb:
                res.disagreements.append({"case": c, "real": "still running after %s s" % sb["hung"], "model": ans[:200]})
                continue
            if "escaped" in sb:
                res.disagreements.append({"case": c, "real": "escaped " + sb["escaped"], "model": ans[:200]})
                continue
            n_in = sum(1 for e in rs["events"] if e[0] == "inp")
            if n_in:
                res.nontrivial.add(c["code"])
            res.count("io:inputs=%s" % min(n_in, 3))
            res.count("io:sufficient=%s" % a["suff"])
            if limit is not None:
                res.count("io:with-input-limit")
            want_consumed = [e[2] if not isinstance(e[2], list) else e[2][1] for e in rs["events"] if e[0] == "inp"]
            problems = []
            if dec_str(a["s_out"]) != sb["out"]:
                problems.append("output: model %r real %r" % (dec_str(a["s_out"])[-60:], sb["out"][-60:]))
            if a["s_consumed"] != sb["consumed"]:
                problems.append("replies recorded: model %r real %r" % (a["s_consumed"], sb["consumed"]))
            if sb["queue_left"] is not None and a["s_rest"] != sb["queue_left"]:
                problems.append("queue left: model %r real %r" % (a["s_rest"], sb["queue_left"]))
            if a["s_consumed"] != want_consumed:
                problems.append("model consumed %r, trace %r" % (a["s_consumed"], want_consumed))
            if dec_str(a["p_out"]) != sc.plain_text(rp["events"]):
                problems.append("plain output: model %r CPython %r" % (dec_str(a["p_out"])[-60:],
                                                                         sc.plain_text(rp["events"])[-60:]))
            if a["suff"] == "1" and (a["s_fin"] != a["p_fin"] or a["s_fin"] != "0"):
                problems.append("sufficient queue but different leaves %s/%s" % (a["s_fin"], a["p_fin"]))
            if a["suff"] == "0" and not sc.exhausted(rp["events"]) and limit is None:
                problems.append("model says the queue is insufficient, CPython never hit EOF")
            if problems:
                res.disagreements.append({"case": c, "which": "io", "real": problems[0], "model": ans[:300],
                                          "all": problems})


# --------------------------------------------------------------------------
# correspondence 2: call() marshalling, temporaries, namespace

CALL_PROGRAM = """seen = []
def f(*a, **k):
    seen.append((a, k))
    return ['result']
def bad(*a, **k):
    seen.append((a, k))
    raise ValueError('no')
class A:
    def __init__(self, v):
        self.v = v
    def __repr__(self):
        return 'A(%r)' % (self.v,)
    def __eq__(self, other):
        return isinstance(other, A) and self.v == other.v
class Plain:
    pass
class Stack(list):
    pass
class Celsius(float):
    pass
class Name(str):
    pass
class Score(int):
    pass
class Fake:
    def __init__(self, text):
        self.text = text
    def __repr__(self):
        return self.text
"""
CALL_ARGS = ["3", "'abc'", "None", "[1, 2]", "{'k': (1, 2)}", "float('inf')", "float('nan')", "-0.0", "range(3)",
             "'x' * 198", "'x' * 199", "'x' * 300", "[7] * 100", "set()", "{1}", "frozenset({1})", "b'q'", "(1+2j)",
             "True", "1e22", "OBJ", "PLAIN", "VAR", "[float('inf')]", "10 ** 250", "''", "\"it's\"", "3", "'abc'",
             # values of other types with the SAME repr text as an argument above (and as each other), and equal values
             # of different types: the model decides per value, a memory keyed on less than the value shows as a
             # disagreement about the generated call text
             "STUDENT:Stack([1, 2])", "STUDENT:Celsius(-0.0)", "STUDENT:Name('abc')", "STUDENT:Score(3)", "STUDENT:Fake('3')",
             "STUDENT:Fake('[1, 2]')", "STUDENT:Fake('None')", "STUDENT:Fake(\"'abc'\")", "STUDENT:Score(True)", "1", "1.0",
             "0.0", "0", "False", "[1, 2]", "(1, 2)", "[True, 2]", "[1.0, 2.0]", "STUDENT:Stack([1.0, 2.0])"]


# a subclass instance INSIDE a container (flattened by the tree before 60d78f2): generated under the same condition as the
# nested history groups
NESTED_CALL_ARGS = ["STUDENT:[Score(3)]", "[3]", "STUDENT:{'k': Stack([1, 2])}", "{'k': [1, 2]}", "STUDENT:(Celsius(-0.0),)",
                    "(-0.0,)", "STUDENT:[Name('abc'), 'd']", "['abc', 'd']"]


def make_call_case(rng):
    if shist.nested_finding_registered() and NESTED_CALL_ARGS[0] not in CALL_ARGS:
        CALL_ARGS.extend(NESTED_CALL_ARGS)
    extras = {}
    if rng.random() < 0.35:
        extras["%sarg_%d" % (temp_prefix(), rng.randint(0, 2))] = "'shadowed global'"
    if rng.random() < 0.2:
        extras["%skwarg_key" % temp_prefix()] = "[0]"
    if rng.random() < 0.2:
        extras["_"] = "41"
    if rng.random() < 0.3:
        extras["res"] = "'old result'"
    fn = rng.choice(["f", "f", "f", "bad"])
    if rng.random() < 0.08:
        fn = rng.choice(["compile", "open", "exit"])      # a student function named like an overridden builtin
    args = [rng.choice(CALL_ARGS) for _ in range(rng.choice([0, 1, 1, 2, 3, 4]))]
    kwargs = {}
    for k in rng.sample(["key", "mode", "n", "end"], rng.choice([0, 0, 1, 2])):
        kwargs[k] = rng.choice(CALL_ARGS)
    # keyword arguments of the student's function handed over through function_kwargs= (for a name that is one of
    # call()'s own parameters - read from the tree under test - the only way); direct ones first: that is the order
    # kwargs.update(function_kwargs) gives
    reserved = sapi.reserved_names()
    for k in rng.sample(reserved, rng.choice([0, 0, 1, 2])):
        kwargs[k] = rng.choice(CALL_ARGS)
    fkw = [k for k in kwargs if k in reserved or rng.random() < 0.3]
    kwargs = dict([(k, v) for k, v in kwargs.items() if k not in fkw] + [(k, kwargs[k]) for k in fkw])
    case = {"extras": extras, "fn": fn, "args": args, "kwargs": kwargs,
            "target": rng.choice(["_", "_", "res", "answer", "_temporary_target"]),
            "api": rng.choice(["commands", "sandbox", "commands+report"]), "default_target": rng.random() < 0.4}
    if fkw or rng.random() < 0.1:
        case["fkw"] = fkw
    if rng.random() < 0.15:
        case["via"] = "get_function"
    return case


def build_call_case(case):
    """-> sandbox ready to call, argument objects"""
    from pedal.core.commands import contextualize_report
    from pedal.core.report import MAIN_REPORT
    from pedal.core.submission import Submission
    from pedal.sandbox.data import SandboxVariable
    code = CALL_PROGRAM
    if case["fn"] not in ("f", "bad"):
        code += "def %s(*a, **k):\n    seen.append((a, k))\n    return ['result']\n" % case["fn"]
    code += "some_var = [4, 5]\n"
    for k, v in case["extras"].items():
        code += "%s = %s\n" % (k, v)
    if case["api"] == "commands+report":
        from pedal.core.report import Report
        report = case["_report"] = Report()
        contextualize_report(Submission(files={"answer.py": sc.DECOY_CODE}, main_file="answer.py"))
        contextualize_report(Submission(files={"answer.py": code}, main_file="answer.py"), report=report)
        sb = report["sandbox"]["sandbox"]
    else:
        contextualize_report(Submission(files={"answer.py": code}, main_file="answer.py"))
        sb = MAIN_REPORT["sandbox"]["sandbox"]
    sb.run()
    if sb.exception is not None:
        raise RuntimeError("call scenario did not run: %r" % (sb.exception,))

    def value(expr):
        if expr == "OBJ":
            return sb.data["A"](3)
        if expr == "PLAIN":
            return sb.data["Plain"]()
        if expr == "VAR":
            return SandboxVariable("some_var", sb.data["some_var"])
        if expr.startswith("STUDENT:"):
            return eval(expr[len("STUDENT:"):], sc.student_env(sb.data))
        return eval(expr, {"__builtins__": __builtins__ if isinstance(__builtins__, dict) else __builtins__.__dict__})
    args = [value(a) for a in case["args"]]
    kwargs = {k: value(a) for k, a in case["kwargs"].items()}
    return sb, args, kwargs


def temp_prefix():
    return (tr.LAST.get("call") or {}).get("tempPrefix") or "_temporary_"


def key_token(k):
    pa, pk = temp_prefix() + "arg_", temp_prefix() + "kwarg_"
    if k.startswith(pa) and k[len(pa):].isdigit() and str(int(k[len(pa):])) == k[len(pa):]:
        return "p" + k[len(pa):]
    if k.startswith(pk):
        return "k" + enc_str(k[len(pk):])[1:]
    return "n" + enc_str(k)[1:]


def call_request(case, sb, args, kwargs):
    """-> (request line, interpretation tables)"""
    import ast
    from pedal.sandbox.data import SandboxVariable
    ids = {}             # python object id -> model id (for identity-carrying values)

    def data_id(k, v):
        if k == "__builtins__":
            return 3
        if k == "__name__":
            return 4
        if sc.is_injected(v):
            return 900
        return ids.setdefault(id(v), 10 + len(ids))
    data_before = [(k, data_id(k, v)) for k, v in sb.data.items() if isinstance(k, str)]
    lit_ids = {}

    def arg_entry(v):
        if isinstance(v, SandboxVariable):
            inner = sb.data[v.name]
            return ids.setdefault(id(inner), 10 + len(ids)), "", 0, False, v.name, inner
        text = repr(v)
        try:
            parsed = ast.literal_eval(text)
            # CPython's fact: the text evaluates to the same value, the same types all the way down
            literal = type(parsed) is type(v) and bool(parsed == v) and ref.describe(parsed) == ref.describe(v)
        except Exception:       # noqa
            literal = False
        if literal:
            vid = lit_ids.setdefault(text, 1000 + len(lit_ids))
        else:
            vid = ids.setdefault(id(v), 10 + len(ids))
        return vid, text, len(text), literal, None, v
    entries = [arg_entry(v) for v in args]
    kw_entries = [(k, arg_entry(v)) for k, v in kwargs.items()]
    # CPython's evaluation of each repr text in the student namespace
    lits = {}
    every = entries + [e for _, e in kw_entries]
    # (two arguments of one call may share a text and differ in type: the table says what the TEXT evaluates to, so the
    # entry whose value really is that literal decides, whatever the order)
    for vid, text, n, literal, var, v in sorted(every, key=lambda e: not e[3]):
        if var is not None or text in lits:
            continue
        try:
            got = eval(text, sb.data)
            same = type(got) is type(v) and ref.describe(got) == ref.describe(v)
            lits[text] = vid if same else 7000 + len(lits)
        except BaseException:       # noqa
            lits[text] = None
    fn_obj = None
    fn_id = 0
    # the student's function object as it is BEFORE the call's execution rewrites the namespace
    fn_obj = sb.data.get(case["fn"])
    fn_id = ids.setdefault(id(fn_obj), 10 + len(ids))
    data_before = [(k, data_id(k, v)) for k, v in sb.data.items() if isinstance(k, str)]
    result_tok = "e5" if case["fn"] == "bad" else "r500"

    def arg_toks(e):
        vid, text, n, literal, var, _ = e
        return [str(vid), enc_str(text), str(n), "1" if literal else "0", enc_opt(var)]
    toks = ["call", enc_str(case["fn"]), enc_str(case["target"]), str(fn_id), result_tok, str(len(entries))]
    for e in entries:
        toks += arg_toks(e)
    toks.append(str(len(kw_entries)))
    for k, e in kw_entries:
        toks += [enc_str(k)] + arg_toks(e)
    toks.append(str(len(data_before)))
    for k, vid in data_before:
        toks += [key_token(k), str(vid)]
    toks.append(str(len(lits)))
    for text, vid in lits.items():
        toks += [enc_str(text), "-" if vid is None else str(vid)]
    return " ".join(toks), {"ids": ids, "entries": entries, "kw_entries": kw_entries, "fn_id": fn_id}


def same_call_text(a, b):
    """The generated call, compared as CPython reads it: same function, same positional arguments in order, same keyword
    arguments - in ANY order (whether the direct keywords or those of function_kwargs come first is not observable by
    the function called)."""
    if a == b or a is None or b is None:
        return a == b
    import ast
    try:
        ta, tb = ast.parse(a), ast.parse(b)
    except (SyntaxError, ValueError):
        return False

    def norm(tree):
        for node in ast.walk(tree):
            if isinstance(node, ast.Call):
                node.keywords.sort(key=lambda k: k.arg or "")
        return ast.dump(tree)
    return norm(ta) == norm(tb)


def correspond_call(rng, tier, driver, res, n):
    from pedal.sandbox import commands
    cases = [make_call_case(rng) for _ in range(n)]
    res.call_cases = cases
    lines, meta = [], []
    for case in cases:
        sb, args, kwargs = build_call_case(case)
        line, tab = call_request(case, sb, args, kwargs)
        seen = sb.data["seen"]
        del seen[:]
        opts = {} if (case["default_target"] and case["target"] == "_") else {"target": case["target"]}
        direct = {k: v for k, v in kwargs.items() if k not in case.get("fkw", ())}
        if "fkw" in case:
            opts["function_kwargs"] = {k: kwargs[k] for k in case["fkw"]}
            res.count("call:function_kwargs=%d" % min(2, len(case["fkw"])))
        report_kw = {"report": case.pop("_report")} if case["api"] == "commands+report" else {}
        try:
            if case.get("via") == "get_function":
                f = sb.get_function(case["fn"]) if case["api"] == "sandbox" else commands.get_function(case["fn"], **report_kw)
                r = f(*args, **opts, **direct)
            elif case["api"] != "sandbox":
                r = commands.call(case["fn"], *args, **opts, **direct, **report_kw)
            else:
                r = sb.call(case["fn"], *args, **opts, **direct)
            escaped = None
        except BaseException as e:      # noqa
            r, escaped = None, type(e).__name__
        exc = sb.exception
        exc = getattr(exc, "_actual_value", exc)
        real = {"escaped": escaped, "code": sb._context[-1].code if sb._context else None,
                "exc": type(exc).__name__ if exc is not None else None,
                "received": [(list(a), dict(k)) for a, k in sb.data.get("seen", [])],
                "data": dict((k, v) for k, v in sb.data.items() if isinstance(k, str)),
                "result": getattr(r, "_actual_value", r) if exc is None else None,
                "temps_left": len(getattr(sb, "_temporary_variables", ()))}
        lines.append(line)
        meta.append((case, tab, args, kwargs, real))
    answers = driver.ask(lines)
    for (case, tab, args, kwargs, real), line, ans in zip(meta, lines, answers):
        res.evaluations += 1
        head, kv = parse_kv(ans)
        if head != "ok":
            res.disagreements.append({"case": case, "which": "call", "real": "-", "model": ans, "request": line[:400]})
            continue
        res.nontrivial.add(json.dumps(case, sort_keys=True))
        problems = []
        if real["escaped"]:
            problems.append("call() let %s escape" % real["escaped"])
        src = dec_str(kv["src"])
        shown = src[len("_ = "):] if case["target"] == "_" and src.startswith("_ = ") else src
        # (the context record drops a leading "_ = " for display; the executed text is the model's `src`)
        if not same_call_text(shown, real["code"]):
            problems.append("generated call: model %r real %r" % (src[:120], (real["code"] or "")[:120]))
        res.count("call:temporaries=%d" % min(3, src.count(temp_prefix())))
        out = kv["out"]
        res.count("call:out=" + out[:3])
        if out == "r500":
            if real["exc"] is not None:
                problems.append("model returns, real raised %s" % real["exc"])
        elif out == "e5":
            if real["exc"] != "ValueError":
                problems.append("model: the function raises, real %r" % real["exc"])
        elif out == "e77":
            if real["exc"] is None or real["received"]:
                problems.append("model: a replaced builtin is applied, real exc=%r received=%r" % (
                    real["exc"], len(real["received"])))
        elif out in ("e2", "e1", "e78"):
            if real["exc"] is None or real["received"]:
                problems.append("model: the call cannot be evaluated (%s), real exc=%r" % (out, real["exc"]))
        # the values the function received
        want_vals = [e[0] for e in tab["entries"]] + [e[0] for _, e in tab["kw_entries"]]
        if kv["passed"] not in ("-",) and out in ("r500", "e5"):
            passed = [int(x) for x in kv["passed"].split(",") if x != ""]
            if passed != want_vals:
                problems.append("model passes %r, instructor gave %r" % (passed, want_vals))
            if len(real["received"]) != 1:
                problems.append("function was entered %d times" % len(real["received"]))
            else:
                ra, rk = real["received"][0]
                orig_a = [e[5] for e in tab["entries"]]
                orig_k = {k: e[5] for k, e in tab["kw_entries"]}
                if [ref.describe(x) for x in ra] != [ref.describe(x) for x in orig_a] or \
                        {k: ref.describe(x) for k, x in rk.items()} != {k: ref.describe(x) for k, x in orig_k.items()}:
                    problems.append("function received %r, instructor gave %r" % ((ra, rk), (orig_a, orig_k)))
        # namespace afterwards
        model_data = {}
        for item in kv.get("data", "").split(","):
            if item:
                k, v = item.split(":")
                model_data[k] = int(v)
        real_data = {}
        rev = tab["ids"]
        for k, v in real["data"].items():
            if k == "__builtins__":
                vid = 3
            elif k == "__name__":
                vid = 4
            elif sc.is_injected(v):
                vid = 900
            elif real["result"] is not None and v is real["result"]:
                vid = 500
            else:
                vid = rev.get(id(v), -1)
            real_data[key_token(k)] = vid
        if model_data != real_data:
            diff = sorted(k for k in set(model_data) | set(real_data) if model_data.get(k) != real_data.get(k))
            problems.append("namespace after the call differs at %s: model %r real %r" % (
                diff[:4], [model_data.get(k) for k in diff[:4]], [real_data.get(k) for k in diff[:4]]))
        if int(kv["temps"]) != real["temps_left"]:
            problems.append("temporaries pending: model %s real %s" % (kv["temps"], real["temps_left"]))
        if problems:
            res.disagreements.append({"case": case, "which": "call", "real": problems[0], "model": ans[:300],
                                      "all": problems, "request": line[:600]})


def correspond(rng, tier, driver):
    res = CorrResult()
    res.rule = ("(io) generated CS1 programs + corpus, each traced in an unmodified interpreter twice (stdin ending after "
                "the queue; stdin continuing with the sandbox's default reply, and with a small input limit): the two "
                "traces make the interaction tree; Lean sandboxRun/plainRun on it vs the real sandbox: output text "
                "(echo form included), replies recorded in the context, queue left; vs CPython: plain output. "
                "(call) a student namespace with recorder functions, globals that collide with temporaries/targets, a "
                "function named like an overridden builtin; arguments: short/long literals at the length boundary, "
                "non-finite floats, objects with evaluable and non-evaluable reprs, SandboxVariables; Lean callStep vs "
                "the real call(): generated source text, which values the function received, outcome, every key of the "
                "namespace afterwards, pending temporaries. Non-trivial = a program that asks for input / every call case")
    n_io = 250 if tier == "quick" else 3000
    cases = corpus_cases() + generated_cases(rng, n_io)
    res.cases = cases
    correspond_io(rng, tier, driver, res, cases)
    correspond_call(rng, tier, driver, res, 300 if tier == "quick" else 6000)
    res.samples = [sc.describe_case(c) for c in cases[-2:]] + [json.dumps(c)[:160] for c in res.call_cases[:1]]
    return res


# --------------------------------------------------------------------------
# search

def shrink(case, sig, what="", seconds=8.0):
    """Cut the steps after the failing one, drop follow-up calls, then whole lines (keeping it parsable is CPython's
    problem: a candidate that changes the verdict's signature is rejected).  Wall-clock budget per failure."""
    import re
    deadline = time.time() + seconds

    def verdict(c):
        if time.time() > deadline:
            return None
        try:
            r = sc.run_reference([c])[0]
            if "timeout" in r or "harness_error" in r:
                return None
            sb = sc.run_sandbox_guarded(c, 5)
            if "hung" in sb and sig.get("kind") != "sandbox-does-not-finish":
                return None     # what the shrinker left does not terminate on the path the sandbox takes
            return sc.judge(c, r, sb)
        except Exception:       # noqa
            return None
    cur = dict(case)
    v = verdict(cur)
    if not v or v[0] != sig:
        return case
    calls = list(cur.get("calls", []))
    m = re.match(r"^(?:after call|call|step) (\d+) ", what or "")
    if m and int(m.group(1)) < len(calls):
        k = int(m.group(1))
        for cand_calls in ([calls[k]], calls[:k + 1]):     # the failing step alone; nothing after the failing step
            if len(cand_calls) < len(calls):
                cand = dict(cur, calls=cand_calls)
                v = verdict(cand)
                if v and v[0] == sig:
                    cur, calls = cand, cand["calls"]
                    break
    for i in range(len(calls) - 1, -1, -1):
        cand = dict(cur, calls=calls[:i] + calls[i + 1:])
        v = verdict(cand)
        if v and v[0] == sig:
            cur, calls = cand, cand["calls"]
    lines = cur["code"].split("\n")
    budget = 60
    i = len(lines) - 1
    while i >= 0 and budget > 0:
        cand_lines = lines[:i] + lines[i + 1:]
        cand = dict(cur, code="\n".join(cand_lines))
        budget -= 1
        v = verdict(cand)
        if v and v[0] == sig:
            cur, lines = cand, cand_lines
        i -= 1
    # sizes: the smallest value of each larger integer literal that still fails (bisection; shows where the boundary is)
    done = 0
    for m in reversed(list(re.finditer(r"(?<![\w.'\"])\d{1,6}(?![\w.'\"])", cur["code"]))):     # last first: spans stay valid
        if done >= 3 or int(m.group()) < 4:
            continue
        lo, hi = 0, int(m.group())          # invariant: hi fails
        start, end = m.span()
        while hi - lo > 1 and budget > -24:
            mid = (lo + hi) // 2
            budget -= 1
            cand = dict(cur, code=cur["code"][:start] + str(mid) + cur["code"][end:])
            v = verdict(cand)
            if v and v[0] == sig:
                hi = mid
            else:
                lo = mid
        cur = dict(cur, code=cur["code"][:start] + str(hi) + cur["code"][end:])
        done += 1
    return cur


def shrink_history(case, sig, what, budget=6):
    """A call history is shrunk in FRESH processes only (in this one, whatever an earlier case left behind in pedal
    would let the priming call be dropped): cut everything after the failing step, then drop earlier steps one by one."""
    import re
    cur = case
    m = re.match(r"^(?:call|step) (\d+) ", what or "")
    if m and int(m.group(1)) + 1 < len(case.get("calls", [])):
        cand = dict(case, calls=case["calls"][:int(m.group(1)) + 1])
        budget -= 1
        if sc.judge_alone(cand) == sig:
            cur = cand
    i = len(cur.get("calls", [])) - 2
    while i >= 0 and budget > 0:
        calls = cur["calls"]
        cand = dict(cur, calls=calls[:i] + calls[i + 1:])
        budget -= 1
        if sc.judge_alone(cand) == sig:
            cur = cand
        i -= 1
    return cur


ADDRESS = __import__("re").compile(r" at 0x[0-9a-fA-F]+>")


def search(rng, tier, broken, corr):
    info = {"rule": "oracle = the same source run as __main__ in a fresh unmodified interpreter with the same inputs on "
                    "stdin: printed text equal apart from the prompt echo (one consistent echo form), same student "
                    "globals (names; values of data exactly, kind of anything else), same outcome (normal, or same "
                    "exception class at the same line of the program; class only for RecursionError); then each "
                    "follow-up call(f, args) vs `target = f(args)` in that interpreter: same return value or "
                    "exception class, and, when the exception is raised inside the program, the same line, and the same "
                    "printed text. A sample is re-checked against `python file.py` with nothing replaced at all. "
                    "Besides the grammar-based programs: a sweep over SIZES around every integer limit constant found "
                    "in pedal/sandbox/*.py and pedal/utilities/exceptions.py of the tree under test (depth of the call "
                    "chain under the raising frame in 11 styles, inputs read, lines printed, line/prompt/literal length, "
                    "line of the error, globals, arguments, nested values, calls in sequence; far-beyond sizes too) and "
                    "over ODD TEXT (\\r, \\r\\n, the other line separators, NUL, escapes, non-BMP, whitespace-only / "
                    "-terminated) in print arguments, sep, end, write(), prompts, replies, globals, returns, arguments. "
                    "Printed text is observed twice: the raw text and the LINE VIEW (Sandbox.output / get_output()), which "
                    "must be plain CPython's text of each execution cut at its newlines only, right-stripped, one blank "
                    "entry for blank-only text; both accumulated over the executions since the last clear_output(). Every "
                    "case goes in through one of the public doors (command functions, command functions with report=, "
                    "Sandbox methods) and one spelling of queueing the inputs / starting the run / passing the arguments "
                    "(**kwargs, function_kwargs, args_locals, get_function, evaluate); observations come out through the "
                    "same door",
            "evaluations": 0, "distinct_nontrivial": 0, "samples": [], "skipped": {}}
    cases = list(getattr(corr, "cases", None) or corpus_cases())
    n = (700 if tier == "quick" else 12000) * (2 if broken else 1)
    cases += generated_cases(rng, n)
    # sizes around every limit constant read from the tree under test (call-chain depth, number of inputs / lines /
    # arguments / globals, lengths, line of the error) and text that is not printable characters + "\\n", in every channel
    lim_cases, info["boundary_dimensions"] = sl.limit_cases(rng, tier)
    cases += lim_cases
    # programs whose behaviour depends on how the source is compiled / on the module they run as (annotations of every
    # kind, every __future__ feature, assert/__debug__/docstrings, expression statements, decorators, class bodies, ...)
    comp_cases, info["compile_dimensions"] = scomp.compile_cases(rng, tier)
    cases += comp_cases
    # call() argument passing as a HISTORY in one process: look-alike values of different types one after the other,
    # the same object again after a change, the same call after the function / the program changed
    hist_cases, info["history_dimensions"] = shist.history_cases(rng, tier)
    cases += hist_cases
    # the other public spellings laid over those streams (the corpus and what the correspondence already ran stay as they are)
    for k, v in sapi.respell(lim_cases + comp_cases + hist_cases, rng, 0.3).items():
        RESPELLED[k] = RESPELLED.get(k, 0) + v
    # every public spelling of "run this program with these inputs" / "call this function with these arguments" /
    # "what did it print": command functions with and without report=, Sandbox methods, function_kwargs, args_locals,
    # get_function, evaluate; student parameters named like the wrappers' own parameters (read from the tree under test)
    api_cases, info["api_dimensions"] = sapi.api_cases(rng, tier)
    cases += api_cases
    info["api_dimensions"]["respelled_cases_of_other_streams"] = dict(sorted(RESPELLED.items()))
    t_ref = time.time()
    refs = sc.run_reference(cases)
    info["seconds"] = {"reference": round(time.time() - t_ref, 1)}
    t_loop = time.time()
    failures = {}
    nt = set()
    shrink_spent = 0.0
    alone_checks = 0
    history_shrinks = 0
    needs_earlier = {}
    for c, r in zip(cases, refs):
        if "timeout" in r:
            info["skipped"]["reference-timeout"] = info["skipped"].get("reference-timeout", 0) + 1
            continue
        if "harness_error" in r:
            info.setdefault("harness_errors", []).append(r["harness_error"][:200])
            continue
        if ADDRESS.search(sc.plain_text(r["events"])):
            # a default object repr got printed: the text contains a memory address and differs between any two runs
            info["skipped"]["prints-an-address"] = info["skipped"].get("prints-an-address", 0) + 1
            continue
        info["evaluations"] += 1
        try:
            sb = sc.run_sandbox_guarded(c, 30)
            v = sc.judge(c, r, sb)
        except Exception as e:       # noqa
            info.setdefault("harness_errors", []).append("%s: %s" % (type(e).__name__, e))
            continue
        nt.add((r["outcome"][0] if r["outcome"] else "normal", len(r["events"]) > 0, len(c.get("calls", [])) > 0))
        for tag in c.get("shape", []):
            if tag.startswith(("limit:", "odd:", "odd-", "deep-chain", "compile:", "history:", "api:")):
                dim = ":".join(tag.split(":")[:2])
                info.setdefault("evaluated_per_dimension", {})
                info["evaluated_per_dimension"][dim] = info["evaluated_per_dimension"].get(dim, 0) + 1
        if v is None:
            continue
        key = json.dumps(v[0], sort_keys=True)
        if key in failures:
            continue
        if c.get("shape", [""])[0].startswith("history:") and alone_checks < 6:
            # a history must be self-contained (the replay runs it in a fresh process): what an EARLIER case of this run
            # left behind in pedal may be what makes this one fail - then a later case with the priming call inside is kept
            alone_checks += 1
            if sc.judge_alone(c) != v[0]:
                info["history_failures_needing_earlier_cases"] = info.get("history_failures_needing_earlier_cases", 0) + 1
                needs_earlier.setdefault(key, (c, v))
                continue
        # shrinking costs fresh interpreters: a defect that shows under many signatures must not turn the run into minutes
        t_sh = time.time()
        if c.get("shape", [""])[0].startswith("history:"):
            small = shrink_history(c, v[0], v[1]) if history_shrinks < 2 else c
            history_shrinks += 1
        else:
            # (once the budget is spent only the cheap cuts: nothing after the failing step, then the last calls)
            small = shrink(c, v[0], v[1], (5.0 if tier == "quick" else 40.0)
                           if shrink_spent < (12 if tier == "quick" else 180) else 1.5)
        shrink_spent += time.time() - t_sh
        r2 = sc.run_reference([small])[0]
        sb2 = sc.run_sandbox_guarded(small, 30)
        v2 = sc.judge(small, r2, sb2) or v
        failures[key] = Failure(v[0], v2[1], {"case": small, "plain": {"outcome": r2.get("outcome"),
                                                                       "text": sc.plain_text(r2.get("events", []))[-400:]},
                                              "sandbox": {"outcome": sb2.get("outcome"), "text": (sb2.get("out") or "")[-400:]}})
        if len(failures) >= 40:
            break
    for key, (c, v) in needs_earlier.items():
        if key not in failures:
            # never seen self-contained: reported as found (the replay needs the process history, said so)
            failures[key] = Failure(v[0], v[1] + " (seen only after the earlier cases of this run: pedal keeps state "
                                                 "between programs; a fresh process may not show it)",
                                    {"case": c, "plain": {}, "sandbox": {}})
    info["seconds"]["sandbox_and_shrinking"] = round(time.time() - t_loop, 1)
    info["seconds"]["shrinking"] = round(shrink_spent, 1)
    # the traced reference against the completely untouched interpreter
    sample = [c for c in cases if not c.get("limit")]
    sample = rng.sample(sample, min(len(sample), 40 if tier == "quick" else 1200))
    sample += rng.sample(lim_cases, min(len(lim_cases), 24 if tier == "quick" else 400))
    sample += rng.sample(comp_cases, min(len(comp_cases), 40 if tier == "quick" else 1500))
    t_pure = time.time()
    by_code = {id(c): r for c, r in zip(cases, refs)}
    from concurrent.futures import ThreadPoolExecutor
    with ThreadPoolExecutor(max_workers=8) as ex:
        pures = list(ex.map(sc.run_pure, sample))
    mism = 0
    for c, p in zip(sample, pures):
        r = by_code[id(c)]
        if "timeout" in r or "harness_error" in r:
            continue
        if ADDRESS.search(sc.plain_text(r["events"])) or ADDRESS.search(p["out"]):
            continue        # a default repr was printed: the text differs between any two processes
        ro = r["outcome"]
        if ro and ro[0] == "RecursionError":
            ro = [ro[0], None]
            p = dict(p, outcome=[p["outcome"][0], None] if p["outcome"] else None)
        if p["out"] != sc.plain_text(r["events"]) or p["outcome"] != ro:
            mism += 1
            info.setdefault("reference_mismatch", []).append(
                {"code": c["code"][:600], "pure": [p["out"][-120:], p["outcome"]],
                 "traced": [sc.plain_text(r["events"])[-120:], r["outcome"]]})
    info["seconds"]["untouched_interpreter_cross_check"] = round(time.time() - t_pure, 1)
    info["pure_interpreter_cross_checks"] = len(sample)
    info["pure_interpreter_mismatches"] = mism
    if mism:
        raise RuntimeError("the traced reference disagrees with `python file.py` on %d of %d programs: %r" % (
            mism, len(sample), info["reference_mismatch"][0]))
    info["distinct_nontrivial"] = len(nt)
    info["samples"] = [sc.describe_case(c) for c in cases[:2]]
    if os.environ.get("VERIF_C06_TIMING"):
        print("C06 search seconds: %r" % (info["seconds"],), file=sys.stderr)
    return list(failures.values()), info


def replay(payload):
    case = payload["replay"]["case"] if "replay" in payload else payload["case"]
    if "code" not in case:
        print("(a call-correspondence case; re-run the check to see it)")
        print(json.dumps(case, indent=1))
        return 0
    r = sc.run_reference([case])[0]
    sb = sc.run_sandbox_guarded(case, 30)
    v = sc.judge(case, r, sb)
    print("program  :\n" + case["code"])
    print("inputs   :", case.get("inputs"), " calls:", case.get("calls"))
    print("plain    : outcome", r.get("outcome"), "text", repr(sc.plain_text(r.get("events", [])))[:300],
          "calls", [c["result"] for c in r.get("calls", [])])
    print("sandbox  : outcome", sb.get("outcome"), "text", repr(sb.get("out"))[:300],
          "calls", [c["result"] for c in sb.get("calls", [])])
    print("verdict  :", "property violated: %s" % v[1] if v else "property holds on this input")
    print("signature:", json.dumps(v[0], sort_keys=True) if v else "-")
    return 1 if v else 0


if __name__ == "__main__":
    sys.exit(run_check("C06", proof_modules=["PedalProofs.C06"], theorems=THEOREMS, driver_exe="driver_c06",
                       translate=translate, correspond=correspond, search=search, replay=replay,
                       model_notes=NOTES,
                       refuted_full=[
                           {"statement": "Pedal.SandboxEquiv.C06_io_Full",
                            "refuted_by": "Pedal.SandboxEquiv.c06_io_exhausted_counterexample",
                            "findings": ["input() with an exhausted queue answers '0' where CPython raises EOFError"]},
                           {"statement": "Pedal.SandboxEquiv.C06_call_Full",
                            "refuted_by": "Pedal.SandboxEquiv.c06_override_shadow_counterexample",
                            "findings": ["a student global named like an overridden builtin is rewritten by every "
                                         "execution after the run()"]}],
                       unproved_full=[{"statement": "exec(compile(source)) in the sandbox namespace behaves like running "
                                                    "the file as __main__ (the interaction tree / Env are CPython's)",
                                       "status": "sampled differentially, not proved"}],
                       leanchecker_modules=["PedalProofs.C06"]))

"""
The handler ladder of `Sandbox._execute` for the C04 / C05 model - READ by meaning and MEASURED on the real function.

`ExecuteDef` (lean/PedalModel/SandboxExecTypes.lean) is `pre; try: body except...: handlers else: orelse finally: final;
post`, each part a list of `Act`s.  The Lean obligations evaluate the generated ladder on all 48 control signatures
(`checkC04` / `checkC05`, closed by `decide`), so they hold for every ladder with the same meaning; what has to be
robust is how the ladder is obtained from the source.  Two sources, in the pattern "read AND measure, must agree, else
unknown" (see translate_timeout.py, translate_proxy.py + proxy_probe.py):

READ (`Reader`): a small symbolic interpreter over the AST of the module that defines `Sandbox`.
  * locals are followed (`info = sys.exc_info()`, `tracer = self.trace.as_filename(..)`, a tuple of classes held in a
    local, an alias of the caught exception, `sys.exc_info()[1]`);
  * private helper methods / module-level helper functions are INLINED (parameters bound to what the caller passes),
    also when the whole `try` statement lives in a helper (`return self._execute_plain(...)`);
  * the non-threaded path is selected by partial evaluation (`threaded` = False): `if threaded: return ...`,
    `if not threaded: ... else: ...`, `if threaded is True` ... all give the same ladder;
  * an `except` clause catching a tuple of classes - written inline, through a class constant (`self._X`, `Sandbox._X`,
    `type(self)._X`), a module constant or a local - is the sequence of clauses with equal bodies, one per class
    (classes that are subclasses of another member are redundant and dropped);
  * an `except BaseException as e:` handler that dispatches with `isinstance(e, ...)` (if / elif / else, `not`,
    `or`) is the sequence of clauses it is equivalent to;
  * `raise` and `raise e` (e the caught exception) are the re-raise; `return self` only where it ends the function;
  * every statement the reader does not understand is kept as an UNKNOWN item with its position - never dropped.

MEASURE (`probe_execute`): the real `_execute` is called on an instrumented subclass of the real `Sandbox` (the mocking
  / capturing methods are stubs that log, `_context` and `_next_context_id` log, the tracer is a stub, the executed code
  logs itself and raises a prepared exception object) once per scenario: normal / raised (classes that are Exception,
  SystemExit, both, neither) / compile failure x recording succeeds / fails for the student's exception / fails always.
  Each logged event carries the lines of the frames of the sandbox module it happened under, and the lines executed
  are traced.

COMBINE (`build_ladder`):
  * an `except` class expression is resolved from the AST and, where it only mentions `self` / module globals, also
    evaluated on the real objects; both known: must agree, else `unknown`; one known: it wins;
  * an UNKNOWN *simple* statement (expression statement / assignment) is replaced by the events measured under its
    lines, provided it showed the same events whenever it ran and no scenario changed anything that was not logged
    (attributes of the sandbox, process globals); compound statements are never filled in;
  * finally the ladder is SIMULATED (a Python mirror of `planTry` in lean/PedalModel/SandboxExec.lean) on every
    scenario and compared, event by event and outcome, with what was measured.  A disagreement makes the ladder
    `unknown` (the Lean obligations fail) - a wrong reading must not pass.  If the measurement is unavailable (the
    function cannot be instrumented any more) the reading stands alone and the note says so.
"""
import ast
import builtins
import inspect
import io
import sys
import time

PRIMS = {"clear_exception": "clearException", "_start_mocking": "startMocking", "_stop_mocking": "stopMocking",
         "_stop_patches": "stopPatches", "_capture_exception": "capture"}
CATCH_OF = {Exception: "exception", SystemExit: "systemExit", BaseException: "baseException"}
PURE_CALLS = {"SandboxContext", "isinstance", "issubclass", "type", "len", "tuple", "list", "dict", "set", "bool",
              "id", "frozenset"}
MAX_INLINE_DEPTH = 6


# ----------------------------------------------------------------------------------------------------------------
# items

class Item:
    """One piece of a block: `acts` (understood), `unknown` (kept, with position), or a `try` statement."""

    def __init__(self, kind, **kw):
        self.kind = kind
        self.__dict__.update(kw)

    def __repr__(self):
        if self.kind == "acts":
            return "acts%s" % (self.acts,)
        if self.kind == "unknown":
            return "unknown(%s:%d-%d %s)" % (self.func, self.lo, self.hi, self.src[:40])
        return "try(%s, %s, else=%s, finally=%s)" % (self.body, self.handlers, self.orelse, self.final)


def acts_item(*names):
    return Item("acts", acts=list(names))


# ----------------------------------------------------------------------------------------------------------------
# reader

class Reader:
    def __init__(self, module_src, class_name="Sandbox", module_obj=None, instance=None):
        self.tree = ast.parse(module_src)
        self.module_obj = module_obj
        self.instance = instance
        self.class_name = class_name
        self.notes = []
        self.cls = None
        for node in self.tree.body:
            if isinstance(node, ast.ClassDef) and node.name == class_name:
                self.cls = node
        self.methods, self.class_consts = {}, {}
        self.module_funcs, self.module_consts = {}, {}
        self.module_bound = set()          # every name bound at module level (shadowing of builtins)
        self.instance_assigned = set()     # attributes stored on `self` somewhere in the class
        multiple = set()
        for node in self.tree.body:
            if isinstance(node, (ast.FunctionDef, ast.ClassDef)):
                self.module_bound.add(node.name)
                if isinstance(node, ast.FunctionDef):
                    self.module_funcs[node.name] = node
            elif isinstance(node, (ast.Import, ast.ImportFrom)):
                for a in node.names:
                    self.module_bound.add((a.asname or a.name).split(".")[0])
            elif isinstance(node, (ast.Assign, ast.AnnAssign, ast.AugAssign)):
                targets = node.targets if isinstance(node, ast.Assign) else [node.target]
                for t in targets:
                    for n in ast.walk(t):
                        if isinstance(n, ast.Name):
                            self.module_bound.add(n.id)
                            if (isinstance(node, ast.Assign) and len(targets) == 1 and t is n
                                    and n.id not in self.module_consts and n.id not in multiple):
                                self.module_consts[n.id] = node.value
                            else:
                                multiple.add(n.id)
                                self.module_consts.pop(n.id, None)
            else:
                for n in ast.walk(node):        # names bound inside `if` / `try` at module level: not constants
                    if isinstance(n, ast.Name) and isinstance(n.ctx, ast.Store):
                        self.module_bound.add(n.id)
                        multiple.add(n.id)
                        self.module_consts.pop(n.id, None)
        for n in ast.walk(self.tree):
            if isinstance(n, ast.Global):
                for name in n.names:
                    self.module_consts.pop(name, None)
        if self.cls is not None:
            cmult = set()
            for node in self.cls.body:
                if isinstance(node, ast.FunctionDef):
                    self.methods[node.name] = node
                elif isinstance(node, ast.Assign) and len(node.targets) == 1 and isinstance(node.targets[0], ast.Name):
                    name = node.targets[0].id
                    if name in self.class_consts or name in cmult:
                        cmult.add(name)
                        self.class_consts.pop(name, None)
                    else:
                        self.class_consts[name] = node.value
            for n in ast.walk(self.cls):
                if (isinstance(n, ast.Attribute) and isinstance(n.ctx, (ast.Store, ast.Del))
                        and isinstance(n.value, ast.Name) and n.value.id in ("self", "cls", class_name)):
                    self.instance_assigned.add(n.attr)
                if (isinstance(n, ast.Call) and isinstance(n.func, ast.Name) and n.func.id in ("setattr", "delattr")
                        and n.args and isinstance(n.args[0], ast.Name) and n.args[0].id in ("self", "cls", class_name)):
                    self.instance_assigned.add("*")

    # ---- symbolic values -----------------------------------------------------------------------------------

    def note(self, text):
        text = " ".join(str(text).split())[:200]
        if text not in self.notes:
            self.notes.append(text)

    def is_self(self, node, env):
        return isinstance(node, ast.Name) and env.get(node.id) == ("self",)

    def self_attr(self, node, env, name=None):
        return (isinstance(node, ast.Attribute) and self.is_self(node.value, env)
                and (name is None or node.attr == name))

    def sym(self, e, env):
        """Symbolic value of a side-effect-free expression, or None when the expression is not known to be pure."""
        if isinstance(e, ast.Constant):
            return ("const", e.value)
        if isinstance(e, ast.Name):
            if e.id in env:
                return env[e.id]
            return ("pure",)
        if isinstance(e, ast.Call):
            f = e.func
            args_pure = all(self.pure(a, env) for a in e.args) and all(self.pure(k.value, env) for k in e.keywords)
            if (isinstance(f, ast.Attribute) and f.attr == "exc_info" and isinstance(f.value, ast.Name)
                    and f.value.id == "sys" and "sys" not in env and not e.args and not e.keywords):
                # inside a handler it describes the caught exception; anywhere else it is just a value
                return ("excinfo",) if env.get("@handler") else ("pure",)
            if (isinstance(f, ast.Attribute) and f.attr == "as_filename" and self.self_attr(f.value, env, "trace")
                    and args_pure):
                return ("tracercm",)
            if (isinstance(f, ast.Name) and f.id == "isinstance" and f.id not in env and len(e.args) == 2
                    and not e.keywords and self.sym(e.args[0], env) == ("exc",)):
                # a question about the class of the caught exception (may be kept in a local before it is used)
                return ("isinst", tuple(self.catch_names(e.args[1], env, what="isinstance")), False)
            if isinstance(f, ast.Name) and f.id in PURE_CALLS and f.id not in env and args_pure:
                return ("pure",)
            return None
        if isinstance(e, ast.Subscript):
            base = self.sym(e.value, env)
            if base == ("excinfo",) and isinstance(e.slice, ast.Constant) and e.slice.value == 1:
                return ("exc",)
            if base is None or base == ("exc",) or not self.pure(e.slice, env):
                return None
            return ("pure",)
        if isinstance(e, ast.Attribute):
            if self.self_attr(e, env) and e.attr in PRIMS:
                return ("method", e.attr)
            if self.self_attr(e, env) and e.attr in self.methods:
                return ("method", e.attr)
            base = self.sym(e.value, env)
            if base is None or base == ("exc",):      # reading an attribute of the student's exception runs its code
                return None
            return ("pure",)
        if isinstance(e, ast.UnaryOp):
            v = self.sym(e.operand, env)
            if v is None:
                return None
            if isinstance(e.op, ast.Not) and v[0] == "const":
                return ("const", not v[1])
            if isinstance(e.op, ast.Not) and v[0] == "isinst":
                return ("isinst", v[1], not v[2])
            return ("pure",)
        if isinstance(e, ast.BoolOp):
            vals = [self.sym(v, env) for v in e.values]
            if any(v is None for v in vals):
                return None
            if all(v[0] == "const" for v in vals):
                out = vals[0][1]
                for v in vals[1:]:
                    out = (out and v[1]) if isinstance(e.op, ast.And) else (out or v[1])
                return ("const", out)
            # isinstance(e, A) or isinstance(e, B);  not isinstance(e, A) and not isinstance(e, B)  (De Morgan)
            want_neg = isinstance(e.op, ast.And)
            if all(v[0] == "isinst" and v[2] == want_neg for v in vals):
                return ("isinst", tuple(c for v in vals for c in v[1]), want_neg)
            return ("pure",)
        if isinstance(e, ast.Compare):
            vals = [self.sym(v, env) for v in [e.left] + list(e.comparators)]
            if any(v is None for v in vals):
                return None
            if len(vals) == 2 and all(v[0] == "const" for v in vals):
                a, b2, op = vals[0][1], vals[1][1], e.ops[0]
                if isinstance(op, (ast.Is, ast.Eq)) and (isinstance(op, ast.Is) or type(a) is type(b2)):
                    return ("const", a is b2 if isinstance(op, ast.Is) else a == b2)
                if isinstance(op, (ast.IsNot, ast.NotEq)) and (isinstance(op, ast.IsNot) or type(a) is type(b2)):
                    return ("const", a is not b2 if isinstance(op, ast.IsNot) else a != b2)
            return ("pure",)
        if isinstance(e, ast.IfExp):
            t = self.sym(e.test, env)
            if t is None:
                return None
            if t[0] == "const":
                return self.sym(e.body if t[1] else e.orelse, env)
            a, b2 = self.sym(e.body, env), self.sym(e.orelse, env)
            return None if a is None or b2 is None else (a if a == b2 else ("pure",))
        if isinstance(e, (ast.Tuple, ast.List, ast.Set)):
            if all(self.pure(x, env) for x in e.elts):
                return ("pure",)
            return None
        if isinstance(e, ast.Starred):
            return ("pure",) if self.pure(e.value, env) else None
        if isinstance(e, ast.Dict):
            if all(k is None or self.pure(k, env) for k in e.keys) and all(self.pure(v, env) for v in e.values):
                return ("pure",)
            return None
        if isinstance(e, ast.BinOp):
            a, b2 = self.sym(e.left, env), self.sym(e.right, env)
            return None if a is None or b2 is None else ("pure",)
        return None

    def pure(self, e, env):
        return self.sym(e, env) is not None

    def const(self, e, env):
        v = self.sym(e, env)
        if v is not None and v[0] == "const":
            return bool(v[1])
        return None

    # ---- exception classes ---------------------------------------------------------------------------------

    def class_objects(self, e, env, depth=0):
        """The classes an `except` / isinstance class expression denotes: list of class objects, or None."""
        if depth > 8:
            return None
        if e is None:
            return [BaseException]
        if isinstance(e, ast.Name):
            if e.id in env:
                v = env[e.id]
                if v[0] == "classes":
                    return list(v[1])
                return None
            if e.id in self.module_consts:
                return self.class_objects(self.module_consts[e.id], {}, depth + 1)
            if e.id in self.module_bound:
                return None
            obj = getattr(builtins, e.id, None)
            if isinstance(obj, type) and issubclass(obj, BaseException):
                return [obj]
            return None
        if isinstance(e, ast.Tuple):
            out = []
            for x in e.elts:
                sub = self.class_objects(x, env, depth + 1)
                if sub is None:
                    return None
                out += sub
            return out
        if isinstance(e, ast.BinOp) and isinstance(e.op, ast.Add):
            a, b2 = self.class_objects(e.left, env, depth + 1), self.class_objects(e.right, env, depth + 1)
            return None if a is None or b2 is None else a + b2
        if isinstance(e, ast.Attribute):
            owner = e.value
            on_class = (self.is_self(owner, env) or (isinstance(owner, ast.Name) and owner.id == self.class_name
                                                      and owner.id not in env)
                        or (isinstance(owner, ast.Attribute) and owner.attr == "__class__"
                            and self.is_self(owner.value, env))
                        or (isinstance(owner, ast.Call) and isinstance(owner.func, ast.Name)
                            and owner.func.id == "type" and len(owner.args) == 1
                            and self.is_self(owner.args[0], env)))
            if (on_class and e.attr in self.class_consts and e.attr not in self.instance_assigned
                    and "*" not in self.instance_assigned):
                return self.class_objects(self.class_consts[e.attr], {}, depth + 1)
            if isinstance(owner, ast.Name) and owner.id == "builtins" and owner.id not in env:
                obj = getattr(builtins, e.attr, None)
                if isinstance(obj, type) and issubclass(obj, BaseException):
                    return [obj]
            return None
        return None

    def measured_class_objects(self, e, env):
        """The same expression evaluated on the real objects (only when it mentions `self` / module globals only)."""
        if e is None or self.module_obj is None or self.instance is None:
            return None
        selfs = [k for k, v in env.items() if v == ("self",)]
        for n in ast.walk(e):
            if isinstance(n, ast.Attribute) and (n.attr in self.instance_assigned or "*" in self.instance_assigned):
                return None               # stored on the instance somewhere: a fresh object does not tell
            if isinstance(n, ast.Name):
                if n.id in env and n.id not in selfs:
                    return None
                if n.id not in selfs and n.id not in vars(self.module_obj) and not hasattr(builtins, n.id):
                    return None
            elif not isinstance(n, (ast.Attribute, ast.Tuple, ast.Load, ast.BinOp, ast.Add, ast.Call)):
                return None
            if isinstance(n, ast.Call) and not (isinstance(n.func, ast.Name) and n.func.id == "type"):
                return None
        try:
            code = compile(ast.Expression(body=e), "<except-class>", "eval")
            value = eval(code, dict(vars(self.module_obj)), {k: self.instance for k in selfs})
        except Exception:
            return None
        out = []

        def flat(v):
            if isinstance(v, tuple):
                for x in v:
                    flat(x)
            else:
                out.append(v)
        flat(value)
        if not all(isinstance(c, type) and issubclass(c, BaseException) for c in out):
            return None
        return out

    def catch_names(self, e, env, what="except"):
        """-> list of Catch constructor names, clause order; `unknown` for a class the model has no clause for."""
        read = self.class_objects(e, env)
        meas = self.measured_class_objects(e, env)
        text = "bare" if e is None else ast.unparse(e)
        if read is not None and meas is not None and [id(c) for c in read] != [id(c) for c in meas]:
            self.note("%s class %s: read %s, evaluates to %s - contradiction" % (
                what, text, [c.__name__ for c in read], [c.__name__ for c in meas]))
            return ["unknown"]
        objs = read if read is not None else meas
        if objs is None:
            self.note("unknown %s class: %s" % (what, text))
            return ["unknown"]
        if read is None:
            self.note("%s class %s taken from its value on the real object: %s" % (
                what, text, [c.__name__ for c in objs]))
        kept = []
        for i, c in enumerate(objs):
            # a member that is a subclass of another member (or a repetition) selects nothing new
            if any(j != i and issubclass(c, d) and (c is not d or j < i) for j, d in enumerate(objs)):
                continue
            kept.append(c)
        names = [CATCH_OF.get(c, "unknown") for c in kept]
        if "unknown" in names:
            self.note("%s class not modelled: %s" % (what, text))
        return names

    # ---- statements ----------------------------------------------------------------------------------------

    def unknown(self, st, fname, why=""):
        simple = isinstance(st, (ast.Expr, ast.Assign, ast.AnnAssign, ast.AugAssign))
        src = " ".join(ast.unparse(st).split())
        self.note("not read (%s line %d%s): %s" % (fname, getattr(st, "lineno", 0), ", " + why if why else "", src[:90]))
        return Item("unknown", func=fname, lo=getattr(st, "lineno", 0), hi=getattr(st, "end_lineno", 0),
                    simple=simple, src=src)

    def bind_params(self, fn, call, env, bound_self=True):
        """Environment of an inlined helper: parameters bound to the symbolic values of the arguments."""
        a = fn.args
        names = [p.arg for p in a.posonlyargs + a.args]
        decos = {d.id for d in fn.decorator_list if isinstance(d, ast.Name)}
        if decos - {"staticmethod", "classmethod"}:
            return None
        new = {}
        if bound_self and "staticmethod" not in decos:
            if not names:
                return None
            new[names[0]] = ("self",) if "classmethod" not in decos else ("pure",)
            names = names[1:]
        vals = []
        for arg in call.args:
            if isinstance(arg, ast.Starred):
                return None
            v = self.sym(arg, env)
            if v is None:
                return None
            vals.append(v)
        if len(vals) > len(names) and a.vararg is None:
            return None
        for n, v in zip(names, vals):
            new[n] = v
        if a.vararg is not None:
            new[a.vararg.arg] = ("pure",)
        kwonly = [p.arg for p in a.kwonlyargs]
        for k in call.keywords:
            v = self.sym(k.value, env)
            if v is None:
                return None
            if k.arg is None:
                continue
            if k.arg in names or k.arg in kwonly:
                new[k.arg] = v
            elif a.kwarg is None:
                return None
        if a.kwarg is not None:
            new[a.kwarg.arg] = ("pure",)
        defaults = dict(zip(names[len(names) - len(a.defaults):], a.defaults)) if a.defaults else {}
        for n in names:
            if n not in new:
                if n not in defaults:
                    return None
                new[n] = self.sym(defaults[n], {}) or ("pure",)
        for p, d in zip(a.kwonlyargs, a.kw_defaults):
            if p.arg not in new:
                if d is None:
                    return None
                new[p.arg] = self.sym(d, {}) or ("pure",)
        return new

    def inline(self, fn, call, env, stack, bound_self=True, closure_env=None):
        """-> (items, return value) of a helper call, or None when it cannot be inlined."""
        if fn.name in stack or len(stack) >= MAX_INLINE_DEPTH:
            return None
        new = self.bind_params(fn, call, env, bound_self)
        if new is None:
            return None
        if closure_env is not None:              # a function defined inside the method sees the method's locals
            if any(isinstance(n, (ast.Nonlocal, ast.Global)) for n in ast.walk(fn)):
                return None
            merged = {k: v for k, v in closure_env.items() if k != "@handler"}
            merged.update(new)
            new = merged
        if any(isinstance(n, (ast.Yield, ast.YieldFrom, ast.Await)) for n in ast.walk(fn)):
            return None
        if env.get("@handler"):
            new["@handler"] = True           # a bare `raise` in a helper called from a handler re-raises the same
        items, term, ret = self.block(fn.body, new, fn.name, stack + [fn.name], allow_return=True)
        return items, (ret if term == "return" else ("const", None))

    def call_items(self, call, env, fname, stack):
        """A call evaluated for its effect -> (items, value) or None when it is not understood."""
        f = call.func
        target = None
        if isinstance(f, ast.Attribute) and self.is_self(f.value, env):
            target = f.attr
        elif (isinstance(f, ast.Attribute) and isinstance(f.value, ast.Name) and f.value.id == self.class_name
              and f.value.id not in env and call.args and self.is_self(call.args[0], env)):
            # Sandbox._helper(self, ...) is self._helper(...)
            target = f.attr
            call = ast.Call(func=f, args=list(call.args[1:]), keywords=call.keywords)
            ast.copy_location(call, f)
        elif isinstance(f, ast.Name) and env.get(f.id, ("",))[0] == "method":
            target = env[f.id][1]                    # a bound method held in a local
        if target is not None:
            if target in PRIMS:
                if not (all(self.pure(a, env) for a in call.args)
                        and all(self.pure(k.value, env) for k in call.keywords)):
                    return None
                if target == "_capture_exception":
                    first = call.args[0] if call.args else None
                    for k in call.keywords:
                        if k.arg == "exception":
                            first = k.value
                    if first is None or self.sym(first, env) != ("exc",):
                        self.note("%s: _capture_exception is not handed the caught exception: %s" % (
                            fname, ast.unparse(call)[:80]))
                        return None
                return [acts_item(PRIMS[target])], ("pure",)
            if target in self.methods:
                r = self.inline(self.methods[target], call, env, stack)
                if r is not None:
                    return r
            return None
        if isinstance(f, ast.Name) and env.get(f.id, ("",))[0] == "func":
            return self.inline(env[f.id][1], call, env, stack, bound_self=False, closure_env=env[f.id][2])
        if isinstance(f, ast.Name) and f.id not in env:
            if f.id == "exec" and "exec" not in self.module_bound:
                if all(self.pure(a, env) for a in call.args) and not call.keywords:
                    return [acts_item("exec")], ("pure",)
                return None
            if f.id == "compile" and "compile" not in self.module_bound:
                if all(self.pure(a, env) for a in call.args) and all(self.pure(k.value, env) for k in call.keywords):
                    return [acts_item("compile")], ("compiled",)
                return None
            if f.id in self.module_funcs:
                r = self.inline(self.module_funcs[f.id], call, env, stack, bound_self=False)
                if r is not None:
                    return r
            return None
        if (isinstance(f, ast.Attribute) and f.attr == "append" and self.self_attr(f.value, env, "_context")
                and len(call.args) == 1 and self.pure(call.args[0], env) and not call.keywords):
            return [acts_item("pushContext")], ("const", None)
        return None

    def value_items(self, e, env, fname, stack):
        """Right-hand side of an assignment / operand of `return` -> (items, value) or None."""
        v = self.sym(e, env)
        if v is not None:
            return [], v
        if isinstance(e, ast.Call):
            return self.call_items(e, env, fname, stack)
        return None

    def is_bump(self, st, env):
        if isinstance(st, ast.AugAssign):
            return (self.self_attr(st.target, env, "_next_context_id") and isinstance(st.op, ast.Add)
                    and isinstance(st.value, ast.Constant) and st.value.value == 1)
        if isinstance(st, ast.Assign) and len(st.targets) == 1 and self.self_attr(st.targets[0], env, "_next_context_id"):
            v = st.value
            if isinstance(v, ast.BinOp) and isinstance(v.op, ast.Add):
                for a, b2 in ((v.left, v.right), (v.right, v.left)):
                    if (self.self_attr(a, env, "_next_context_id") and isinstance(b2, ast.Constant)
                            and b2.value == 1):
                        return True
        return False

    def stmt(self, st, env, fname, stack):
        """One statement that is neither `return` nor `if` nor `try` -> list of items."""
        if isinstance(st, ast.Pass):
            return []
        if isinstance(st, (ast.Import, ast.ImportFrom)):
            return [self.unknown(st, fname)]
        if isinstance(st, ast.Expr):
            v = st.value
            if isinstance(v, ast.Constant):
                return []
            if isinstance(v, ast.Call):
                r = self.call_items(v, env, fname, stack)
                if r is not None:
                    return r[0]
            if self.pure(v, env):
                return []
            return [self.unknown(st, fname)]
        if self.is_bump(st, env):
            return [acts_item("bumpContextId")]
        if (isinstance(st, ast.Assign) and len(st.targets) == 1 and self.self_attr(st.targets[0], env)
                and st.targets[0].attr in ("exception", "feedback")
                and isinstance(st.value, ast.Constant) and st.value.value is None):
            # `clear_exception()` written out: the exception slot is emptied (the sandbox's `feedback` attribute is
            # not part of the model)
            return [acts_item("clearException" if st.targets[0].attr == "exception" else "pure")]
        if isinstance(st, (ast.Assign, ast.AnnAssign)) and getattr(st, "value", None) is not None:
            targets = st.targets if isinstance(st, ast.Assign) else [st.target]
            if isinstance(st.value, ast.Lambda) and len(targets) == 1 and isinstance(targets[0], ast.Name):
                fn = ast.FunctionDef(name="<lambda>", args=st.value.args, body=[ast.Return(value=st.value.body)],
                                     decorator_list=[], returns=None, type_comment=None)
                ast.copy_location(fn, st.value)
                ast.copy_location(fn.body[0], st.value.body)
                env[targets[0].id] = ("func", fn, env)
                return [acts_item("pure")]
            r = self.value_items(st.value, env, fname, stack)
            if r is None:
                return [self.unknown(st, fname)]
            items, value = r
            if not items:
                if isinstance(st.value, ast.Tuple):
                    objs = self.class_objects(st.value, env)      # a tuple of exception classes held in a local
                    if objs:
                        value = ("classes", objs)
                items = [acts_item("pure")]
            for t in targets:
                if isinstance(t, ast.Name):
                    env[t.id] = value
                elif (isinstance(t, ast.Tuple) and all(isinstance(x, ast.Name) for x in t.elts)):
                    for i, x in enumerate(t.elts):
                        env[x.id] = ("exc",) if (value == ("excinfo",) and i == 1) else ("pure",)
                elif (isinstance(t, ast.Subscript) and self.self_attr(t.value, env, "data")
                      and self.pure(t.slice, env) and value[0] in ("const", "pure")):
                    pass                                   # self.data['__name__'] = "__main__"
                else:
                    return [self.unknown(st, fname, "stores into something that is not a local")]
            return items
        if isinstance(st, ast.Raise):
            if st.cause is None and (st.exc is None or self.sym(st.exc, env) == ("exc",)):
                if env.get("@handler"):
                    return [acts_item("reraise")]
            return [self.unknown(st, fname)]
        if isinstance(st, ast.With):
            if len(st.items) == 1 and self.sym(st.items[0].context_expr, env) == ("tracercm",):
                ov = st.items[0].optional_vars
                if ov is None or isinstance(ov, ast.Name):
                    if isinstance(ov, ast.Name):
                        env[ov.id] = ("pure",)
                    inner, term, _ = self.block(st.body, env, fname, stack, allow_return=False)
                    flat = flatten(inner, None)
                    if term is None and [a for a in flat if a != "pure"] == ["exec"]:
                        return [acts_item("tracedExec")]
            return [self.unknown(st, fname)]
        if isinstance(st, ast.FunctionDef) and not st.decorator_list:
            env[st.name] = ("func", st, env)     # a local helper: inlined where it is called
            return []
        return [self.unknown(st, fname)]

    def block(self, stmts, env, fname, stack, allow_return):
        """-> (items, how the block ends: None / 'return' / 'raise', returned value)."""
        items = []
        for st in stmts:
            if isinstance(st, ast.Return):
                if not allow_return:
                    items.append(self.unknown(st, fname, "return inside try / with"))
                    continue
                if st.value is None:
                    return items, "return", ("const", None)
                r = self.value_items(st.value, env, fname, stack)
                if r is None:
                    items.append(self.unknown(st, fname))
                    return items, "return", ("pure",)
                items += r[0]
                return items, "return", r[1]
            if isinstance(st, ast.If):
                verdict = self.const(st.test, env)
                if verdict is None:
                    items.append(self.unknown(st, fname, "condition not decided by threaded=False"))
                    continue
                sub, term, ret = self.block(st.body if verdict else st.orelse, env, fname, stack, allow_return)
                items += sub
                if term is not None:
                    return items, term, ret
                continue
            if isinstance(st, ast.Try):
                items.append(self.try_item(st, env, fname, stack))
                continue
            new = self.stmt(st, env, fname, stack)
            items += new
            if new and new[-1].kind == "acts" and new[-1].acts and new[-1].acts[-1] == "reraise":
                return items, "raise", None
        return items, None, None

    def try_item(self, st, env, fname, stack):
        if getattr(ast, "TryStar", None) is not None and isinstance(st, ast.TryStar):
            return self.unknown(st, fname, "except*")
        body, _, _ = self.block(st.body, env, fname, stack, allow_return=False)
        handlers = []
        for h in st.handlers:
            for c in self.catch_names(h.type, env):
                henv = dict(env)
                henv["@handler"] = True
                if h.name:
                    henv[h.name] = ("exc",)
                handlers += self.expand_handler(list(h.body), henv, fname, stack, c, frozenset())
        orelse, _, _ = self.block(st.orelse, dict(env), fname, stack, allow_return=False)
        final_env = {k: v for k, v in env.items() if k != "@handler"}
        final, _, _ = self.block(st.finalbody, final_env, fname, stack, allow_return=False)
        return Item("try", body=body, handlers=handlers, orelse=orelse, final=final)

    def dispatch_test(self, st, env):
        """`if isinstance(<caught>, classes)` (also `not`, `or`) -> (catch names, negated) or None."""
        if not isinstance(st, ast.If):
            return None

        v = self.sym(st.test, env)
        if v is not None and v[0] == "isinst":
            return list(v[1]), v[2]
        return None

    def expand_handler(self, stmts, env, fname, stack, catch, known_not):
        """One `except <catch>` body -> the clauses it is equivalent to: [(catch name, items)]."""
        items = []
        for i, st in enumerate(stmts):
            d = self.dispatch_test(st, env)
            if d is None:
                sub, term, _ = self.block([st], env, fname, stack, allow_return=False)
                items += sub
                if term is not None:
                    break
                continue
            classes, neg = d
            yes, no = (st.orelse, st.body) if neg else (st.body, st.orelse)
            rest = stmts[i + 1:]
            if "unknown" in classes:
                items.append(self.unknown(st, fname, "dispatch on a class that is not modelled"))
                continue
            if "baseException" in classes or (catch != "baseException" and catch in classes):
                verdict = True
            elif catch == "baseException" and all(c in known_not for c in classes):
                verdict = False
            else:
                verdict = None
            if verdict is not None:
                out = self.expand_handler(list(yes if verdict else no) + rest, env, fname, stack, catch, known_not)
                return [(c, items + its) for c, its in out]
            if catch != "baseException":
                # e.g. `except Exception as e: if isinstance(e, SystemExit)`: an intersection is not a clause
                items.append(self.unknown(st, fname, "dispatch inside a clause narrower than BaseException"))
                continue
            out = []
            for c in classes:
                if c in known_not:
                    continue
                for c2, its in self.expand_handler(list(yes) + rest, dict(env), fname, stack, c, frozenset()):
                    out.append((c2, list(items) + its))
            for c2, its in self.expand_handler(list(no) + rest, dict(env), fname, stack, catch,
                                               frozenset(known_not | set(classes))):
                out.append((c2, list(items) + its))
            return out
        return [(catch, items)]

    # ---- entry ---------------------------------------------------------------------------------------------

    def read_execute(self, name="_execute"):
        fn = self.methods.get(name)
        if fn is None:
            self.note("no method %s in class %s" % (name, self.class_name))
            return [Item("unknown", func=name, lo=0, hi=0, simple=False, src="<missing>")]
        a = fn.args
        params = [p.arg for p in a.posonlyargs + a.args]
        env = {p: ("pure",) for p in params}
        if params:
            env[params[0]] = ("self",)
        # the model is about the non-threaded path: the 4th parameter after self (`run` / `call` / `evaluate` pass
        # it positionally), by name if the signature changed
        if "threaded" in params:
            env["threaded"] = ("const", False)
        elif len(params) >= 5:
            env[params[4]] = ("const", False)
        if a.vararg is not None:
            env[a.vararg.arg] = ("pure",)
        if a.kwarg is not None:
            env[a.kwarg.arg] = ("pure",)
        items, term, ret = self.block(fn.body, env, name, [name], allow_return=True)
        if term != "return" or ret != ("self",):
            self.note("%s returns something that is not the sandbox" % name)
            items.append(Item("unknown", func=name, lo=fn.lineno, hi=fn.end_lineno, simple=False,
                              src="return value is not self"))
        return items


# ----------------------------------------------------------------------------------------------------------------
# items -> ladder

def flatten(items, fill):
    """Items of one part -> Act names.  `fill(item)` may replace an unknown simple statement by measured acts."""
    out = []
    for it in items:
        if it.kind == "acts":
            out += it.acts
        elif it.kind == "unknown":
            got = fill(it) if (fill is not None and it.simple) else None
            out += got if got is not None else ["unknown"]
        else:
            out.append("unknown")               # a `try` nested where the ladder has no place for it
    return out


def to_parts(items, fill, notes):
    parts = {"pre": [], "body": [], "handlers": [], "orelse": [], "final": [], "post": []}
    tries = [i for i, it in enumerate(items) if it.kind == "try"]
    if not tries:
        notes.append("no try statement on the non-threaded path of _execute")
        parts["pre"] = flatten(items, fill)
        parts["body"] = ["unknown"]
        return parts
    t = items[tries[0]]
    parts["pre"] = flatten(items[:tries[0]], fill)
    parts["body"] = flatten(t.body, fill)
    parts["handlers"] = [(c, flatten(its, fill)) for c, its in t.handlers]
    parts["orelse"] = flatten(t.orelse, fill)
    parts["final"] = flatten(t.final, fill)
    parts["post"] = flatten(items[tries[0] + 1:], fill)
    if len(tries) > 1:
        notes.append("second try statement")
    return parts


# ----------------------------------------------------------------------------------------------------------------
# simulation: Python mirror of stepAct / stepActs / planTry / plan in lean/PedalModel/SandboxExec.lean, on events

class Depths:
    """Depth bookkeeping of `_start_mocking` / `_stop_mocking` / `_stop_patches` as probed (shared by the stubs of
    the measurement and by the simulation, so that 'stop on empty stacks raises' means the same in both)."""

    def __init__(self, mock):
        self.m = mock
        self.p = 0
        self.o = 0
        self.hit_empty = False      # a stack was popped while empty (Lean: the marker Prim.hitEmpty)

    def start(self):
        self.o += self.m["startPushesStdout"]
        self.p += self.m["startPushesPatches"]

    def stop_patches(self):
        """-> True when the call raises"""
        if self.p == 0:
            self.hit_empty = True
        if self.p == 0 and self.m["stopPatchesEmptyRaises"]:
            return True
        self.p = max(0, self.p - 1)
        return False

    def stop(self):
        for _ in range(max(0, self.m["stopPopsPatches"])):
            if self.stop_patches():
                return True
        for _ in range(max(0, self.m["stopPopsStdout"])):
            if self.o == 0:
                self.hit_empty = True
            if self.o == 0 and self.m["popStdoutEmptyRaises"]:
                return True
            self.o = max(0, self.o - 1)
        return False


def sig_catches(sig, catch, who):
    if catch == "exception":
        return sig["isException"] if who == "student" else True
    if catch == "systemExit":
        return sig["isSystemExit"] if who == "student" else False
    if catch == "baseException":
        return True
    return False


def simulate(parts, sig, mock):
    """-> (events, outcome) with outcome 'returned' / 'student' / 'internal'."""
    ev = []
    d = Depths(mock)

    def act(a, cur):
        if a == "pure":
            return None
        if a in ("clearException", "pushContext", "bumpContextId"):
            ev.append(a)
            return None
        if a == "startMocking":
            d.start()
            ev.append(a)
            return None
        if a == "stopMocking":
            if d.stop():
                ev.append("stopMocking!")
                return "internal"
            ev.append(a)
            return None
        if a == "stopPatches":
            if d.stop_patches():
                ev.append("stopPatches!")
                return "internal"
            ev.append(a)
            return None
        if a == "compile":
            return "student" if sig["kind"] == "compileFailed" else None
        if a in ("exec", "tracedExec"):
            ev.append(a)
            return "student" if sig["kind"] == "raised" else None
        if a == "capture":
            if cur is None:
                ev.append("unknown")
                return "internal"
            fails = (sig["captureFails"] or sig["injected"]) if cur == "student" else sig["injected"]
            ev.append(("captureFail:" if fails else "captureOk:") + cur)
            return "internal" if fails else None
        if a == "reraise":
            return cur if cur is not None else "internal"
        ev.append("unknown")
        return None

    def acts(xs, cur):
        for a in xs:
            s = act(a, cur)
            if s is not None:
                return s
        return None

    s = acts(parts["pre"], None)
    if s is not None:
        return ev, s
    s1 = acts(parts["body"], None)
    if s1 is None:
        s2 = acts(parts["orelse"], None)
    else:
        s2 = s1
        for c, body in parts["handlers"]:
            if sig_catches(sig, c, s1):
                s2 = acts(body, s1)
                break
    s3 = acts(parts["final"], None)
    s = s3 if s3 is not None else s2
    if s is not None:
        return ev, s
    s = acts(parts["post"], None)
    return ev, (s if s is not None else "returned")


# ----------------------------------------------------------------------------------------------------------------
# measurement

EVENT_ACT = {"captureOk:student": "capture", "captureOk:internal": "capture", "captureFail:student": "capture",
             "captureFail:internal": "capture", "stopMocking!": "stopMocking", "stopPatches!": "stopPatches"}


class ProbeUnavailable(Exception):
    pass


_SENTINEL_STDOUT = io.StringIO()


class _StubCM:
    def __init__(self, state):
        self.state = state

    def __enter__(self):
        self.state["traced"] += 1
        return self

    def __exit__(self, *exc):
        self.state["traced"] -= 1
        return False


class _StubTrace:
    def __init__(self, state):
        self.state = state

    def as_filename(self, filename, code):
        return _StubCM(self.state)


def scenarios():
    out = [{"name": "normal", "kind": "normal", "cls": None}]
    for label, bases in (("E", (Exception,)), ("S", (SystemExit,)), ("ES", (SystemExit, Exception)),
                         ("B", (BaseException,))):
        out.append({"name": "raised:" + label, "kind": "raised", "cls": type("Probe" + label, bases, {})})
    out.append({"name": "compile", "kind": "compileFailed", "cls": SyntaxError})
    full = []
    for sc in out:
        for mode in ("ok", "student-fails", "all-fail"):
            if sc["kind"] == "normal" and mode == "student-fails":
                continue
            s = dict(sc)
            s["capture"] = mode
            s["name"] = sc["name"] + "/" + mode
            cls = sc["cls"]
            s["sig"] = {"kind": sc["kind"],
                        "isException": bool(cls and issubclass(cls, Exception)),
                        "isSystemExit": bool(cls and issubclass(cls, SystemExit)),
                        "captureFails": mode == "student-fails" and sc["kind"] != "normal",
                        "injected": mode == "all-fail"}
            full.append(s)
    return full


def _shallow(value):
    if isinstance(value, list):
        return ("list", [id(x) for x in value])
    if isinstance(value, dict):
        return ("dict", sorted((repr(k), id(v)) for k, v in value.items()))
    if isinstance(value, (set, frozenset)):
        return ("set", sorted(id(x) for x in value))
    return ("id", id(value))


def probe_execute(mock, module_obj, module_file=None):
    """Measured traces of the real `Sandbox._execute` (non-threaded) on an instrumented sandbox.
    -> {"runs": [{"name", "sig", "events": [(event, stack)], "outcome", "lines", "unlogged"}]} or raises ProbeUnavailable."""
    from pedal.core.report import Report
    from pedal.core.submission import Submission
    from pedal.sandbox.data import SandboxContextKind
    Sandbox = module_obj.Sandbox
    state = {"log": None, "traced": 0, "depths": None, "exc": None, "mode": "ok", "kind": "normal"}
    module_file = inspect.getsourcefile(Sandbox) if module_file is None else module_file

    def stack_lines():
        """(function, line) of every frame of the sandbox module the current event happened under, outermost first"""
        out, f = [], sys._getframe(1)
        while f is not None:
            if f.f_code.co_filename == module_file:
                out.append((f.f_code.co_name, f.f_lineno))
            f = f.f_back
        return tuple(reversed(out))

    def log(event):
        if state["log"] is not None:
            state["log"].append((event, stack_lines()))

    def is_students(e):
        if state["exc"] is not None:
            return e is state["exc"]
        return (state["kind"] == "compileFailed" and isinstance(e, SyntaxError)
                and getattr(e, "filename", None) == "answer.py")

    class LogList(list):
        def append(self, x):
            log("pushContext")
            list.append(self, x)

    class ProbeSandbox(Sandbox):
        def clear_exception(self):
            log("clearException")

        def _start_mocking(self, context):
            state["depths"].start()
            log("startMocking")

        def _stop_mocking(self, context):
            if state["depths"].stop():
                log("stopMocking!")
                raise IndexError("pop from empty list (probe)")
            log("stopMocking")

        def _stop_patches(self):
            if state["depths"].stop_patches():
                log("stopPatches!")
                raise IndexError("pop from empty list (probe)")
            log("stopPatches")

        def _capture_exception(self, exception, exc_info, code, filename):
            who = "student" if is_students(exception) else "internal"
            fails = state["mode"] == "all-fail" or (state["mode"] == "student-fails" and who == "student")
            log(("captureFail:" if fails else "captureOk:") + who)
            if fails:
                raise RuntimeError("recording fails (probe)")
            return False

        def _execute_with_timeout(self, *a, **k):
            log("unknown")
            return self

        @property
        def exception(self):
            return self.__dict__.get("_verif_exception")

        @exception.setter
        def exception(self, value):
            self.__dict__["_verif_exception"] = value
            if state["log"] is not None:
                log("clearException" if value is None else "unknown")

        @property
        def _next_context_id(self):
            return self.__dict__.get("_verif_next_context_id", 0)

        @_next_context_id.setter
        def _next_context_id(self, value):
            old = self.__dict__.get("_verif_next_context_id")
            self.__dict__["_verif_next_context_id"] = value
            if state["log"] is not None:
                log("bumpContextId" if (old is not None and value == old + 1) else "unknown")

    def exec_logger():
        log("tracedExec" if state["traced"] > 0 else "exec")

    runs = []
    keep = (sys.stdout, time.sleep, sys.gettrace())
    # `Sandbox._stop_mocking(self, ...)` (class-qualified call) must reach the stubs too: for the duration of the
    # measurement the stubs also sit on the class itself
    stubbed = ("clear_exception", "_start_mocking", "_stop_mocking", "_stop_patches", "_capture_exception")
    originals = {n: Sandbox.__dict__[n] for n in stubbed if n in Sandbox.__dict__}
    try:
        for n in originals:
            setattr(Sandbox, n, ProbeSandbox.__dict__[n])
        for sc in scenarios():
            report = Report()
            report.contextualize(Submission(main_code="x = 1\n"))
            try:
                sb = ProbeSandbox(report)
                sb.trace = _StubTrace(state)
                sb._context = LogList(sb._context)
                # the stubs never touch the real stacks: a sentinel entry in each makes any use of them visible
                sb._current_patches.append(())
                sb._current_stdout.append(_SENTINEL_STDOUT)
            except Exception as e:
                raise ProbeUnavailable("cannot build the instrumented sandbox: %r" % (e,))
            exc = sc["cls"]("probe") if sc["kind"] == "raised" else None
            state.update(log=[], traced=0, depths=Depths(mock), exc=exc, mode=sc["capture"], kind=sc["kind"])
            if sc["kind"] == "compileFailed":
                code = "x = (\n"
            elif sc["kind"] == "raised":
                code = "__verif_exec__()\nraise __verif_exc__\n"
            else:
                code = "__verif_exec__()\n"
            sb.data["__verif_exec__"] = exec_logger
            sb.data["__verif_exc__"] = exc
            before = {k: _shallow(v) for k, v in vars(sb).items()}
            globals_before = (sys.stdout, time.sleep, dict(sys.modules), dict(builtins.__dict__))
            lines = set()

            def tracer(frame, event, arg, lines=lines):
                if frame.f_code.co_filename != module_file:
                    return None
                if event == "line":
                    lines.add((frame.f_code.co_name, frame.f_lineno))
                return tracer
            outcome = "returned"
            sys.settrace(tracer)
            try:
                try:
                    result = sb._execute(code, "answer.py", SandboxContextKind.RUN, False)
                    if result is not sb:
                        state["log"].append(("unknown", ()))
                except TypeError as e:
                    if not state["log"]:
                        raise ProbeUnavailable("cannot call _execute(code, filename, kind, False): %r" % (e,))
                    outcome = "internal"
                except BaseException as e:
                    outcome = "student" if is_students(e) else "internal"
            finally:
                sys.settrace(None)
            events = list(state["log"])
            state["log"] = None
            after = {k: _shallow(v) for k, v in vars(sb).items()}
            logged = {"_context", "_verif_next_context_id", "_verif_exception", "data", "trace"}
            unlogged = sorted(k for k in set(before) | set(after)
                              if k not in logged and before.get(k) != after.get(k)
                              and not (k == "feedback" and getattr(sb, "feedback", 0) is None))
            ga = (sys.stdout, time.sleep, dict(sys.modules), dict(builtins.__dict__))
            if ga[0] is not globals_before[0]:
                unlogged.append("sys.stdout")
            if ga[1] is not globals_before[1]:
                unlogged.append("time.sleep")
            if ga[2].keys() != globals_before[2].keys() or any(ga[2][k] is not globals_before[2][k] for k in ga[2]):
                unlogged.append("sys.modules")
            if ga[3].keys() != globals_before[3].keys() or any(ga[3][k] is not globals_before[3][k] for k in ga[3]):
                unlogged.append("builtins")
            runs.append({"name": sc["name"], "sig": sc["sig"], "events": events, "outcome": outcome,
                         "lines": lines, "unlogged": unlogged})
    finally:
        for n, f in originals.items():
            setattr(Sandbox, n, f)
        sys.stdout, time.sleep = keep[0], keep[1]
        sys.settrace(keep[2])
    return {"runs": runs}


def measured_fill(measured):
    """-> fill(item): the acts measured under the lines of an unknown simple statement, or None."""
    if measured is None:
        return None
    dirty = [r["name"] for r in measured["runs"] if r["unlogged"]]

    def fill(item):
        if dirty or not item.lo:
            return None
        span = range(item.lo, item.hi + 1)
        seen = []
        ran = 0
        for r in measured["runs"]:
            if not any(fn == item.func and ln in span for fn, ln in r["lines"]):
                continue
            ran += 1
            evs = [EVENT_ACT.get(e, e) for e, stack in r["events"]
                   if any(fn == item.func and ln in span for fn, ln in stack)]
            seen.append(evs)
        if not ran:
            return None
        longest = max(seen, key=len)
        if not longest or "unknown" in longest:
            return None                   # nothing logged: whatever the statement does is not something modelled
        if any(evs != longest[:len(evs)] for evs in seen):
            return None
        return list(longest)
    return fill


# ----------------------------------------------------------------------------------------------------------------

def build_ladder(module_src, mock, module_obj=None, module_file=None, probe=True):
    """-> (parts, notes, info).  `parts` as translate_sandbox renders them."""
    instance = None
    if module_obj is not None:
        try:
            from pedal.core.report import Report
            from pedal.core.submission import Submission
            report = Report()
            report.contextualize(Submission(main_code="x = 1\n"))
            instance = module_obj.Sandbox(report)
        except Exception:
            instance = None
    reader = Reader(module_src, module_obj=module_obj, instance=instance)
    items = reader.read_execute()
    notes = reader.notes
    info = {"source": "read", "measured": "not attempted", "filled": []}
    measured = None
    if probe:
        try:
            measured = probe_execute(mock, module_obj, module_file)
            info["measured"] = "%d scenarios" % len(measured["runs"])
        except ProbeUnavailable as e:
            info["measured"] = "unavailable: %s" % (e,)
            notes.append("measurement of _execute unavailable: %s" % (e,))
        except Exception as e:                       # the probe must never take the check down
            info["measured"] = "unavailable: %r" % (e,)
            notes.append("measurement of _execute failed: %r" % (e,))
    read_parts = to_parts(items, None, [])
    fill = measured_fill(measured)
    filled = []

    def fill_and_note(item):
        got = fill(item) if fill is not None else None
        if got is not None:
            filled.append("%s line %d `%s` measured as %s" % (item.func, item.lo, item.src[:60], got))
        return got
    parts = to_parts(items, fill_and_note if fill is not None else None, notes)
    for f in dict.fromkeys(filled):
        notes.append("statement taken from the measurement: " + f)
    info["filled"] = list(dict.fromkeys(filled))
    if info["filled"]:
        info["source"] = "read + measured statements"
    info["read_well_formed"] = "unknown" not in render_acts(read_parts)
    # cross-check: the ladder must reproduce every measured trace
    if measured is not None:
        bad = []
        for r in measured["runs"]:
            ev, out = simulate(parts, r["sig"], mock)
            real = [e for e, _ in r["events"]]
            if ev != real or out != r["outcome"]:
                bad.append("%s: ladder gives %s -> %s, measured %s -> %s" % (r["name"], ev, out, real, r["outcome"]))
        info["cross_check"] = "agree on %d scenarios" % len(measured["runs"]) if not bad else "DISAGREE"
        if bad and "unknown" not in render_acts(parts):
            notes.append("the ladder read from the source does not reproduce the measured behaviour of _execute: "
                         + bad[0][:300] + (" (+%d more)" % (len(bad) - 1) if len(bad) > 1 else ""))
            parts["pre"] = parts["pre"] + ["unknown"]
        info["disagreements"] = bad[:6]
    else:
        info["cross_check"] = "not available"
    return parts, notes, info


def render_acts(parts):
    out = list(parts["pre"]) + list(parts["body"]) + list(parts["orelse"]) + list(parts["final"]) + list(parts["post"])
    for c, body in parts["handlers"]:
        out.append(c)
        out += body
    return out

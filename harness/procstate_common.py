"""
C13, operation level: the same sequence of operations on REAL pedal objects (MAIN_REPORT, the feedback classes,
Feedback._pools, the tool registry's lazy reset, pedal.types.new_types.BUILTIN_MODULES) and on the Lean model
(driver_c13, request `sess`), observation by observation.

A session (JSON-able, stored literally in replays):
  {"classes": [{"name": "U0", "base": "gently", "attrs": {"title": "T"}}],
   "ops": [{"op": "call", "method": "suppress"}, {"op": "poke", "field": "result"},
           {"op": "fb", "cls": "U0", "attrs": ["title"], "trig": true},
           {"op": "ov", "cls": "runtime_error", "fields": {"title": "X"}},
           {"op": "ovp", "cls": "gently", "pool": "A", "fields": {"title": "P"}},
           {"op": "use", "tool": "sandbox"}, {"op": "mut", "tool": "source"}, {"op": "tifa", "k": 3},
           {"op": "resolve", "probes": [["runtime_error", "title"]]}, {"op": "clear"}]}
"""
import json

from common import enc_str, dec_str, use_repo

use_repo()

from pedal.core.feedback import Feedback                       # noqa: E402
from pedal.core.report import MAIN_REPORT, Report              # noqa: E402
from pedal.core.submission import Submission                  # noqa: E402
from pedal.core import commands, formatting                    # noqa: E402
import pedal.types.new_types as new_types                      # noqa: E402
import pedal.tifa                                              # noqa: E402,F401  (registers the tool)
import pedal.sandbox                                           # noqa: E402,F401
import pedal.source                                            # noqa: E402,F401
import pedal.cait                                              # noqa: E402,F401
import pedal.assertions                                        # noqa: E402,F401

ATTRS = ["title", "message_template", "else_message", "priority", "justification"]
_ABSENT = object()
#: fields whose content lives in a dedicated part of the model's state (tool data, registrations)
STRUCTURAL = {"_tool_data", "overridden_feedbacks"}
#: a mutation of these may leave the initial value behind (finalize_pools with no pools): only "model fresh => real fresh"
REVERSIBLE = {"chosen_pool"}
CALLABLE_METHODS = ["suppress", "hide_correctness", "add_hook", "set_formatter", "start_group", "set_pools",
                    "contextualize", "add_class_hook"]
TOOLS = ["source", "sandbox", "cait", "assertions", "tifa"]
MARK = "__verif_c13_marks__"


def lib_classes():
    from pedal.sandbox import feedbacks as sf
    from pedal.tifa import feedbacks as tf
    return {"Feedback": Feedback, "gently": commands.gently, "explain": commands.explain,
            "compliment": commands.compliment, "runtime_error": sf.runtime_error, "type_error": sf.type_error,
            "name_error": sf.name_error, "unused_variable": tf.unused_variable}


CONSTRUCTIBLE = ["Feedback", "gently", "explain", "compliment"]


def _all_lib():
    seen = []
    for c in lib_classes().values():
        for k in c.__mro__:
            if k is not object and k not in seen:
                seen.append(k)
    return seen


_SAVED = None


def _snapshot():
    global _SAVED
    if _SAVED is None:
        _SAVED = [(k, {a: k.__dict__[a] for a in ATTRS if a in k.__dict__}) for k in _all_lib()]


def hygiene():
    """put the process back (robustly: the tree under test may be the one whose clear() is broken)"""
    _snapshot()
    try:
        MAIN_REPORT.clear()
    except Exception:       # noqa: BLE001
        pass
    for k, attrs in _SAVED:
        for a in ATTRS:
            if a in attrs:
                if k.__dict__.get(a, _ABSENT) is not attrs[a]:
                    setattr(k, a, attrs[a])
            elif a in k.__dict__:
                delattr(k, a)
        if "_override_backups" in k.__dict__ and k is not Feedback:
            delattr(k, "_override_backups")
    Feedback._override_backups = None
    Feedback._pools.clear()
    fresh = Report()
    for f, v in vars(fresh).items():
        setattr(MAIN_REPORT, f, v)
    new_types.reset_builtin_modules()


def aval(v):
    if v is None:
        return "AN"
    if isinstance(v, str):
        return "AS " + enc_str(v)
    return "AK " + enc_str(repr(v))


def pv(v):
    """probe value in the form the driver prints"""
    if v is _ABSENT:
        return "-"
    if v is None:
        return "N"
    if isinstance(v, str):
        return "S" + v
    return "K" + repr(v)


class RealSession:
    def __init__(self, case):
        self.case = case
        self.report = MAIN_REPORT
        self.classes = dict(lib_classes())
        for cd in case.get("classes", []):
            self.classes[cd["name"]] = type(cd["name"], (self.classes[cd["base"]],), dict(cd.get("attrs", {})))
        self.fresh = vars(Report())
        self.installed = []

    def name_of(self, k):
        for n, c in self.classes.items():
            if c is k:
                return n
        return k.__module__ + "." + k.__qualname__

    def class_table(self):
        seen, decls = [], []
        for cls in self.classes.values():
            for k in cls.__mro__:
                if k is object or k in seen:
                    continue
                seen.append(k)
                mro = [self.name_of(x) for x in k.__mro__ if x is not object]
                attrs = ["%s %s" % (enc_str(a), aval(k.__dict__[a])) for a in ATTRS if a in k.__dict__]
                decls.append(" ".join([enc_str(self.name_of(k)), str(len(mro))] + [enc_str(m) for m in mro]
                                      + [str(len(attrs))] + attrs))
        return decls

    # ---- observations -------------------------------------------------------------------------
    def is_fresh(self, f):
        v, f0 = getattr(self.report, f, _ABSENT), self.fresh[f]
        if isinstance(f0, (dict, list, set)):
            return type(v) is type(f0) and len(v) == 0
        if f0 is None:
            return v is None
        return type(v) is type(f0) and not any(v is o for o in self.installed)

    def dirty_flags(self, names):
        return {f: (not self.is_fresh(f)) for f in names}

    def pools(self):
        return {p: {a: pv(v) for a, v in d.items()} for p, d in Feedback._pools.items()}

    def registered(self):
        return sorted(self.name_of(k) for k in self.report.overridden_feedbacks)

    def module_marks(self):
        m = new_types.BUILTIN_MODULES.get("math")
        return [k for k in (m.fields if m is not None else {}) if k.startswith("verif_c13_")]

    # ---- operations ---------------------------------------------------------------------------
    def run_op(self, op, field_names):
        """-> {"halt": class name or None, ...observations in the model's vocabulary...}"""
        k, rep = op["op"], self.report
        ob = {"halt": None}
        try:
            if k == "call":
                m = op["method"]
                if m == "suppress":
                    rep.suppress("runtime")
                    rep.suppress(None, "some_label")
                elif m == "hide_correctness":
                    rep.hide_correctness()
                elif m == "add_hook":
                    rep.add_hook("pedal.report.add_feedback", lambda *a, **kw: None)
                elif m == "set_formatter":
                    f = formatting.HtmlFormatter(rep)
                    self.installed.append(f)
                    rep.set_formatter(f)
                elif m == "start_group":
                    rep.start_group("g%d" % len(rep.groups))
                elif m == "set_pools":
                    rep.set_pools(2)
                elif m == "contextualize":
                    rep.contextualize(Submission(main_code="print(1)"))
                elif m == "add_class_hook":
                    Report.add_class_hook("pedal.report.add_feedback", lambda *a, **kw: None)
                else:
                    raise ValueError("harness cannot call " + m)
            elif k == "poke":
                if op["field"] == "result":
                    rep.result = "poked"
                elif op["field"] == "resolves":
                    rep.resolves.append("poked")
                else:
                    pass        # the model ignores writes no module of the package performs
            elif k == "fb":
                cls = self.classes[op["cls"]]
                ob["attrs"] = [pv(getattr(cls, a, _ABSENT)) for a in op["attrs"]]
                ob["dirty"] = self.dirty_flags(["groups", "hooks", "class_hooks", "format"])
                cls(message="m", activate=bool(op["trig"]))
            elif k == "ov":
                self.classes[op["cls"]].override(**op["fields"])
            elif k == "ovp":
                self.classes[op["cls"]].override_for_pool(op["pool"], **op["fields"])
            elif k == "use":
                d = rep[op["tool"]]
                ob["tool"] = list(d.get(MARK, []))
                if op["tool"] == "tifa":
                    # an analysis leaves its own trace in the tool's data
                    ob["tool_len"] = len(d["analyses"]) + len(ob["tool"])
            elif k == "mut":
                d = rep[op["tool"]]
                d.setdefault(MARK, []).append("m")
            elif k == "tifa":
                from pedal.tifa import tifa_analysis
                d = rep["tifa"]
                ob["tool_len"] = len(d["analyses"]) + len(d.get(MARK, []))
                ob["modules"] = self.module_marks()
                tifa_analysis(code="import math\nmath.verif_c13_%d = 1\nprint(math.verif_c13_%d)\n" % (op["k"], op["k"]),
                              report=rep)
            elif k == "resolve":
                ob["dirty"] = self.dirty_flags([f for f in field_names if f not in STRUCTURAL])
                ob["pools"] = self.pools()
                ob["registered"] = self.registered()
                ob["probes"] = [pv(getattr(self.classes[c], a, _ABSENT)) for c, a in op["probes"]]
                rep.finalize_pools()
                rep.result = "resolved"
                rep.resolves.append("resolved")
            elif k == "clear":
                rep.clear()
            else:
                raise ValueError("unknown op " + k)
        except (AttributeError, KeyError, TypeError) as e:
            ob["halt"] = type(e).__name__
        return ob


# -------------------------------------------------------------------------------------------------
# the model side

def enc_fields(fields):
    items = ["%s %s" % (enc_str(a), aval(v)) for a, v in fields.items()]
    return " ".join([str(len(items))] + items)


def enc_op(op):
    k = op["op"]
    if k == "call":
        return "call %s %s" % (enc_str(op["method"]), enc_str("t"))
    if k == "poke":
        return "poke %s %s" % (enc_str(op["field"]), enc_str("t"))
    if k == "fb":
        return " ".join(["fb", enc_str(op["cls"]), str(len(op["attrs"]))] + [enc_str(a) for a in op["attrs"]]
                        + ["1" if op["trig"] else "0", enc_str("t")])
    if k == "ov":
        return "ov %s %s" % (enc_str(op["cls"]), enc_fields(op["fields"]))
    if k == "ovp":
        return "ovp %s %s %s" % (enc_str(op["cls"]), enc_str(op["pool"]), enc_fields(op["fields"]))
    if k == "use":
        return "use " + enc_str(op["tool"])
    if k == "mut":
        return "mut %s %s" % (enc_str(op["tool"]), enc_str("m"))
    if k == "tifa":
        return "tifa " + enc_str("verif_c13_%d" % op["k"])
    if k == "resolve":
        return " ".join(["resolve", str(len(op["probes"]))] + ["%s %s" % (enc_str(c), enc_str(a)) for c, a in op["probes"]])
    if k == "clear":
        return "clear"
    raise ValueError(k)


def _toks(s):
    return [dec_str(t) for t in s.split(",") if t]


def _dec_av(s):
    if s in ("-", "N"):
        return s
    return s[0] + dec_str(s[1:])


def parse_obs(text):
    """`halt=… obs=…` -> {"halt":…, "fields": {name: toks}, "attrs": [...], "pools": {...}, "registered": [...],
    "tools": {t: toks|None}, "modules": toks|None}"""
    head, _, obs = text.partition(" obs=")
    halt = head.split("=", 1)[1]
    out = {"halt": None if halt == "-" else dec_str(halt), "fields": {}, "attrs": [], "pools": None, "registered": None,
           "tools": {}, "modules": None}
    for o in [x for x in obs.split(";") if x]:
        tag, body = o[0], o[1:]
        if tag == "F":
            n, _, v = body.partition("=")
            out["fields"][dec_str(n)] = _toks(v)
        elif tag == "A":
            _, _, v = body.partition("=")
            out["attrs"].append(_dec_av(v))
        elif tag == "P":
            pools = {}
            for e in [x for x in body.split("/") if x]:
                p, _, fs = e.partition("~")
                d = pools.setdefault(dec_str(p), {})
                for item in [x for x in fs.split(",") if x]:
                    a, _, v = item.partition(":")
                    d[dec_str(a)] = _dec_av(v)
            out["pools"] = pools
        elif tag == "R":
            out["registered"] = sorted(_toks(body))
        elif tag == "T":
            n, _, v = body.partition("=")
            out["tools"][dec_str(n)] = None if v == "-" else _toks(v[1:])
        elif tag == "M":
            out["modules"] = _toks(body)
    return out


def model_request(sess):
    decls = sess.class_table()
    ops = [enc_op(o) for o in sess.case["ops"]]
    return " ".join(["sess", str(len(decls))] + decls + [str(len(ops))] + ops)


def compare_op(op, real, model):
    """-> list of differing aspects"""
    d = []
    if real["halt"] != model["halt"]:
        d.append("halt real=%s model=%s" % (real["halt"], model["halt"]))
        return d
    k = op["op"]
    if k == "fb":
        n = len(op["attrs"])
        if real.get("attrs") != model["attrs"][:n]:
            d.append("class attributes read: real=%r model=%r" % (real.get("attrs"), model["attrs"][:n]))
        for f, dirty in real.get("dirty", {}).items():
            if (model["fields"].get(f) != []) != dirty:
                d.append("field %s dirty real=%s model=%s" % (f, dirty, model["fields"].get(f)))
    elif k == "use" and op["tool"] == "tifa":
        mt = model["tools"].get("tifa")
        if mt is None or len(mt) != real.get("tool_len"):
            d.append("tifa tool data real=%r model=%r" % (real.get("tool_len"), mt))
    elif k == "use":
        if real.get("tool") != model["tools"].get(op["tool"]):
            d.append("tool %s real=%r model=%r" % (op["tool"], real.get("tool"), model["tools"].get(op["tool"])))
    elif k == "tifa":
        if real.get("modules") != model["modules"]:
            d.append("builtin modules real=%r model=%r" % (real.get("modules"), model["modules"]))
        mt = model["tools"].get("tifa")
        if mt is None or len(mt) != real.get("tool_len"):
            d.append("tifa tool data real=%r model=%r" % (real.get("tool_len"), mt))
    elif k == "resolve":
        for f, dirty in real["dirty"].items():
            mdirty = model["fields"].get(f) != []
            if f in REVERSIBLE and mdirty:
                continue
            if mdirty != dirty:
                d.append("field %s dirty real=%s model=%s" % (f, dirty, model["fields"].get(f)))
        if real["pools"] != model["pools"]:
            d.append("pool table real=%r model=%r" % (real["pools"], model["pools"]))
        if real["registered"] != model["registered"]:
            d.append("registered classes real=%r model=%r" % (real["registered"], model["registered"]))
        if real["probes"] != model["attrs"]:
            d.append("class attributes real=%r model=%r" % (real["probes"], model["attrs"]))
    return d


def run_sessions(driver, cases, field_names):
    """-> list of (case, real observations, model observations, differences)"""
    results, reqs, reals = [], [], []
    for case in cases:
        hygiene()
        try:
            sess = RealSession(case)
            reqs.append(model_request(sess))
            reals.append([sess.run_op(op, field_names) for op in case["ops"]])
        finally:
            hygiene()
    answers = driver.ask(reqs)
    for case, real, ans in zip(cases, reals, answers):
        if ans == "bad-request":
            results.append((case, real, None, ["driver: bad-request"]))
            continue
        model = [parse_obs(x) for x in ans.split(" | ")]
        diffs = []
        if len(model) != len(real):
            diffs.append("driver answered %d ops for %d" % (len(model), len(real)))
        else:
            for i, (op, r, m) in enumerate(zip(case["ops"], real, model)):
                for x in compare_op(op, r, m):
                    diffs.append("op %d (%s): %s" % (i, op["op"], x))
        results.append((case, real, model, diffs))
    return results


def table_info(driver):
    a = driver.ask(["tables"])[0]
    kv = dict(p.split("=", 1) for p in a.split(" ") if "=" in p)
    return {"tableOk": kv.get("tableOk") == "1", "fields": _toks(kv.get("fields", "")), "restores": kv.get("restores") == "1"}


def dumps(x):
    return json.dumps(x, sort_keys=True, default=str)

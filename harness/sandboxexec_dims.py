"""
Three dimensions of the input space of C04 / C05 that seeded defects showed to be missing (round 3):

1. ODD EXCEPTION OBJECTS - instances that are falsy / zero-length / equal to everything (also to None) / unequal
   to themselves / unhashable, that define __eq__ __hash__ __len__ __bool__ __iter__ __getitem__ __contains__
   __format__ __dir__ __reduce__ __copy__ __lt__ __call__ __int__ __slots__ __new__ __init__ __class__ oddly, and
   the ones whose truth test itself raises (hazard "truth").  Every place where pedal tests an exception object
   with `if exc` / `not exc` / `==` instead of `is None` behaves differently on them.  Through run, call, evaluate,
   also after a successful call that left a value in the target.

2. THREADED executions that END BY THEMSELVES (the time limit is C14's): sandbox.threaded = True (execution and
   imports of student files in worker threads), threaded=True passed (execution only), or only the imports threaded;
   for every history of the sweep, imports in particular.

3. NESTED / RE-ENTRANT executions on one sandbox: the running student code reaches an instructor hook - a mocked
   builtin, a function placed in its namespace, the callable given to set_input - that itself runs call() /
   evaluate() / run() on the SAME sandbox (depth 2 and 3; inner ending normally / by Exception / SystemExit /
   KeyboardInterrupt or another BaseException, propagating or caught by the hook / compile failure; one or two inner
   executions; the outer one then ending in every way too).  `_current_patches` / `_current_stdout` are stacks for
   exactly this case.

Descriptors are written down by construction, as everywhere in sandboxexec_common.
"""
import copy

import sandboxexec_common as sx

# --------------------------------------------------------------------------
# 1. odd exception objects

ODD_BODIES = [
    # tag, class body, hazards, bases it is also built on
    ("len0", ["def __len__(self):", "    return 0"], [], ["SystemExit", "KeyError", "ValueError"]),
    ("bool-false", ["def __bool__(self):", "    return False"], [], ["SystemExit", "OSError"]),
    ("problems-empty", ["def __init__(self, problems=()):", "    super().__init__(*problems)",
                        "    self.problems = list(problems)", "def __len__(self):", "    return len(self.problems)"],
     [], []),
    ("eq-everything", ["def __eq__(self, other):", "    return True", "def __hash__(self):", "    return 0"], [],
     ["SystemExit"]),
    ("eq-none-only", ["def __eq__(self, other):", "    return other is None", "__hash__ = None"], [], []),
    ("ne-itself", ["def __eq__(self, other):", "    return False", "def __ne__(self, other):", "    return True"],
     [], []),
    ("eq-raises", ["def __eq__(self, other):", "    raise ValueError('no eq')", "def __hash__(self):", "    return 0"],
     [], []),
    ("hash-raises", ["def __hash__(self):", "    raise ValueError('no hash')"], [], []),
    ("iter-empty", ["def __iter__(self):", "    return iter(())"], [], []),
    ("iter-raises", ["def __iter__(self):", "    raise ValueError('no iter')"], [], []),
    ("getitem-raises", ["def __getitem__(self, key):", "    raise ValueError('no item')"], [], []),
    ("contains-raises", ["def __contains__(self, key):", "    raise ValueError('no in')"], [], []),
    ("format-raises", ["def __format__(self, spec):", "    raise ValueError('no format')"], [], []),
    ("dir-raises", ["def __dir__(self):", "    raise ValueError('no dir')"], [], []),
    ("reduce-raises", ["def __reduce__(self):", "    raise ValueError('no reduce')"], [], []),
    ("copy-raises", ["def __copy__(self):", "    raise ValueError('no copy')", "def __deepcopy__(self, memo):",
                     "    raise ValueError('no deepcopy')"], [], []),
    ("lt-raises", ["def __lt__(self, other):", "    raise ValueError('no order')"], [], []),
    ("callable", ["def __call__(self, *args):", "    raise ValueError('called')"], [], []),
    ("int-zero", ["def __int__(self):", "    return 0", "def __index__(self):", "    return 0"], [], []),
    ("slots", ["__slots__ = ()"], ["attrW"], []),
    ("init-two-args", ["def __init__(self, a, b=2):", "    super().__init__(a, b)"], [], []),
    ("new-ignores-args", ["def __new__(cls, *args):", "    return super().__new__(cls)"], [], []),
    ("str-empty", ["def __str__(self):", "    return ''"], [], []),
    ("repr-empty", ["def __repr__(self):", "    return ''"], [], []),
    # the truth test itself fails
    ("bool-raises", ["def __bool__(self):", "    raise ValueError('no truth')"], ["truth"], ["SystemExit"]),
    ("len-raises", ["def __len__(self):", "    raise ValueError('no len')"], ["truth"], []),
    ("len-negative", ["def __len__(self):", "    return -1"], ["truth"], []),
    ("len-huge", ["def __len__(self):", "    return 10 ** 30"], ["truth"], []),
    ("bool-returns-int", ["def __bool__(self):", "    return 0"], ["truth"], []),
]
FALSY_TAGS = ("len0", "bool-false", "problems-empty", "eq-everything", "eq-none-only")


def _camel(tag):
    return "".join(p.capitalize() for p in tag.replace("-", " ").split())


def odd_exception_snippets():
    """Snippets (sandboxexec_common.snip) raising an instance of each odd class."""
    flags_of = dict(sx.USER_BASES)
    out = []
    for tag, body, hazards, more_bases in ODD_BODIES:
        for base in ["Exception"] + list(more_bases):
            name = "Odd" + _camel(tag) + ("" if base == "Exception" else base)
            arg = "" if tag == "problems-empty" else ("'boom', 2" if tag == "init-two-args" else "'boom'")
            lines = ["class %s(%s):" % (name, base)] + ["    " + l for l in body] + ["raise %s(%s)" % (name, arg)]
            shape = "odd:" + tag + ("" if base == "Exception" else ":" + base)
            if "truth" in hazards:
                shape = "exception-truth-test-raises"      # one defect family, one signature
            sn = sx.snip(lines, len(lines) - 1, name, dict(flags_of[base]), hazards=hazards, shape=shape, bases=[base])
            sn["odd"] = tag
            out.append(sn)
    return out


OK_FN = "def ok(*args, **kwargs):\n    return 7\n"


def odd_exception_histories(rng, tier):
    """Every odd class through run / call / evaluate (rotating tracer style); the falsy ones also AFTER a successful
    call that left a value in the target (`_handle_result` reading a stale one), and as the second of two failures.
    quick: the falsy / truth-test / equality ones pinned, a seeded third of the rest."""
    hists = []
    k = 0
    for sn in odd_exception_snippets():
        core = sn["odd"] in FALSY_TAGS or "truth" in sn["hazards"] or sn["odd"].startswith(("eq-", "ne-", "hash-"))
        for entry in ("run", "call", "eval"):
            style = sx.STYLES[k % 3]
            k += 1
            h = sx.gen_ops_for_snippet(rng, sn, entry, style, False)
            if core and (sn["shape"].count(":") == 1 or "truth" in sn["hazards"]):
                h[-1]["pin"] = True
            elif tier == "quick" and rng.random() > 0.34:
                continue
            hists.append(h)
        if sn["odd"] in FALSY_TAGS:
            for entry in ("call", "eval"):
                h = sx.gen_ops_for_snippet(rng, sn, entry, sx.STYLES[k % 3], False)
                k += 1
                h[0]["code"] += OK_FN
                ok = {"entry": "call", "fn": "ok", "style": "none", "inject": False, "term": ["N"], "shape": "ok-call"}
                if entry == "eval":
                    ok = {"entry": "eval", "expr": "ok()", "style": "none", "inject": False, "term": ["N"],
                          "shape": "ok-eval"}
                h = [h[0], ok, h[1]]
                h[-1]["pin"] = True
                hists.append(h)
    for h in hists:
        sx.vary(rng, h, {"main": sx.MAIN_FILE, "spell": "bare", "args": None})
    return hists


# --------------------------------------------------------------------------
# 2. threaded executions that end by themselves

THREAD_MODES = ["sandbox", "param", "import"]


def threaded(hist, mode):
    """A copy of the history with every execution run in thread mode `mode`."""
    h = copy.deepcopy(hist)
    for op in sx.walk_ops(h):
        if op["entry"] != "callmissing":
            op["threaded"] = mode
    return h


def imports_helper(hist):
    return any(op.get("helper") is not None for op in hist)


def threaded_histories(rng, tier, sweep):
    """The termination sweep again, threaded.  quick: the pinned histories that import a second student file (the
    imported file failing in each way, not compiling, behaving; every tracer style) with sandbox.threaded = True, a
    seeded sample of the other importing ones (some with only the imports threaded) and of the rest in a rotating
    mode; thorough: everything in every mode."""
    out = []
    k = 0
    for h in sweep:
        if any(op.get("inject_store") or op.get("size") for op in h):
            continue
        imp = imports_helper(h)
        if tier != "quick":
            modes = THREAD_MODES if imp else THREAD_MODES[:2]    # without an import, "import" changes nothing
        elif imp and (h[-1].get("pin") or rng.random() < 0.08):
            modes = ["sandbox"] + (["import"] if rng.random() < 0.25 else [])
        elif not imp and rng.random() < 0.05:
            modes = [THREAD_MODES[k % 2]]
            k += 1
        else:
            continue
        for m in modes:
            t = threaded(h, m)
            if imp and m == "sandbox" and h[-1].get("pin"):
                t[-1]["pin"] = True
            else:
                t[-1].pop("pin", None)
            out.append(t)
    return out


# --------------------------------------------------------------------------
# 3. nested executions

NEST_STYLES = ["none", "native", "calls"]      # the coverage tracer starts coverage.py, which is not re-entrant
VIAS = ["mock", "input", "data"]


def hook_line(via, hid):
    if via == "input":
        return "verif_reply = input(%r)" % (sx.HOOK_PROMPT + str(hid))
    return "%s(%d)" % (sx.HOOK_DATA if via == "data" else sx.HOOK_BUILTIN, hid)


def _ending(name):
    """Named endings of an execution: snippet lines (indentation 0), index of the failing line, class, flags."""
    table = {
        "normal": None,
        "exception": (["v = 1 / 0"], 0, "ZeroDivisionError", dict(exc=True)),
        "user-exception": (["class Mine(ValueError):", "    pass", "raise Mine('boom')"], 2, "Mine", dict(exc=True)),
        "keyerror": (["d = {}", "v = d['missing']"], 1, "KeyError", dict(exc=True, keyerr=True)),
        "systemexit": (["import sys", "sys.exit(3)"], 1, "SystemExit", dict(exc=False, sysexit=True)),
        "raise-systemexit": (["raise SystemExit"], 0, "SystemExit", dict(exc=False, sysexit=True)),
        "keyboardinterrupt": (["raise KeyboardInterrupt"], 0, "KeyboardInterrupt", dict(exc=False)),
        "generatorexit": (["raise GeneratorExit"], 0, "GeneratorExit", dict(exc=False)),
        "user-baseexception": (["class Halt(BaseException):", "    pass", "raise Halt('stop')"], 2, "Halt",
                               dict(exc=False)),
        "blocked-exit": (["exit()"], 0, "FunctionNotAllowed", dict(exc=True)),
        "falsy-exception": (["class Nothing(Exception):", "    def __len__(self):", "        return 0",
                             "raise Nothing()"], 3, "Nothing", dict(exc=True)),
        # exactly the base class (a tracer / handler that singles out the BASES of some special class)
        "plain-exception": (["raise Exception('plain')"], 0, "Exception", dict(exc=True)),
        # never ends by itself: the execution is started threaded with a small allowed_time and is GIVEN UP ON
        # (sandboxexec_where.timeout_histories; not part of the termination sweep / the random stream)
        "timeout": (["print('spinning')", "while True:", "    pass"], 1, "TimeoutError", dict(exc=True)),
        # the same, and the abandoned code swallows the SystemExit it is ended with and runs off its end
        "timeout-survivor": (["try:", "    while True:", "        pass", "except BaseException:",
                              "    survived = True"], 1, "TimeoutError", dict(exc=True)),
    }
    return table[name]


TIMEOUT_ENDINGS = ("timeout", "timeout-survivor")
TIMEOUT_ALLOWED = 0.2       # seconds given to an execution that is meant to time out


CONTAINED_ENDINGS = ["exception", "user-exception", "keyerror", "systemexit", "raise-systemexit", "blocked-exit",
                     "falsy-exception", "plain-exception"]
ESCAPING_ENDINGS = ["keyboardinterrupt", "generatorexit", "user-baseexception"]
MRO = {"Mine": ["Mine"] + sx.builtin_mro("ValueError"), "Halt": ["Halt", "BaseException"],
       "Nothing": ["Nothing"] + sx.builtin_mro("Exception"),
       "FunctionNotAllowed": None}


def _desc(cls, flags, frames):
    return sx.desc(cls, frames=frames, mro=MRO.get(cls, sx.builtin_mro(cls)), **flags)


class _Builder:
    """Lays out ONE main file for a tree of executions: the functions the nested call()/evaluate() executions
    need come first, then the code of the outer execution."""

    def __init__(self):
        self.lines = []
        self.next_hid = 1
        self.next_fn = 1

    def body(self, spec, indent, first_line):
        """Source lines of one execution's code (hook call first, then its ending) and its termination.
        `first_line`: 1-based line number of the first produced line in the file it lives in.
        -> (lines, term, escapes) where escapes = (cls, flags) of what leaves this execution uncaught, if anything."""
        pad = " " * indent
        lines = []
        escaping = None
        hook_at = None
        if spec.get("inner"):
            spec["hid"] = self.next_hid
            self.next_hid += 1
            lines.append(pad + hook_line(spec["via"], spec["hid"]))
            hook_at = first_line
            for inner in spec["inner"]:
                if inner.get("_escapes") and not inner.get("swallow"):
                    escaping = inner["_escapes"]
                    break
        end = _ending(spec["ending"])
        if escaping is not None:
            # the hook lets a BaseException of a nested execution through: THAT ends this execution
            cls, flags = escaping
            lines.append(pad + "print('not reached')")
            frames = [["S", hook_at], ["L", 0], ["P", 0]]
            term = ["R", _desc(cls, flags, frames)]
            spec["_escapes"] = escaping
            spec["_shape"] = "nested-escape:" + cls
            return lines, term, frames
        if end is None:
            lines.append(pad + "print('fine')")
            spec["_shape"] = "normal"
            return lines, ["N"], None
        snippet, fail_at, cls, flags = end
        at = first_line + len(lines) + fail_at
        lines += [pad + l for l in snippet]
        frames = [["S", at]] + ([["P", 0]] if spec["ending"] == "blocked-exit" else [])
        if not (flags.get("exc") or flags.get("sysexit")):
            spec["_escapes"] = (cls, flags)
        spec["_shape"] = "nested:" + spec["ending"]
        return lines, ["R", _desc(cls, flags, frames)], frames

    def define(self, spec):
        """Functions for the call/eval executions nested in `spec` (deepest first), appended to the file."""
        for inner in spec.get("inner", ()):
            self.define(inner)
            if inner["entry"] in ("call", "eval") and inner.get("expr") is None:
                name = "g%d" % self.next_fn
                self.next_fn += 1
                inner["fn"] = name
                start = len(self.lines) + 1
                self.lines.append("def %s(*args, **kwargs):" % name)
                body, term, frames = self.body(inner, 4, start + 1)
                self.lines += body + ["    return 7"]
                if term[0] == "R":
                    term[1]["frames"] = [["I", 1]] + term[1]["frames"]
                inner["_term"] = term
            elif inner["entry"] == "run":
                body, term, frames = self.body(inner, 0, 1)
                inner["_code"] = "\n".join(body) + "\n"
                inner["_term"] = term
            else:                                       # evaluate of a fixed expression
                expr, term, shape = inner["expr"]
                inner["_expr"], inner["_term"], inner["_shape"] = expr, term, shape


def _op_of(spec, style_default=None):
    op = {"entry": spec["entry"], "style": spec.get("style", style_default), "inject": False,
          "term": spec["_term"], "shape": spec["_shape"]}
    if spec["entry"] == "call":
        op["fn"] = spec.get("fn", "f")
    elif spec["entry"] == "eval":
        op["expr"] = spec["_expr"] if "_expr" in spec else "%s()" % spec.get("fn", "f")
    else:
        op["code"] = spec["_code"]
        op["spell"] = "explicit"
    for key in ("swallow", "threaded"):
        if spec.get(key):
            op[key] = spec[key]
    if spec.get("ending") in TIMEOUT_ENDINGS:
        op["timeout"] = TIMEOUT_ALLOWED
    if spec.get("inner"):
        op["via"] = spec["via"]
        op["hid"] = spec["hid"]
        op["inner"] = [_op_of(i) for i in spec["inner"]]
    return op


def build(spec):
    """spec (outer execution, with `inner` specs) -> history: [setup run if needed, the outer op]."""
    spec = copy.deepcopy(spec)
    b = _Builder()
    b.define(spec)
    defs = list(b.lines)
    if spec["entry"] == "run":
        body, term, frames = b.body(spec, 0, len(defs) + 1)
        spec["_term"], spec["_code"] = term, "\n".join(defs + body) + "\n"
        op = _op_of(spec)
        op.pop("spell", None)
        return [op]
    start = len(defs) + 1
    body, term, frames = b.body(spec, 4, start + 1)
    code = "\n".join(defs + ["def f(*args, **kwargs):"] + body + ["    return 7"]) + "\n"
    if term[0] == "R":
        term[1]["frames"] = [["I", 1]] + term[1]["frames"]
    spec["_term"] = term
    setup = {"entry": "run", "style": "none", "inject": False, "code": code, "term": ["N"], "shape": "defs"}
    return [setup, _op_of(spec)]


def _eval_direct(k):
    return sx.EVAL_DIRECT[k % len(sx.EVAL_DIRECT)]


def nested_histories(rng, tier):
    """quick: every inner ending x inner entry once (via / outer entry / outer ending / style rotating), the shapes
    of the two seeds pinned, depth 3, two inner executions, threaded; thorough: the full product at depth 2 and a
    larger sample at depth 3."""
    hists = []
    endings = ["normal"] + CONTAINED_ENDINGS + ESCAPING_ENDINGS
    outer_endings = ["normal", "exception", "systemexit", "keyboardinterrupt", "user-exception"]
    k = 0

    def add(spec, pin=False, mode=None):
        h = build(spec)
        if mode:
            h = threaded(h, mode)
        if pin:
            h[-1]["pin"] = True
        hists.append(h)

    # the two shapes of the seed's demo
    add({"entry": "run", "style": "none", "ending": "normal", "via": "input",
         "inner": [{"entry": "eval", "expr": ("2 + 3", ["N"], "eval:ok")}]}, pin=True)
    add({"entry": "run", "style": "none", "ending": "exception", "via": "mock",
         "inner": [{"entry": "call", "ending": "normal"}]}, pin=True)
    for ie in endings:
        for ientry in ("call", "eval", "run"):
            for swallow in ((False, True) if ie in ESCAPING_ENDINGS else (False,)):
                combos = [(VIAS[k % 3], ("run", "call", "eval")[(k // 3) % 3], outer_endings[k % len(outer_endings)],
                           NEST_STYLES[k % 3], (None, "none", "native", "calls")[(k // 2) % 4])]
                if tier != "quick":
                    combos = [(v, oe, oend, st, ist) for v in VIAS for oe in ("run", "call", "eval")
                              for oend in outer_endings for st, ist in (("none", None), ("native", None),
                                                                        ("calls", "native"), ("native", "calls"))]
                for via, oentry, oend, style, istyle in combos:
                    inner = {"entry": ientry, "ending": ie, "style": istyle}
                    if swallow:
                        inner["swallow"] = True
                    add({"entry": oentry, "style": style, "ending": oend, "via": via, "inner": [inner]},
                        pin=(tier == "quick"))
                k += 1
    # compile failures and fixed expressions inside
    for j in range(len(sx.EVAL_DIRECT)):
        add({"entry": ("run", "call")[j % 2], "style": NEST_STYLES[j % 3], "ending": outer_endings[j % 5],
             "via": VIAS[j % 3], "inner": [{"entry": "eval", "expr": _eval_direct(j)}]}, pin=True)
    # two executions one after the other inside one outer execution
    pairs = [("exception", "normal"), ("normal", "systemexit"), ("keyerror", "user-exception"),
             ("falsy-exception", "normal"), ("normal", "keyboardinterrupt")]
    for j, (a, c) in enumerate(pairs):
        add({"entry": ("run", "call", "eval")[j % 3], "style": NEST_STYLES[j % 3], "ending": outer_endings[j % 5],
             "via": VIAS[j % 3],
             "inner": [{"entry": "call", "ending": a}, {"entry": ("eval", "run")[j % 2], "ending": c}]}, pin=True)
    # depth 3
    deep = [("normal", "normal", "normal"), ("exception", "exception", "exception"),
            ("normal", "systemexit", "keyboardinterrupt"), ("user-exception", "normal", "user-baseexception"),
            ("systemexit", "keyerror", "normal"), ("normal", "normal", "generatorexit")]
    if tier != "quick":
        deep += [(a, c, e) for a in outer_endings for c in ("normal", "exception", "systemexit")
                 for e in ("normal", "exception", "keyboardinterrupt")]
    for j, (a, c, e) in enumerate(deep):
        for swallow in (False, True):
            innermost = {"entry": ("call", "eval", "run")[j % 3], "ending": e}
            if swallow and e in ESCAPING_ENDINGS:
                innermost["swallow"] = True
            elif swallow:
                continue
            add({"entry": ("run", "call", "eval")[j % 3], "style": NEST_STYLES[j % 3], "ending": a, "via": VIAS[j % 3],
                 "inner": [{"entry": ("call", "eval")[j % 2], "ending": c, "via": VIAS[(j + 1) % 3],
                            "style": (None, "native")[j % 2], "inner": [innermost]}]}, pin=True)
    # threaded: the outer execution, and with it every nested one, in worker threads
    base = len(hists)
    for j in range(0, base, 7 if tier == "quick" else 2):
        h = hists[j]
        if any(not sx.containable(op) and op["term"][0] != "N" for op in sx.walk_ops(h)):
            continue            # what a BaseException does to a worker thread is CPython's business
        t = threaded(h, THREAD_MODES[(j // 7) % 2])
        t[-1]["pin"] = True
        hists.append(t)
    for h in hists:
        for op in h:
            if op["entry"] == "run" and "spell" not in op and rng.random() < 0.3:
                op["spell"] = "byname"
    return hists


def random_nested_history(rng):
    via = rng.choice(VIAS)
    inner = []
    for _ in range(rng.choice([1, 1, 2])):
        spec = {"entry": rng.choice(["call", "eval", "run"]),
                "ending": rng.choice(["normal"] + CONTAINED_ENDINGS + ESCAPING_ENDINGS),
                "style": rng.choice([None, None, "none", "native", "calls"])}
        if rng.random() < 0.5:
            spec["swallow"] = True
        if rng.random() < 0.25:
            spec["via"] = rng.choice(VIAS)
            spec["inner"] = [{"entry": rng.choice(["call", "eval", "run"]),
                              "ending": rng.choice(["normal"] + CONTAINED_ENDINGS + ESCAPING_ENDINGS),
                              "swallow": rng.random() < 0.5}]
        inner.append(spec)
    # an execution that lets a BaseException through ends the hook: nothing is started after it
    cut = [i for i, s in enumerate(inner)
           if (s["ending"] in ESCAPING_ENDINGS or any(x["ending"] in ESCAPING_ENDINGS and not x.get("swallow")
                                                      for x in s.get("inner", ()))) and not s.get("swallow")]
    if cut:
        inner = inner[:cut[0] + 1]
    h = build({"entry": rng.choice(["run", "run", "call", "eval"]), "style": rng.choice(NEST_STYLES),
               "ending": rng.choice(["normal", "exception", "systemexit", "keyboardinterrupt", "user-exception"]),
               "via": via, "inner": inner})
    if rng.random() < 0.2 and all(sx.containable(op) or op["term"][0] == "N" for op in sx.walk_ops(h)):
        h = threaded(h, rng.choice(THREAD_MODES[:2]))
    return h


# --------------------------------------------------------------------------
# self-test: the descriptors against plain CPython


def selftest():
    """Every odd-exception snippet fails under plain CPython with the class and on the line of its descriptor."""
    import random
    import traceback
    rng = random.Random(0)
    bad = 0
    n = 0
    for sn in odd_exception_snippets():
        code = "\n".join(sn["lines"]) + "\n"
        n += 1
        try:
            exec(compile(code, "answer.py", "exec"), {"__name__": "__main__"})
            print("did not fail:", sn["shape"])
            bad += 1
        except BaseException as e:
            tb = traceback.extract_tb(e.__traceback__)
            line = [f.lineno for f in tb if f.filename == "answer.py"][-1]
            if type(e).__name__ != sn["cls"] or line != sn["fail_at"] + 1:
                print("descriptor wrong:", sn["shape"], type(e).__name__, line)
                bad += 1
            if isinstance(e, Exception) != bool(sn["flags"].get("exc")) or \
                    isinstance(e, SystemExit) != bool(sn["flags"].get("sysexit")):
                print("flags wrong:", sn["shape"])
                bad += 1
    hs = nested_histories(rng, "quick")
    print("odd snippets: %d, nested histories (quick): %d, executions in them: %d, wrong: %d" % (
        n, len(hs), sum(sx.count_ops(h) for h in hs), bad))
    return bad


if __name__ == "__main__":
    import sys
    sys.exit(1 if selftest() else 0)

"""
Shared machinery for C10 / C11 (CAIT tree matching):
  * abstract trees from real CaitNode trees, wire encoding for lean/PedalModel/CaitWire.lean
  * running the real `pedal.cait.cait_api.find_matches` and canonicalising its AstMaps with node PATHS
  * program corpus / generator, pattern derivation by C11's generalisation steps, pattern mutation
  * the C11 oracle (derived patterns must match with the expected bindings)
"""
import ast
import copy
import glob
import os

from common import REPO, enc_str, dec_str, use_repo

use_repo()

from pedal.cait.cait_api import find_matches, parse_program   # noqa: E402
from pedal.cait.cait_node import CaitNode                     # noqa: E402
from pedal.core.report import Report                          # noqa: E402


# --------------------------------------------------------------------------
# abstract trees

def pval(v):
    """(type name, canonical text): injective inside one type."""
    t = type(v).__name__
    if v is None:
        return (t, "")
    if isinstance(v, bool):
        return (t, "True" if v else "False")
    if isinstance(v, int):
        return (t, str(v))
    if isinstance(v, float):
        return (t, v.hex())
    if isinstance(v, str):
        return (t, v)
    if isinstance(v, bytes):
        return (t, v.hex())
    if v is Ellipsis:
        return (t, "")
    return (t, repr(v))


def item_of(v):
    if isinstance(v, ast.AST):
        return ("A",)
    return ("P",) + pval(v)


def tree_of(node, path=(), index=None):
    """CaitNode -> ('T', kind, field, flds, kids); index: id(CaitNode) -> path."""
    if index is not None:
        index[id(node)] = path
    flds = []
    for name, value in ast.iter_fields(node.astNode):
        if value is None:
            flds.append((name, "N", None))
        elif isinstance(value, list):
            flds.append((name, "L", [item_of(x) for x in value]))
        else:
            flds.append((name, "O", item_of(value)))
    kids = [tree_of(c, path + (i,), index) for i, c in enumerate(node.children)]
    return ("T", type(node.astNode).__name__, node.field, flds, kids)


def enc_item(it):
    if it[0] == "A":
        return ["A"]
    return ["P", enc_str(it[1]), enc_str(it[2])]


def enc_tree(t, out=None):
    top = out is None
    if top:
        out = []
    _, kind, field, flds, kids = t
    out += ["T", enc_str(kind), enc_str(field if isinstance(field, str) else repr(field)), str(len(flds))]
    for name, tag, val in flds:
        out.append(enc_str(name))
        out.append(tag)
        if tag == "O":
            out += enc_item(val)
        elif tag == "L":
            out.append(str(len(val)))
            for it in val:
                out += enc_item(it)
    out.append(str(len(kids)))
    for k in kids:
        enc_tree(k, out)
    return " ".join(out) if top else None


def tree_size(t):
    return 1 + sum(tree_size(k) for k in t[4])


def enc_path(p):
    return "e" if len(p) == 0 else ".".join(str(i) for i in p)


def dec_path(tok):
    return () if tok == "e" else tuple(int(x) for x in tok.split("."))


# --------------------------------------------------------------------------
# canonical matches

TBL = {"v": "symbol_table", "f": "func_table", "c": "class_table"}


def canon_real_match(m, pindex, sindex, restrict=False):
    """AstMap of the real code -> canonical dict (paths instead of objects).
    restrict=True (sub-match that inherited its parent's map): keep only this pattern's node pairs and
    the student nodes inside the searched subtree; symbol tables keep every identifier."""
    def sp(node):
        # a node that is not in the searched (sub)tree: legitimate only for what a sub-match inherited from its
        # parent; anywhere else the path ("outside",) makes the comparison / the embedding check fail
        return sindex.get(id(node), ("outside",))
    maps = sorted((pindex[id(k)], sp(v)) for k, v in m.mappings.items() if not restrict or id(k) in pindex)
    exps = {k: sp(v) for k, v in m.exp_table.items()}
    binds = {}
    for tag, attr in TBL.items():
        for key, lst in getattr(m, attr).items():
            binds[(tag, key)] = [(sym.id, sp(sym.astNode)) for sym in lst.my_list]
    root = None if m.match_root is None else sp(m.match_root)
    return {"root": root, "maps": maps, "exps": exps, "binds": binds, "conf": len(m.conflict_keys)}


def parse_model_matches(answer):
    toks = answer.split(" ")
    if toks[0] != "ok":
        return answer
    n = int(toks[1])
    pos = 2
    res = []
    for _ in range(n):
        assert toks[pos] == "M", answer[:200]
        root = None if toks[pos + 1] == "-" else dec_path(toks[pos + 1])
        nm = int(toks[pos + 2])
        pos += 3
        maps = []
        for _ in range(nm):
            maps.append((dec_path(toks[pos]), dec_path(toks[pos + 1])))
            pos += 2
        ne = int(toks[pos])
        pos += 1
        exps = {}
        for _ in range(ne):
            exps[dec_str(toks[pos])] = dec_path(toks[pos + 1])
            pos += 2
        nb = int(toks[pos])
        pos += 1
        binds = {}
        for _ in range(nb):
            binds.setdefault((toks[pos], dec_str(toks[pos + 1])), []).append(
                (dec_str(toks[pos + 2]), dec_path(toks[pos + 3])))
            pos += 4
        conf = int(toks[pos])
        pos += 1
        res.append({"root": root, "maps": sorted(maps), "exps": exps, "binds": binds, "conf": conf})
    assert pos == len(toks)
    return res


def enc_match(cm):
    """canonical match -> `M ...` tokens (for the `embed` request)."""
    out = ["M", "-" if cm["root"] is None else enc_path(cm["root"]), str(len(cm["maps"]))]
    for a, b in cm["maps"]:
        out += [enc_path(a), enc_path(b)]
    out.append(str(len(cm["exps"])))
    for k, v in cm["exps"].items():
        out += [enc_str(k), enc_path(v)]
    flat = [(t, k, i, n) for (t, k), lst in cm["binds"].items() for (i, n) in lst]
    out.append(str(len(flat)))
    for t, k, i, n in flat:
        out += [t, enc_str(k), enc_str(i), enc_path(n)]
    out.append(str(cm["conf"]))
    return " ".join(out)


def show_match(cm):
    if isinstance(cm, str):
        return cm
    return {"root": cm["root"], "maps": [list(a) + ["->"] + list(b) for a, b in cm["maps"]],
            "exps": {k: list(v) for k, v in cm["exps"].items()},
            "binds": {"%s:%s" % k: v for k, v in cm["binds"].items()}, "conf": cm["conf"]}


# --------------------------------------------------------------------------
# the real code

def index_of(node, path=(), index=None):
    """id(CaitNode) -> path, for a whole tree."""
    if index is None:
        index = {}
    index[id(node)] = path
    for i, c in enumerate(node.children):
        index_of(c, path + (i,), index)
    return index


def fields_of(node, out=None):
    if out is None:
        out = []
    out.append(node.field)
    for c in node.children:
        fields_of(c, out)
    return out


SETUPS = ("code", "submission", "source")
APIS = ("find_matches", "find_matches", "node")


class Program:
    """A student program parsed once by CAIT (one Report, as in a real grading script: every
    find_matches call on it reuses the cached CaitNode tree).

    setup = "code":       find_matches(pattern, student_code=code, report=r)
            "submission": the code is the main file (NOT called answer.py) of the report's Submission,
                          find_matches(pattern, report=r)
            "source":     as "submission", after pedal.source.verify(): CAIT takes over Source's parse
    """

    MAIN = "student_main.py"

    def __init__(self, code, setup="code"):
        self.code = code
        self.setup = setup
        self.report = Report()
        if setup == "code":
            self.sroot = parse_program(code, report=self.report)
        else:
            from pedal.core.submission import Submission
            from pedal.core.commands import contextualize_report
            contextualize_report(Submission(files={self.MAIN: code, "answer.py": "zz_not_this = 0\n"},
                                            main_file=self.MAIN), report=self.report)
            if setup == "source":
                from pedal.source import verify
                verify(report=self.report)
            self.sroot = parse_program(report=self.report)
        self.sindex = {}
        self.stree = tree_of(self.sroot, (), self.sindex)
        self.senc = enc_tree(self.stree)
        self.sfields = fields_of(self.sroot)
        self.size = len(self.sfields)

    def find_matches(self, pattern, use_previous=None):
        if self.setup == "code":
            return find_matches(pattern, student_code=self.code, report=self.report, use_previous=use_previous)
        return find_matches(pattern, report=self.report, use_previous=use_previous)

    def find_match(self, pattern, use_previous=None):
        from pedal.cait.cait_api import find_match
        kw = {} if use_previous is None else {"use_previous": use_previous}
        if self.setup == "code":
            return find_match(pattern, student_code=self.code, report=self.report, **kw)
        return find_match(pattern, report=self.report, **kw)


class RealRun:
    """One search of `pattern` in a program.

    api = "find_matches": pedal.cait.cait_api.find_matches (and find_match, which must be its first result)
          "node":         CaitNode.find_matches on the already parsed root (use_previous=False)
          "sub":          CaitNode.find_matches on the node `anchor` (a path), which was obtained from the
                          parent match as parent_match[key]; use_previous as given
          "prev":         pedal.cait.cait_api.find_matches(pattern, ..., use_previous=parent) over the WHOLE program,
                          inheriting the AstMap `parent` of an earlier match
    """

    def __init__(self, pattern, program, api="find_matches", anchor=(), parent=None, key=None, use_previous=False,
                 first=True):
        if isinstance(program, str):
            program = Program(program)
        self.program = program
        self.pattern = pattern
        self.code = program.code
        self.api = api
        self.anchor = tuple(anchor)
        self.use_previous = use_previous
        self.parent = parent
        self.exc = None
        self.matches = None     # canonical
        self.raw = None
        self.first_differs = False
        self.sroot = program.sroot
        # the pattern tree as CaitNode builds it (the matcher builds its own the same way)
        ptop = ast.parse(pattern)
        proot = CaitNode(ptop, "none", report=program.report)
        self.ptree = tree_of(proot, (), {})
        self.penc = enc_tree(self.ptree)
        multi = len(ptop.body) != 1
        if api == "prev":
            self.use_previous = use_previous = True
        if api in ("find_matches", "prev"):
            self.snode = program.sroot
            self.stree, self.senc, sindex = program.stree, program.senc, program.sindex
        else:
            self.snode = node_at(program.sroot, self.anchor)
            if api == "sub":
                self.snode = parent[key]            # AstMap.__getitem__ sets node.map = parent
                if self.snode is not node_at(program.sroot, self.anchor):
                    raise RuntimeError("anchor mismatch")
            sindex = {}
            self.stree = tree_of(self.snode, (), sindex)
            self.senc = enc_tree(self.stree)
        try:
            if api == "find_matches":
                raw = program.find_matches(pattern)
                # find_match must be find_matches[0]: on every small program, on a quarter of the large ones
                # (first=False: the exhaustive small-scope streams ask it for a quarter of their cases)
                if (first and program.size <= 60) or (len(pattern) + program.size) % 4 == 0:
                    first = program.find_match(pattern)
                    if (first is None) != (not raw) or (raw and canon_shape(first) != canon_shape(raw[0])):
                        self.first_differs = True
            elif api == "prev":
                raw = program.find_matches(pattern, use_previous=parent)
                # the other spelling: find_match(..., use_previous=parent) is the first of these
                if (len(pattern) + program.size) % 3 == 0:
                    first = program.find_match(pattern, use_previous=parent)
                    if (first is None) != (not raw) or (raw and canon_shape(first) != canon_shape(raw[0])):
                        self.first_differs = True
            else:
                raw = self.snode.find_matches(pattern, is_mod=multi, use_previous=use_previous)
        except RecursionError:
            raise
        except Exception as e:   # the property is about every pattern: an exception is an observation
            self.exc = type(e).__name__
            return
        self.raw = raw
        if raw:
            # recover the matcher's own pattern root from a mapping key that belongs to THIS pattern
            inherited = set() if parent is None or not use_previous else {id(k) for k in parent.mappings}
            # (a continued match may carry pattern nodes of a match OTHER than the one it was asked to continue: the
            # root is the one whose tree is this pattern's)
            roots = {}
            for k in raw[0].mappings:
                if id(k) in inherited:
                    continue
                while k.parent is not None:
                    k = k.parent
                roots.setdefault(id(k), k)
            if not roots:
                self.exc = "match-pairs-no-pattern-node"     # an AstMap that does not mention the pattern at all
                return
            want = _kinds(self.ptree)
            k = next((k for k in roots.values() if _kinds(tree_of(k, (), {})) == want), None)
            if k is None:
                raise RuntimeError("pattern tree rebuilt differently")
            pindex = index_of(k)
            self.matches = [canon_real_match(m, pindex, sindex, restrict=bool(inherited)) for m in raw]
        else:
            self.matches = []
        # the fields changed by root trimming must be restored after matching
        if fields_of(program.sroot) != program.sfields:
            self.exc = "student-tree-fields-not-restored"

    def request(self):
        return "match " + self.penc + " " + self.senc

    @property
    def compare_model(self):
        """the Lean port models use_previous=None only"""
        return not (self.api in ("sub", "prev") and self.use_previous)

    def embed_matches(self):
        """the matches as given to the embedding checker.  A sub-match that inherited its parent's map is
        checked on this pattern's own pairs; inherited __e__ entries of names this pattern does not use
        are dropped, inherited symbols are all kept (one identifier per key must hold across both)."""
        if self.compare_model:
            return self.matches
        names = pattern_names(self.ptree)
        # a continued match is ONE match together with the match it continues ("every _name_ placeholder is bound
        # to a single student identifier throughout the match"): what the inherited AstMap binds belongs to it,
        # whether or not the matcher copied it into the map it returns
        inherited = inherited_binds(self.parent)
        out = []
        for m in self.matches:
            binds = {k: [(i, () if n and n[0] == "outside" else n) for i, n in lst] for k, lst in m["binds"].items()}
            for k, idents in inherited.items():
                have = {i for i, _ in binds.get(k, [])}
                extra = [(i, ()) for i in idents if i not in have]
                if extra:
                    binds[k] = binds.get(k, []) + extra
            out.append({"root": m["root"], "maps": m["maps"], "conf": m["conf"],
                        "exps": {k: v for k, v in m["exps"].items() if k in names},
                        "binds": binds})
        return out

    def embed_request(self):
        ms = self.embed_matches()
        return ("embed " + self.penc + " " + self.senc + " " + str(len(ms)) + " " +
                " ".join(enc_match(m) for m in ms))


def _kinds(t, out=None):
    """node kinds of an abstract tree in preorder"""
    if out is None:
        out = []
    out.append(t[1])
    for k in t[4]:
        _kinds(k, out)
    return out


def inherited_binds(parent):
    """{(table tag, key): [identifier, ...]} of an AstMap given as use_previous"""
    out = {}
    if parent is None:
        return out
    for tag, attr in TBL.items():
        for key, lst in getattr(parent, attr).items():
            out[(tag, key)] = list(dict.fromkeys(sym.id for sym in lst.my_list))
    return out


def _flex(node):
    a = node.astNode
    return isinstance(a, ast.BinOp) and isinstance(a.op, (ast.Add, ast.Mult))


def cross_field_pairs(run):
    """How the real matches of `run` pair nodes standing in DIFFERENT AST fields:
    ("below-commutative", n) pairs at or below a `+` / `*` node of the pattern, operands themselves excepted
    (operands may swap sides; below them the matcher compares no field at all: the recorded open finding),
    ("elsewhere", n) anything else (the matcher is supposed to compare fields there)."""
    below = elsewhere = 0
    for m in run.raw or []:
        for k, v in m.mappings.items():
            if k.parent is None or v is m.match_root or k.field == v.field:
                continue
            if k.field == "none" or v.field == "none":
                continue
            if k.parent is not None and _flex(k.parent):
                continue                                  # an operand: left / right may swap
            n, under = k, False
            while n is not None:
                if _flex(n):
                    under = True
                    break
                n = n.parent
            if under:
                below += 1
            else:
                elsewhere += 1
    return below, elsewhere


def pattern_names(t, out=None):
    """identifiers of the Name nodes of an abstract tree"""
    if out is None:
        out = set()
    if t[1] == "Name":
        for name, tag, val in t[3]:
            if name == "id" and tag == "O" and val[0] == "P":
                out.add(val[2])
    for k in t[4]:
        pattern_names(k, out)
    return out


def canon_shape(m):
    """identity-free shape of a real AstMap (to compare find_match with find_matches[0])."""
    return (sorted((type(k.astNode).__name__, k.tree_id, type(v.astNode).__name__, v.tree_id)
                   for k, v in m.mappings.items()),
            sorted((k, v.tree_id) for k, v in m.exp_table.items()),
            sorted((t, k, tuple(sym.id for sym in lst.my_list)) for t in TBL.values()
                   for k, lst in getattr(m, t).items()),
            None if m.match_root is None else m.match_root.tree_id)


def node_at(root, path):
    n = root
    for i in path:
        n = n.children[i]
    return n


def compare(real, model):
    """list of field names on which the canonical results differ (empty = agree)."""
    if isinstance(model, str):
        return ["model:" + model[:40]]
    if len(real) != len(model):
        return ["count %d vs %d" % (len(real), len(model))]
    diffs = []
    for i, (a, b) in enumerate(zip(real, model)):
        for key in ("root", "maps", "exps", "binds", "conf"):
            if a[key] != b[key]:
                diffs.append("match%d.%s" % (i, key))
    return diffs


# --------------------------------------------------------------------------
# programs

CORPUS_PAIRS = [
    # shapes of tests/test_cait.py
    ("_accu_ = 0\nfor _item_ in _list_:\n    _accu_ = _accu_ + _item_\nprint(_accu_)",
     "fun = 0\nfor a in b:\n    fun = fun + a\nprint(fun)"),
    ("fun = 1", "fun = 1\nfun = 1"), ("_a_ = 1", "fun = 1\nfun = 2"),
    ("for ___ in ___:\n    pass", "for x in y:\n    for z in w:\n        pass"),
    ("for _i_ in ___:\n    ___ = _i_", "for x in y:\n    z = x\n    q = x"),
    ("_sum_ = _sum_ + _item_", "total = total + x\ntotal = x + total"),
    ("print(__exp__)", "print(a + b)\nprint(1, 2)"),
    ("def _f_(_a_):\n    return _a_", "def g(x):\n    return x\ndef h(y):\n    return 2"),
    ("def _f_():\n    pass\n_f_()", "def g():\n    return 1\ng()\nh()"),
    ("class _C_:\n    pass", "class D(B):\n    x = 1"),
    ("_var_._method_()", "weather.get_weather()"), ("weather._method_()", "weather.get_weather()"),
    ("_var_.get_weather()", "weather.get_weather()"), ("_var_([__str1__])", 'print(["price"])'),
    ("_var_", 'print("fun")'), ("_x_ < 3", "a < 3 < b"), ("if ___:\n    pass", "if a:\n    x = 1\nelse:\n    y = 2"),
    ("___ = ___.append(___)", "x = y.append(1)"), ("__e__.append(___)", "y.z.append(1)"),
    ("import _a_", "import b"), ("from ___ import ___", "from m import a"),
    # borderline behaviours (design_probes/t3.py, t10.py) and repaired defects
    ("1", "x = True"), ("1", "x = 1.0"), ("True", "x = 1"), ("1.0", "x = 1"), ("'a'", "x = 'a'"),
    ("b'a'", "x = 'xyz'"), ("1j", "x = 2j"), ("...", "x = 5"), ("b'a'", "x = b'a'"), ("1j", "x = 1j"),
    ("global a", "def f():\n    global a, b"), ("global b", "def f():\n    global a, b"),
    ("global a, b", "def f():\n    global a, b"), ("nonlocal a", "def f():\n    a = 1\n    def g():\n        nonlocal a\n"),
    ("import a", "import a, b"), ("from m import a", "from m import b, a"),
    ("x[1:] + 0", "x[:1] + 0"), ("x[1:]", "x[:1]"), ("f(a=1) * 2", "f(1) * 2"),
    ("(lambda _b_=3: 1) + 0", "(lambda b=3: 1) + 0"), ("(lambda _b_: 1) + 0", "(lambda b=c: 1) + 0"),
    ("print(x.__class__)", "print(x.__class__)"), ("def f(__a__):\n    pass", "def f(__a__):\n    pass"),
    ("x.__e__", "x.y"), ("_f_()\n_f_ = 1", "g()\nh = 1"), ("_f_(_f_)", "g(h)"), ("_f_(_f_)", "g(g)"),
    ("def _f_(_f_):\n    pass", "def g(h):\n    pass"), ("class _f_:\n    _f_ = 1", "class A:\n    b = 1"),
    ("_a_ + _a_", "x + y"), ("_a_ + _a_", "x + x"), ("__e__ + __e__", "(a*b) + c"), ("1 + 2", "2 + 1"),
    ("1 - 2", "2 - 1"), ("_a_ * _b_", "x * x"), ("x = 1\ny = 2", "y = 2\nx = 1"), ("x = 1\ny = 2", "x = 1\nz=3\ny = 2"),
    ("a < b", "a < b < c"), ("[1, 2]", "[1, 3, 2]"), ("print(1, 2)", "print(1, 3, 2)"), ("{1: 2}", "{1: 3, 2: 2}"),
    ("{**a}", "{**a, 1:2}"), ("x = 1\nfoo()", "x = 1\ny = foo()"), ("foo()", "y = foo()"), ("pass", "y = foo()"),
    ("x = 1\npass", "x = 1\ny=2"), ("__e__\n__e__", "x=1\ny=2"), ("___\nx = 1", "y = 2\nx = 1"),
    ("for x in y:\n    pass\nelse:\n    a = 1", "for x in y:\n    a = 1"), ("_a_ = 1\n_b_ = 2", "x = 1\nx = 2"),
    ("a and b", "a and c and b"), ("x: int = 1", "x: str = 1"), ("x += 1", "x -= 1"), ("_o_.y", "x.z"),
    ("[_a_ for _a_ in ___]", "[y for y in x]"), ("lambda _x_: _x_", "lambda y: y"), ("f(_x_, _x_)", "f(a, b, a)"),
    ("", "x=1"), ("x", ""), ("x = 1", "x = 1"), ("print(x)", "print(x)"), ("_f_", "g()"), ("_f_._g_()", "g.h()"),
    ("f'{x}'", "f'{x} a'"), ("u'a'", "'a'"), ("'a'", "u'a'"), ("async def _f_():\n    pass", "async def g():\n    pass"),
    ("try:\n    pass\nexcept E as e:\n    pass", "try:\n    x=1\nexcept E as e:\n    y=1"),
    ("with ___ as _f_:\n    pass", "with open(x) as g:\n    y = g.read()"), ("return ___", "def f():\n    return 1"),
    ("while _x_ < ___:\n    _x_ += 1", "while i < 10:\n    i += 1\n    j += 1"),
    ("if __name__ == '__main__':\n    pass", "if __name__ == '__main__':\n    main()"),
    ("x = -1", "x = 1"), ("not a", "-a"), ("a if b else c", "c if b else a"), ("x = y = 1", "x = y = 1"),
    ("(a + b) + c", "c + (b + a)"), ("a + b * c", "c * b + a"), ("_a_ + _b_ + _a_", "x + y + x"),
    ("def _f_(a, b=1, *c, d, **e):\n    pass", "def g(a, b=1, *c, d, **e):\n    return a"),
    ("____", "x = 1"), ("_x", "_x = 1"), ("__x_", "__x_ = 1"), ("_a__", "x = 1"),
]


# (program, pattern derived from it by C11's steps, {placeholder: identifier}) — hand-made derivations whose
# random counterparts are rare: an argument with a default value below `+`, dunder attribute / argument names,
# placeholders on every identifier-carrying position
CORPUS_DERIVED = [
    ("(lambda b=3: 1) + 0", "(lambda _b_=3: 1) + 0", {"_b_": "b"}),
    ("(lambda b=3: b) * 2", "(lambda _b_=3: _b_) * 2", {"_b_": "b"}),
    ("print(x.__class__)", "print(x.__class__)", {}),
    ("print(x.__class__)", "print(_x_.__class__)", {"_x_": "x"}),
    ("def f(__a__):\n    pass", "def f(__a__):\n    pass", {}),
    ("class A:\n    def __init__(self, __v__=1):\n        self.__v__ = __v__", "def __init__(_self_, __v__=1):\n    _self_.__v__ = __v__",
     {"_self_": "self"}),
    ("def f(a, b=1, *c, d, **e):\n    return a", "def f(_a_, b=1, *c, d, **e):\n    return _a_", {"_a_": "a"}),
    ("x = [i for i in y if i]", "x = [_i_ for _i_ in y if _i_]", {"_i_": "i"}),
    ("g()\ng = 1", "_g_()\n_g_ = 1", {"_g_": "g"}),
    ("def g(g):\n    return g", "def g(_g_):\n    return _g_", {"_g_": "g"}),
    ("x = 1 + True + 1.0", "x = 1 + True + 1.0", {}),
    ("def f():\n    global a, b\n    a = b", "def f():\n    global a, b\n    _a_ = b", {"_a_": "a"}),
]

# C11's last sentence — "generalising a matching pattern this way never loses the match" — for patterns that
# are NOT taken from the program: (matching pattern, its generalisation, program)
MONO_TRIPLES = [
    ("x[a+b:]", "x[___:]", "x[:a+b]"), ("x[a*b:]", "x[__e__:]", "y = x[:a*b]"),
    ("x[:a+1]", "x[:___]", "x[a+1:]"), ("x[(a+b)[c:]:]", "x[(a+b)[___:]:]", "x[:(a+b)[:c]]"),
    ("x[a-b:]", "x[___:]", "x[:a-b]"), ("_a_ + 1", "___ + 1", "y = 1 + x"), ("f(a + b)", "f(___)", "f(b + a)"),
    ("_x_ = _x_ + 1", "_x_ = ___ + 1", "i = 1 + i"), ("for _i_ in ___:\n    print(_i_)", "for ___ in ___:\n    print(___)", "for k in d:\n    print(k)"),
    ("(a + b)(c)", "___(c)", "f(a + b, c)"), ("[a + b, c]", "[___, c]", "[c, a + b, c]"),
]


# matches within matches on fixed inputs: (parent pattern, program, key of the parent's __e__, sub-pattern,
# what C11 expects of the sub-pattern inside the bound subtree: None = nothing, {} = a match, {k: v} = bindings:
# for a _var_ key the identifier, for an __expr__ key the SOURCE TEXT of the node it must be bound to).
# Every entry is run as node.find_matches(sub, use_previous=False / True) and as
# cait_api.find_matches(sub, program, use_previous=parent match).
SUB_CORPUS = [
    ("_v_ = __e__", "x = y", "__e__", "_v_", None),
    ("_v_ = __e__", "x = y + 1", "__e__", "_v_ + 1", None),
    ("_v_ = __e__", "x = x + 1", "__e__", "_v_ + 1", None),
    ("_v_ = __e__", "x = x + 1", "__e__", "_w_ + 1", {"_w_": "x"}),
    ("for _i_ in ___:\n    __e__", "for k in d:\n    print(k, j)", "__e__", "print(_i_, ___)", None),
    ("def _f_(_a_):\n    __e__", "def g(x):\n    return g(x - 1)", "__e__", "_f_(___)", None),
    ("print(__e__)", "print(a.b(c))", "__e__", "a.b(c)", {}),
    # a placeholder the inherited match bound to the SAME identifier (pedal's test_use_previous, last case)
    ("for _i_ in ___:\n    __e__", "for k in d:\n    print(k)", "__e__", "print(_i_)", {"_i_": "k"}),
    ("for _i_ in ___:\n    __e__", "for k in d:\n    n = n + k", "__e__", "_s_ = _s_ + _i_", {"_i_": "k", "_s_": "n"}),
    # an __expr__ NAME the inherited match has already bound is used again by the sub-pattern (as pedal's
    # test_use_previous does with '_var2_[__expr__]'): it stands for the sub-expression it replaced
    ("for _var_ in ___:\n    if __expr__ == ___:\n        pass",
     'for reports in weather_reports:\n    if reports["Station"]["City"] == "Chicago":\n        trend.append(reports["Data"])',
     "__expr__", "_v2_[__expr__]", {"_v2_": "reports", "__expr__": "'Station'"}),
    ("_v_ = __e__", "x = f(a + b, c)", "__e__", "f(__e__, c)", {"__e__": "a + b"}),
    ("_v_ = __e__", "x = f(a + b, c)", "__e__", "___(__e__, ___)", {"__e__": "a + b"}),
    ("_v_ = __e__", "x = a[b][c]", "__e__", "__e__[c]", {"__e__": "a[b]"}),
    ("_v_ = __e__", "x = a[b][c]", "__e__", "_w_[__e__]", {"_w_": "a", "__e__": "b"}),
    ("_v_ = __e__", "x = (a + b) - c", "__e__", "__e__ - c", {"__e__": "a + b"}),
    ("_v_ = __e__", "x = (a + b) * c", "__e__", "___ * __e__", {"__e__": "c"}),
    ("_v_ = __e__", "x = (a + b) * c", "__e__", "__e__ * c", {"__e__": "a + b"}),
    ("_v_ = __e__", "x = 1 + a[b]", "__e__", "__e__[b] + 1", {"__e__": "a"}),
    ("_v_ = __e__", "x = [y.z, (a + b) * c]", "__e__", "[___, __e__ * c]", {"__e__": "a + b"}),
    ("for _i_ in ___:\n    __e__", "for k in d:\n    print(k + 1)", "__e__", "print(__e__)", {"__e__": "k + 1"}),
    ("if __e__:\n    __f__", "if a < b:\n    t = a", "__f__", "_t_ = __e__", {"_t_": "t", "__e__": "a"}),
]


def repo_program_files():
    files = sorted(glob.glob(os.path.join(REPO, "examples", "**", "*.py"), recursive=True))
    files += sorted(glob.glob(os.path.join(REPO, "tests", "datafiles", "*.py")))
    return files


def repo_programs(max_nodes=400):
    """(name, source) for parsable example / test data programs below a node bound."""
    res = []
    for f in repo_program_files():
        try:
            with open(f, encoding="utf-8") as fh:
                src = fh.read()
            tree = ast.parse(src)
        except Exception:
            continue
        n = sum(1 for _ in ast.walk(tree))
        if 0 < n <= max_nodes:
            res.append((os.path.relpath(f, REPO), src))
    return res


NAMES = ["a", "b", "x", "y", "total", "item", "f", "g"]
ATTRS = ["append", "val", "get"]
CONSTS = ["0", "1", "2", "1.0", "0.0", "True", "False", "None", "''", "'s'", "'t'", "b'q'", "b''", "3j", "..."]
BINOPS = ["+", "+", "*", "-", "/", "%"]
CMPOPS = ["<", "==", ">=", "!=", "in"]


_ODD = []


def odd_plain_names():
    if not _ODD:
        _ODD.extend(n for n in boundary_spellings() if spelling_class(n) == "plain" and "_" in n)
    return _ODD


class Gen:
    """Seeded generator of small Python programs over a small vocabulary (so that patterns taken from one
    program often embed in another in several ways)."""

    def __init__(self, rng):
        self.rng = rng

    def name(self):
        # now and then an identifier spelled almost like a placeholder (concrete by the property's reading)
        if self.rng.random() < 0.05:
            return self.rng.choice(odd_plain_names())
        return self.rng.choice(NAMES)

    def expr(self, d=0):
        r = self.rng.random()
        if d >= 3 or r < 0.30:
            return self.name() if self.rng.random() < 0.6 else self.rng.choice(CONSTS)
        if r < 0.50:
            return "%s %s %s" % (self.atom(d + 1), self.rng.choice(BINOPS), self.atom(d + 1))
        if r < 0.62:
            args = [self.expr(d + 1) for _ in range(self.rng.randint(0, 3))]
            if self.rng.random() < 0.25:
                args.append("%s=%s" % (self.rng.choice(["key", "end"]), self.expr(d + 1)))
            fn = self.name() if self.rng.random() < 0.6 else "%s.%s" % (self.name(), self.rng.choice(ATTRS))
            return "%s(%s)" % (fn, ", ".join(args))
        if r < 0.70:
            return "%s %s %s" % (self.atom(d + 1), self.rng.choice(CMPOPS), self.atom(d + 1))
        if r < 0.76:
            return "%s.%s" % (self.name(), self.rng.choice(ATTRS))
        if r < 0.82:
            sl = self.rng.choice(["%s", "%s:", ":%s", "%s:%s"])
            return "%s[%s]" % (self.name(), sl % tuple(self.atom(d + 1) for _ in range(sl.count("%s"))))
        if r < 0.88:
            return "[%s]" % ", ".join(self.expr(d + 1) for _ in range(self.rng.randint(0, 3)))
        if r < 0.91:
            # items are key: value pairs or ** spreads, in every position (Dict.keys holds None for a spread)
            return "{%s}" % ", ".join("**%s" % self.atom(d + 1) if self.rng.random() < 0.35 else
                                      "%s: %s" % (self.atom(d + 1), self.atom(d + 1)) for _ in range(self.rng.randint(1, 3)))
        if r < 0.94:
            return "%s %s %s" % (self.atom(d + 1), self.rng.choice(["and", "or"]), self.atom(d + 1))
        if r < 0.96:
            return "(lambda %s: %s)" % (self.rng.choice(["", "a", "a, b=1", "*a", "*, a, b=x", "a, *, b=y, x", "*a, b, x=1, y"]), self.expr(d + 1))
        if r < 0.98:
            return "-%s" % self.atom(d + 1)
        return "[%s for %s in %s]" % (self.expr(d + 1), self.name(), self.atom(d + 1))

    def atom(self, d):
        e = self.expr(d)
        if any(c in e for c in " -") and not (e[0] in "([{" and e[-1] in ")]}" and e.count(e[0]) == 1):
            return "(" + e + ")"
        return e

    def block(self, d, ind):
        n = self.rng.randint(1, 3 if d < 2 else 2)
        return "".join(self.stmt(d, ind) for _ in range(n))

    def stmt(self, d, ind):
        pad = "    " * ind
        r = self.rng.random()
        if d >= 2 or r < 0.35:
            k = self.rng.random()
            if k < 0.45:
                return "%s%s = %s\n" % (pad, self.name(), self.expr())
            if k < 0.60:
                return "%s%s %s= %s\n" % (pad, self.name(), self.rng.choice(["+", "-", "*"]), self.expr(1))
            if k < 0.85:
                return "%s%s\n" % (pad, self.expr())
            if k < 0.90:
                return "%spass\n" % pad
            if k < 0.95:
                return "%sglobal %s\n" % (pad, ", ".join(sorted(set(self.name() for _ in range(self.rng.randint(1, 2))))))
            return "%simport %s\n" % (pad, self.name())
        if r < 0.50:
            s = "%sif %s:\n%s" % (pad, self.expr(1), self.block(d + 1, ind + 1))
            if self.rng.random() < 0.4:
                s += "%selse:\n%s" % (pad, self.block(d + 1, ind + 1))
            return s
        if r < 0.65:
            return "%sfor %s in %s:\n%s" % (pad, self.name(), self.expr(1), self.block(d + 1, ind + 1))
        if r < 0.73:
            return "%swhile %s:\n%s" % (pad, self.expr(1), self.block(d + 1, ind + 1))
        if r < 0.90:
            args = self.rng.choice(["", "a", "a, b", "x, y=1", "*a, **b", "a", "a, b", "*, a, b=x", "x, *a, b, y=g(1)", "x=1, *, a=y, b"])
            body = self.block(d + 1, ind + 1)
            if self.rng.random() < 0.5:
                body += "%s    return %s\n" % (pad, self.expr(1))
            return "%sdef %s(%s):\n%s" % (pad, self.rng.choice(["f", "g", "main"]), args, body)
        if r < 0.95:
            return "%sclass %s:\n%s" % (pad, self.rng.choice(["A", "B"]), self.block(d + 1, ind + 1))
        return "%stry:\n%s%sexcept %s:\n%s" % (pad, self.block(d + 1, ind + 1), pad, self.rng.choice(["E", "E as e"]),
                                               self.block(d + 1, ind + 1))

    def program(self):
        n = self.rng.randint(1, 4)
        src = "".join(self.stmt(0, 0) for _ in range(n))
        ast.parse(src)
        return src


# statement shapes with identifier slots: two statements made from the same shape with different identifiers
# match the same pattern statement SHALLOWLY but bind its placeholders differently (decoys of each other)
DECOY_SLOT = ["{v} = 0", "{v} = {k}", "print({v})", "{v} += 1", "{v} = {v} + {w}", "{v}.append({w})", "{f}({v})",
              "{v} = {f}({w})", "{v} = []", "{v} = {w}", "print({v}, {w})", "{v} = {v} * {k}", "{v}[{k}] = {w}",
              "{v} = {w}.val", "{f}({v}, {v})", "{v} = {f}()", "{v}.get()", "return {v}", "{v} = {w} if {v} else {k}",
              "for {v} in {w}:\n    print({v})", "if {v} < {k}:\n    {v} = {k}", "while {v}:\n    {v} -= 1",
              "for {v} in {w}:\n    {w} = {v}\n    {f}({v})", "if {v}:\n    print({v})\nelse:\n    print({w})",
              "def {f}({v}):\n    return {v}", "with {f}() as {v}:\n    {v}.get()"]
DECOY_FIXED = ["c = 1", "pass", "done()", "print('end')", "c += 1", "import m", "c = [1, 2]", "global c"]
DECOY_IDS = ["a", "b", "t"]
DECOY_WRAP = ["{B}", "{B}", "def main():\n{I}", "for i in r:\n{I}", "if c:\n    z = 1\nelse:\n{I}", "while c:\n{I}",
              "try:\n{I}finally:\n    z = 1\n", "try:\n    z = 1\nfinally:\n{I}", "class K:\n{I}",
              "if c:\n{I}", "for i in r:\n    z = 1\nelse:\n{I}", "def main(c):\n    if c:\n{II}"]


def _indent(src, n):
    pad = "    " * n
    return "".join(pad + line + "\n" for line in src.rstrip("\n").split("\n"))


class DecoyGen:
    """Programs in which several statements of one body have the same shape and differ only in identifiers,
    interleaved: k instances of one template (2-4 slot statements sharing a variable), merged at random with
    each instance's order kept, plus fixed statements between them.  A pattern that keeps one instance (the
    others dropped, the variable replaced by a placeholder) has to keep several partial matches with different
    bindings alive and to discard the mixed ones."""

    def __init__(self, rng):
        self.rng = rng

    def body(self):
        rng = self.rng
        ids = DECOY_IDS[:rng.choice([2, 2, 3])]
        template = []
        for _ in range(rng.randint(2, 3)):
            shape = rng.choice(DECOY_SLOT[:18] if rng.random() < 0.7 else DECOY_SLOT)
            # the same w / k / f for every instance, so that instances differ ONLY in the shared variable
            template.append((shape, rng.choice(["w", "q"] + ids), rng.choice(["0", "1", "''", "None"]),
                             rng.choice(["f", "g"])))
        seqs = []
        for v in ids:
            inst = [shape.format(v=v, w=w, k=k, f=f) for shape, w, k, f in template]
            if rng.random() < 0.25:
                del inst[rng.randrange(len(inst))]          # an incomplete instance
            seqs.append(inst)
        seqs.append([rng.choice(DECOY_FIXED) for _ in range(rng.randint(0, 2))])
        if rng.random() < 0.3:
            shape, w, k, f = rng.choice(template)
            seqs.append([shape.format(v=rng.choice(ids), w=rng.choice(ids), k=k, f=f)])   # one more stray decoy
        # random merge, each sequence's own order kept
        out = []
        seqs = [s for s in seqs if s]
        while seqs:
            s = rng.choice(seqs)
            out.append(s.pop(0))
            if not s:
                seqs.remove(s)
        if rng.random() < 0.15:
            rng.shuffle(out)
        return out

    def program(self):
        rng = self.rng
        stmts = self.body()
        wrap = rng.choice(DECOY_WRAP)
        in_def = wrap.startswith("def ")
        stmts = [s for s in stmts if in_def or not s.startswith("return")] or ["pass"]
        stmts = [s for s in stmts if not (s.startswith("global") and not in_def)] or ["pass"]
        stmts = [s for s in stmts if not (s.startswith("import") and wrap.startswith("class"))] or ["pass"]
        flat = "".join(s + "\n" for s in stmts)
        src = wrap.format(B=flat, I=_indent(flat, 1), II=_indent(flat, 2))
        if rng.random() < 0.3:
            src = rng.choice(["z = 0\n", "import m\n", "a = 0\n"]) + src
        if rng.random() < 0.3:
            src = src + rng.choice(["print(a)\n", "z = 1\n", "b = 0\n"])
        ast.parse(src)
        return src


# --------------------------------------------------------------------------
# programs for CONTINUED matches (find_matches(..., use_previous=match), match['__e__'].find_matches(...)): one
# BINDER statement whose variable the parent pattern binds to a placeholder, and a body made of look-alike
# instances of statement shapes - one over the bound variable, one over a decoy - so that a continued pattern
# rooted at ANY node kind has a genuine occurrence (over the bound variable) and a rival one (over the decoy).
# {v} the bound variable / the decoy, {w} another identifier, {k} a constant, {f} a function name, t a target.

KIND_SHAPES = [
    # binary operations, non-commutative and commutative, nested both ways
    "t = {w} - {v}", "t = {v} / {k}", "t = {w} // {v}", "t = {v} % {w}", "t = {v} ** {k}", "t = {w} @ {v}",
    "t = {v} << {k}", "t = {w} >> {v}", "t = {w} | {v}", "t = {v} & {w}", "t = {w} ^ {v}",
    "t = {w} + {v}", "t = {v} * {k}", "t = ({w} - {v}) * {k}", "t = {w} + {v} * {q}", "t = {w} - ({v} + {k})",
    "t = {v} * ({w} + {q})", "t = {q} + ({v} + {w})", "t = ({w} / {v}) - ({v} % {q})",
    # other expression kinds
    "t = -{v}", "t = not {v}", "t = ~{v}", "t = {v} < {w}", "t = {w} == {v} != {k}", "t = {w} in {v}",
    "t = {v} is None", "t = {v} and {w}", "t = {w} or {v} or {k}", "t = [{v}, {w}]", "t = ({w}, {v})",
    "t = {{{v}: {w}}}", "t = {{{k}: {v}}}", "t = {{{w}, {v}}}", "t = {w}[{v}]", "t = {v}[{k}:]", "t = {w}[{k}:{v}]",
    "t = {v}.val", "t = {v}.val.get", "t = {w}.get({v})", "t = {f}({v})", "t = {f}({w}, key={v})", "t = {f}(*{v})",
    "t = {f}(**{v})", "t = {v}({w})", "t = {v} if {w} else {k}", "t = {w} if {v} else {k}",
    "t = lambda {v}: {v} - {w}", "t = lambda: {v}", "t = [{v} for z in {w}]", "t = [z for z in {v} if z]",
    "t = {{z: {v} for z in {w}}}", "t = ({v} for z in {w})", "t = {{{v} for z in {w}}}", "t = f'{{{v}}}!'",
    "t = [*{v}, {w}]", "t = ({w} := {v})",
    # statement kinds
    "{v}({w})", "{v}.append({w})", "print({v})", "print({w}, {v}, sep={k})", "t: int = {v}", "t += {v}", "{v} -= {k}",
    "{v} = {v} + {w}", "del {v}", "assert {v}, {w}", "assert {w} < {v}", "t[{v}] = {w}", "t.val = {v}",
    "{v}, t = {w}", "t = u = {v}", "raise E({v})", "raise {v} from {w}", "pass\n{f}({v})",
    "if {v} < {k}:\n    t = {v}", "if {w}:\n    pass\nelse:\n    t = {v}", "if {w}:\n    pass\nelif {v}:\n    pass",
    "while {v}:\n    {v} -= 1", "while {w}:\n    t = {v}\nelse:\n    pass", "for z in {v}:\n    print(z)",
    "for t in {w}:\n    print({v})", "for {v} in {w}:\n    {f}({v})", "with {f}({v}) as z:\n    pass",
    "with {w} as {v}:\n    {v}.get()", "try:\n    t = {v}\nexcept E:\n    pass",
    "try:\n    pass\nexcept E:\n    t = {v}\nfinally:\n    {f}({v})", "def {f}2(p={v}):\n    return p",
    "def {f}3({v}):\n    return {v}", "def {f}4(*{v}, **z):\n    return {v}", "class C({v}):\n    pass",
    "class D:\n    t = {v}", "t = {k}\n{f}({v})\nt = {w}",
]
KIND_SHAPES_DEF_ONLY = ["return {v}", "return {w} - {v}", "t = (yield {v})", "t = await {v}"]
# (program text around the body, the pattern an instructor writes for the binder alone, whether it is a def)
CONT_BINDERS = [
    ("for {x} in xs:\n{I}", "for _v_ in ___:\n    pass", False),
    ("for {x} in xs:\n{I}", "for _v_ in ___:\n    __e__", False),
    ("{x} = 0\n{B}", "_v_ = 0", False),
    ("def main({x}, n):\n{I}", "def main(_v_, ___):\n    pass", True),
    ("def main({x}, n):\n{I}", "def main(_v_, ___):\n    __e__", True),
    ("while {x} < n:\n{I}", "while _v_ < ___:\n    pass", False),
    ("with open(p) as {x}:\n{I}", "with ___ as _v_:\n    __e__", False),
    ("if {x}:\n    z = 1\nelse:\n{I}", "if _v_:\n    pass", False),
    ("async def main({x}, n):\n{I}", "async def main(_v_, ___):\n    pass", True),
    ("{x} = {y} = 0\n{B}", "_v_ = _u_ = 0", False),
    ("for {x}, {y} in xs:\n{I}", "for _v_, _u_ in ___:\n    pass", False),
    ("def main({x}, {y}=0):\n{I}", "def main(_v_, _u_=0):\n    __e__", True),
]
CONT_IDS = [("item", "other"), ("a", "b"), ("x", "y"), ("total", "rest")]


def handler_kinds():
    """AST classes that have a deep_find_match_<Kind> / shallow_match_<Kind> method of their own in the matcher
    UNDER TEST (everything else goes through the generic ones)"""
    from pedal.cait.stretchy_tree_matching import StretchyTreeMatcher
    out = set()
    for name in dir(StretchyTreeMatcher):
        for prefix in ("deep_find_match_", "shallow_match_"):
            if name.startswith(prefix) and isinstance(getattr(ast, name[len(prefix):], None), type):
                out.add(name[len(prefix):])
    return sorted(out)


class ContGen:
    """program(i) -> (code, binder pattern, {placeholder: identifier} the binder pattern must bind).  The shapes are
    taken round robin, so every shape is used after len(KIND_SHAPES) / 3 programs whatever the seed."""

    def __init__(self, rng):
        self.rng = rng
        self.shapes = list(KIND_SHAPES)
        rng.shuffle(self.shapes)
        self.pos = 0

    def next_shapes(self, n, in_def):
        out = []
        for _ in range(n):
            out.append(self.shapes[self.pos % len(self.shapes)])
            self.pos += 1
        if in_def and self.rng.random() < 0.6:
            out.append(self.rng.choice(KIND_SHAPES_DEF_ONLY))
        return out

    def program(self, i):
        rng = self.rng
        wrap, binder, in_def = CONT_BINDERS[i % len(CONT_BINDERS)]
        if "await" in wrap:
            in_def = True
        x, y = CONT_IDS[(i // len(CONT_BINDERS)) % len(CONT_IDS)]
        shapes = self.next_shapes(3, in_def)
        shapes = [s for s in shapes if "await" not in s or wrap.startswith("async")]
        w, q, k, f = rng.choice(["w", "n", y]), rng.choice(["q", "n"]), rng.choice(["0", "1", "''", "None"]), rng.choice(["f", "g"])
        seqs = []
        two = "{y}" in wrap
        for v in (x, y) + (() if two or rng.random() < 0.6 else ("zz",)):
            seqs.append([s.format(v=v, w=(w if w != v else "w"), q=q, k=k, f=f) for s in shapes])
        seqs.append([rng.choice(DECOY_FIXED[:5]) for _ in range(rng.randint(0, 1))])
        out = []
        seqs = [s for s in seqs if s]
        while seqs:
            s = rng.choice(seqs)
            out.append(s.pop(0))
            if not s:
                seqs.remove(s)
        flat = "".join(s + "\n" for s in out)
        code = wrap.format(x=x, y=y, B=flat, I=_indent(flat, 1))
        ast.parse(code)
        binds = {"_v_": x}
        if "_u_" in binder:
            binds["_u_"] = y
        return code, binder, binds


# fixed witnesses for continued matches: (program, parent pattern, {placeholder: identifier} of the parent match to
# continue, continued pattern, {placeholder: identifier} a continued match must have | None = no demand beyond C10)
CONT_CORPUS = [
    ("for item in items:\n    total = total - other\n    rest = rest - item\n", "for _v_ in ___:\n    pass", {"_v_": "item"},
     "___ - _v_", {"_v_": "item"}),
    ("for item in items:\n    share = item / count\n    part = count / other\n", "for _v_ in ___:\n    pass", {"_v_": "item"},
     "_v_ / ___", {"_v_": "item"}),
    ("for item in items:\n    total = total - other\n", "for _v_ in ___:\n    pass", {"_v_": "item"}, "___ - _v_", None),
    ("for item in items:\n    s = s + other\n    s = s + item\n", "for _v_ in ___:\n    pass", {"_v_": "item"},
     "___ + _v_", {"_v_": "item"}),
    ("for item in items:\n    s = other * (s + 1)\n", "for _v_ in ___:\n    pass", {"_v_": "item"}, "_v_ * (___ + 1)", None),
    ("def f(a, b):\n    g(b)\n    g(a)\n", "def _f_(_v_, ___):\n    pass", {"_v_": "a", "_f_": "f"}, "___(_v_)", {"_v_": "a"}),
    ("def f(a, b):\n    g(b)\n    f(a)\n", "def _f_(_v_, ___):\n    pass", {"_v_": "a", "_f_": "f"}, "_f_(___)", {"_f_": "f"}),
    ("x = 0\ny = 1\nt = -y\nt = -x\n", "_v_ = 0", {"_v_": "x"}, "-_v_", {"_v_": "x"}),
    ("x = 0\ny = 1\nt = y < 2\nt = x < 2\n", "_v_ = 0", {"_v_": "x"}, "_v_ < 2", {"_v_": "x"}),
    ("x = 0\ny = 1\nprint(y)\nprint(x)\n", "_v_ = 0", {"_v_": "x"}, "print(_v_)", {"_v_": "x"}),
    ("x = 0\ny = 1\nt = y.val\nt = x.val\n", "_v_ = 0", {"_v_": "x"}, "_v_.val", {"_v_": "x"}),
    ("x = 0\ny = 1\nt = [y, 2]\nt = [x, 2]\n", "_v_ = 0", {"_v_": "x"}, "[_v_, 2]", {"_v_": "x"}),
    ("x = 0\ny = 1\nt = lambda y: y\nt = lambda x: x\n", "_v_ = 0", {"_v_": "x"}, "lambda _v_: _v_", {"_v_": "x"}),
    ("x = 0\ny = 1\nif y:\n    pass\nif x:\n    pass\n", "_v_ = 0", {"_v_": "x"}, "if _v_:\n    pass", {"_v_": "x"}),
    ("x = 0\ny = 1\ndel y\ndel x\n", "_v_ = 0", {"_v_": "x"}, "del _v_", {"_v_": "x"}),
    ("x = 0\ny = 1\nt = y\nu = y\nt = x\nu = x\n", "_v_ = 0", {"_v_": "x"}, "t = _v_\nu = _v_", {"_v_": "x"}),
    ("x = 0\ny = 1\ny += 1\nx += 1\n", "_v_ = 0", {"_v_": "x"}, "_v_ += 1", {"_v_": "x"}),
    ("x = 0\ny = 1\nclass A(y):\n    pass\nclass B(x):\n    pass\n", "_v_ = 0", {"_v_": "x"}, "class ___(_v_):\n    pass",
     {"_v_": "x"}),
    ("x = 0\ny = 1\ndef g(y):\n    pass\ndef h(x):\n    pass\n", "_v_ = 0", {"_v_": "x"}, "def ___(_v_):\n    pass", {"_v_": "x"}),
    ("x = 0\ny = 1\nt = y ** 2\nt = x ** 2\n", "_v_ = 0", {"_v_": "x"}, "_v_ ** 2", {"_v_": "x"}),
    ("x = 0\ny = 1\nt = y\n", "_v_ = 0", {"_v_": "x"}, "_v_", {"_v_": "x"}),
    ("for item in items:\n    pass\n    print(item)\n", "for _v_ in ___:\n    __e__", {"_v_": "item"}, "pass", {}),
    ("for item in items:\n    print(other)\n    print(item)\n", "for _v_ in ___:\n    __e__", {"_v_": "item"},
     "print(_v_)\npass", None),
    ("x = 0\ny = 1\nt = y - 1\nt = 1 - x\n", "_v_ = 0", {"_v_": "x"}, "_v_ - 1", None),
    ("x = 0\ny = 1\nt = f(y)[0]\nt = f(x)[0]\n", "_v_ = 0", {"_v_": "x"}, "___(_v_)[0]", {"_v_": "x"}),
    ("x = 0\ny = 1\nt = y.val.get\nt = x.val.get\n", "_v_ = 0", {"_v_": "x"}, "_v_.val.get", {"_v_": "x"}),
    ("x = 0\ny = 1\ny.go()\nx.go()\n", "_v_ = 0", {"_v_": "x"}, "_v_._m_()", {"_v_": "x", "_m_": "go"}),
    ("x = 0\ny = 1\ny()\nx()\n", "_v_ = 0", {"_v_": "x"}, "_v_()", {"_v_": "x"}),
]


# --------------------------------------------------------------------------
# nested binary operations: every shape of expression tree with n operands, every assignment of operators to its
# inner nodes, operands distinct / repeated / constant, inside every kind of statement

def bin_shapes(n):
    """all binary tree shapes with n leaves: a leaf is None, an inner node a pair"""
    if n == 1:
        return [None]
    out = []
    for i in range(1, n):
        for l in bin_shapes(i):
            for r in bin_shapes(n - i):
                out.append((l, r))
    return out


def bin_text(shape, ops, leaves):
    """fully parenthesised text; consumes ops (pre-order) and leaves (left to right)"""
    if shape is None:
        return leaves.pop(0)
    op = ops.pop(0)
    l = bin_text(shape[0], ops, leaves)
    r = bin_text(shape[1], ops, leaves)
    return "(%s %s %s)" % (l, op, r)


BIN_CONTEXTS = ["t = {E}", "def fn(p, q, r, s, u):\n    return {E}", "print({E}, k)", "if {E} > 0:\n    pass",
                "while {E}:\n    z = 1", "t[{E}] = 0", "t += {E}", "t = [{E} for i in xs]", "t = f({E}, key=0)", "{E}",
                "for i in xs:\n    t = {E}", "t = lambda: {E}", "t = {E} < 5", "t = -{E}", "assert {E}", "t = [{E}, 0]",
                "t = {{'k': {E}}}", "t = g(h({E}))", "with open({E}) as fh:\n    pass", "t = {E} if c else 0",
                "t = xs[{E}:]", "t = {E} - k", "t = k / {E}", "return_ = not {E}"]
BIN_LEAF_PLANS = ["distinct", "distinct", "repeat-ends", "repeat-inner", "same", "const-right", "const-left", "call", "attr"]


def bin_leaves(plan, n, rng):
    names = ["p", "q", "r", "s", "u"][:n]
    if plan == "repeat-ends":
        names[-1] = names[0]
    elif plan == "repeat-inner" and n >= 3:
        names[2] = names[1]
    elif plan == "same":
        names = ["p"] * n
    elif plan == "const-right":
        names[-1] = "2"
    elif plan == "const-left":
        names[0] = "2"
    elif plan == "call":
        names[rng.randrange(n)] = "f(%s)" % names[0]
    elif plan == "attr":
        names[rng.randrange(n)] = "%s.val" % names[-1]
    return names


def derive_bin(rng, code, tree, mode):
    """the instructor's pattern for a statement with nested operations: EVERY identifier of the fragment replaced by a
    placeholder of its own ("all"), some of them ("some"), all + one operand a wildcard / an __expr__ ("wild")"""
    dv = _Deriver(rng, code, tree)
    stmts = dv.statements()
    target = [st for st, _ in stmts if any(isinstance(n, ast.BinOp) for n in ast.walk(st))]
    if target and not (mode == "all" and rng.random() < 0.3):
        # the innermost statement holding the operation, or an enclosing one
        dv.take_statement(rng.choice(target[-2:]) if rng.random() < 0.7 else target[0])
    ids = dv.identifiers()
    for x in ids:
        if mode != "some" or rng.random() < 0.6:
            dv.step_var(x)
    if mode == "wild":
        dv.step_wild()
    return dv.finish()


def commuted(rng, code):
    """(pattern, its generalisation) or None: the program text with the operands of some + / * SWAPPED - a pattern
    that is not taken from the program but matches it (C10 allows the swap) - and that pattern with every identifier
    replaced by a placeholder.  C11's last sentence: if the first matches, the second must."""
    try:
        tree = ast.parse(code)
    except SyntaxError:
        return None
    flex = [n for n in ast.walk(tree) if isinstance(n, ast.BinOp) and isinstance(n.op, (ast.Add, ast.Mult))]
    if not flex:
        return None
    chosen = [n for n in flex if rng.random() < 0.5] or [rng.choice(flex)]
    for n in chosen:
        n.left, n.right = n.right, n.left
    try:
        p0 = ast.unparse(tree)
        t0 = ast.parse(p0)
    except Exception:
        return None
    if ast.dump(t0) == ast.dump(ast.parse(code)):
        return None
    d = derive_bin(rng, p0, t0, "all")
    if d is None or not d.vars:
        return None
    # the whole-program variant only: derive_bin may have taken one statement
    return p0, d.pattern


def bin_scope(rng, tier):
    """Yields (program, Derived, origin).  Every tree shape with 2, 3 and 4 operands x every assignment of {+, *, -} to
    the inner nodes (quick: half of the 4-operand assignments), plus sampled trees with further operators and up to 5
    operands (thorough: many)."""
    count = 0
    small = ["+", "*", "-"]
    wide = ["+", "*", "-", "/", "%", "**", "//", "@", "|", "<<"]
    jobs = []
    import itertools
    phase = rng.randrange(2)
    for n in (2, 3, 4):
        for shape in bin_shapes(n):
            for ops in itertools.product(small, repeat=n - 1):
                # quick: every assignment for 2 and 3 operands, every other one (which half: by the seed) for 4
                if tier == "quick" and n == 4 and (len(jobs) + phase) % 2:
                    jobs.append(None)
                    continue
                jobs.append((n, shape, list(ops)))
    jobs = [j for j in jobs if j is not None]
    extra = {"quick": 30, "thorough": 900}[tier]
    for _ in range(extra):
        n = rng.choice([3, 4, 4, 5])
        shape = rng.choice(bin_shapes(n))
        jobs.append((n, shape, [rng.choice(wide if rng.random() < 0.6 else small) for _ in range(n - 1)]))
    for n, shape, ops in jobs:
        count += 1
        plans = [BIN_LEAF_PLANS[0], BIN_LEAF_PLANS[count % len(BIN_LEAF_PLANS)]]
        if tier == "quick" and n == 4 and count % 2:
            plans = plans[:1]
        for pi, plan in enumerate(dict.fromkeys(plans)):
            e = bin_text(shape, list(ops), bin_leaves(plan, n, rng))
            ctx = BIN_CONTEXTS[(count + pi * 7) % len(BIN_CONTEXTS)]
            code = ctx.format(E=e) + "\n"
            if rng.random() < 0.3:
                code = "p = 3\nq = 2\n" + code + "print(t)\n"
            try:
                tree = ast.parse(code)
                code = ast.unparse(tree) + "\n"      # the text a student would write: no redundant parentheses
                tree = ast.parse(code)
            except SyntaxError:
                continue
            modes = ["all", rng.choice(["some", "wild", "wild"])]
            for mode in modes:
                d = derive_bin(rng, code, tree, mode)
                if d is not None:
                    yield code, d, "bin:" + mode


def respell(rng, src):
    """the same program text with other line terminators / a form feed / a non-ASCII identifier"""
    k = rng.random()
    if k < 0.34:
        return src.replace("\n", "\r\n"), "crlf"
    if k < 0.50:
        return src.replace("\n", "\r"), "cr"
    if k < 0.66:
        return "\x0c" + src.replace("\n", "\n\x0c", 1), "formfeed"
    new = rng.choice(["\u00e9t\u00e9", "\u53d8\u91cf", "na\u00efve_"])
    old = rng.choice(NAMES)
    import re as _re
    out = _re.sub(r"(?<![\w'.])%s(?![\w'])" % old, new, src)
    try:
        ast.parse(out)
    except SyntaxError:
        return src, "plain"
    return out, "non-ascii"


# --------------------------------------------------------------------------
# pattern derivation (C11's generalisation steps) and mutation

def _child_exprs(tree):
    """(parent, field, index-or-None, node) for every expression that can be replaced by a Name."""
    out = []
    for parent in ast.walk(tree):
        if isinstance(parent, (ast.JoinedStr,)):
            continue                      # literal pieces of an f-string are not sub-expressions
        if isinstance(parent, ast.FormattedValue):
            fields = [("value", parent.value)]
        else:
            fields = list(ast.iter_fields(parent))
        for field, value in fields:
            if isinstance(parent, ast.FormattedValue) and field != "value":
                continue
            items = value if isinstance(value, list) else [value]
            for idx, v in enumerate(items):
                if isinstance(v, ast.expr) and not isinstance(v, (ast.Slice,)):
                    if isinstance(parent, (ast.MatchValue, ast.MatchMapping, ast.MatchClass, ast.match_case)):
                        continue
                    if isinstance(parent, ast.Dict) and field == "values" and parent.keys[idx] is None:
                        continue          # `**x` needs no change, but keep it simple
                    out.append((parent, field, idx if isinstance(value, list) else None, v))
    return out


def _set(parent, field, idx, new):
    if idx is None:
        setattr(parent, field, new)
    else:
        getattr(parent, field)[idx] = new


def stmt_positions(tree):
    """every statement of a module with the AST path to it: list of (stmt, [(field, idx), ...])."""
    res = []

    def walk(node, trail):
        for field, value in ast.iter_fields(node):
            if isinstance(value, list):
                for i, v in enumerate(value):
                    if isinstance(v, ast.AST):
                        t = trail + [(field, i)]
                        if isinstance(v, ast.stmt):
                            res.append((v, t))
                        walk(v, t)
            elif isinstance(value, ast.AST):
                walk(value, trail + [(field, None)])
    walk(tree, [])
    return res


def ast_index(node, path=(), index=None):
    """id(ast node) -> CAIT path (children = AST-valued field items in iter_fields order, as CaitNode)."""
    if index is None:
        index = {}
    index[id(node)] = path
    i = 0
    for _, value in ast.iter_fields(node):
        if value is None:
            continue
        for v in (value if isinstance(value, list) else [value]):
            if isinstance(v, ast.AST):
                ast_index(v, path + (i,), index)
                i += 1
    return index


def copy_ast(node):
    """structural copy of an ast tree (fields and positions only: CPython shares Load()/Store() singletons
    between trees and pedal hangs a `cait_node` attribute on them, which copy.deepcopy would follow)."""
    if isinstance(node, list):
        return [copy_ast(x) for x in node]
    if not isinstance(node, ast.AST):
        return node
    new = type(node)(**{f: copy_ast(getattr(node, f, None)) for f in node._fields})
    for a in node._attributes:
        if hasattr(node, a):
            setattr(new, a, getattr(node, a))
    return new


def cait_children(node):
    """(field, child) of an ast node in CaitNode's child order"""
    out = []
    for field, value in ast.iter_fields(node):
        if value is None:
            continue
        for v in (value if isinstance(value, list) else [value]):
            if isinstance(v, ast.AST):
                out.append((field, v))
    return out


class AlignError(Exception):
    pass


def align_trees(pn, on, ppath, opath_, orig_of, stop, out):
    """pattern node pn (a copy, or a placeholder that replaced a copy) stands for original node `on`:
    record the pair and align the children first-fit in order (children may have been dropped; CPython shares
    ctx / operator singletons between nodes, so identity alone does not locate a child)."""
    out.append((ppath, opath_))
    if id(pn) in stop:
        return
    ochildren = cait_children(on)
    j = 0
    for i, (f, c) in enumerate(cait_children(pn)):
        oc = orig_of.get(id(c))
        while j < len(ochildren) and not (ochildren[j][0] == f and ochildren[j][1] is oc):
            j += 1
        if oc is None or j == len(ochildren):
            raise AlignError()
        align_trees(c, oc, ppath + (i,), opath_ + (j,), orig_of, stop, out)
        j += 1


class Derived:
    """A pattern obtained from (a statement of) a program by C11's steps, with what each placeholder
    replaced: exps[key] = (CAIT path, source) of the replaced expression in the ORIGINAL program,
    vars[key] = original identifier."""

    def __init__(self, code, pattern, exps, vars_, steps, base, align=None):
        self.code = code
        self.pattern = pattern
        self.exps = exps
        self.vars = vars_
        self.steps = steps
        self.base = base
        self.align = align      # [(pattern CAIT path, program CAIT path)] from the derivation, or None

    def gen_request(self, penc, senc, statement_exps=True):
        """`gen` request for the driver: does this case satisfy the hypotheses of the C11 theorem
        (c11_generalised_fragment_matches, through the decidable genCase)?
        statement_exps: an __e__ that is a whole expression statement stands for the statement node (it does,
        unless that statement is the whole pattern and is trimmed away: then it stands for the expression)."""
        out = ["gen", penc, senc, str(len(self.vars))]
        for k, x in self.vars.items():
            out += [enc_str(k), enc_str(x)]
        out.append(str(len(self.exps)))
        for k, v in self.exps.items():
            out += [enc_str(k), enc_path(v[2] if statement_exps and len(v) > 2 and v[2] is not None else v[0])]
        out.append(str(len(self.align)))
        for a, b in self.align:
            out += [enc_path(a), enc_path(b)]
        return " ".join(out)


class _Deriver:
    """Applies C11's generalisation steps to a structural copy of (a statement of) a program and remembers,
    for every step, what was replaced (exps / vars) and which program node every pattern node stands for."""

    def __init__(self, rng, code, tree):
        self.rng = rng
        self.code = code
        self.tree = tree
        self.work = copy_ast(tree)
        # parallel walk to map copy nodes -> original nodes
        self.orig_of = {}
        self.copy_of = {}
        for a, b in zip(ast.walk(self.work), ast.walk(tree)):
            self.orig_of[id(a)] = b
            self.copy_of[id(b)] = a
        self.opath = ast_index(tree)
        self.steps = []
        self.exps, self.vars = {}, {}
        self.placeholders = {}      # id -> node (kept alive so that ids stay unique)
        self.frag = self.work
        self.base = "program"

    def statements(self):
        return stmt_positions(self.work)

    def take_statement(self, st):
        self.frag = ast.Module(body=[st], type_ignores=[])
        self.base = type(st).__name__

    def take_statements(self, sts):
        """the fragment is a sequence of statements (copies in self.work) of one body: a multi-statement pattern"""
        self.frag = ast.Module(body=list(sts), type_ignores=[])
        self.base = "+".join(type(st).__name__ for st in sts)

    def take_expr(self, orig):
        """the fragment is ONE EXPRESSION of the program (given as a node of the original tree), as the instructor
        writes it: an expression statement, whose Module / Expr wrapping find_matches trims away - the pattern's
        root is the expression node itself.  Returns the wrapped copy (never to be replaced by a wildcard)."""
        node = self.copy_of[id(orig)]
        self.frag = ast.Module(body=[ast.Expr(value=node)], type_ignores=[])
        self.base = "expr:" + type(node).__name__
        return node

    def wild_candidates(self, exclude=()):
        return [c for c in _child_exprs(self.frag)
                if not (isinstance(c[3], ast.Name) and (c[3].id.startswith("_"))) and id(c[3]) not in exclude]

    def step_wild(self, named=None, exclude=(), pick=None):
        rng = self.rng
        cands = self.wild_candidates(exclude)
        if not cands or (pick is not None and pick >= len(cands)):
            return False
        parent, field, idx, node = rng.choice(cands) if pick is None else cands[pick]
        if named is None:
            named = rng.random() >= 0.5
        if not named:
            new = ast.Name(id="___", ctx=getattr(node, "ctx", ast.Load()))
            self.orig_of[id(new)] = self.orig_of[id(node)]
            self.placeholders[id(new)] = new
            self.steps.append("wild:" + type(node).__name__)
        else:
            key = "__e%d__" % len(self.exps)
            new = ast.Name(id=key, ctx=getattr(node, "ctx", ast.Load()))
            o = self.orig_of[id(node)]
            self.orig_of[id(new)] = o
            self.placeholders[id(new)] = new
            # a placeholder that is a whole expression statement stands for the statement: CAIT binds it
            # to the Expr node, whose only child is the replaced expression
            alt = self.opath[id(o)][:-1] if isinstance(parent, ast.Expr) else None
            self.exps[key] = (self.opath[id(o)], ast.unparse(o), alt)
            self.steps.append("exp:" + type(node).__name__)
        _set(parent, field, idx, new)
        return True

    def identifiers(self):
        frag = self.frag
        return sorted({n.id for n in ast.walk(frag) if isinstance(n, ast.Name) and not n.id.startswith("_")} |
                      {n.arg for n in ast.walk(frag) if isinstance(n, ast.arg) and not n.arg.startswith("_")})

    def step_var(self, x=None, key=None, allow_existing=False):
        frag = self.frag
        ids = self.identifiers()
        if not ids:
            return False
        if x is None:
            x = self.rng.choice(ids)
        elif x not in ids:
            return False
        forced = key is not None
        if not forced:
            key = "_%s_" % x
        if not forced and self.rng is not None and self.rng.random() < 0.2:
            # other spellings a _var_ placeholder may have (anything matching ^_[^_].*_$)
            key = self.rng.choice(["_%s1_", "_%s_v_", "_V%s_", "_%s__x_", "_%s\u00e9_"]) % x
        # the new placeholder name must not be spelled anywhere in the fragment already - not as a Name / parameter, nor
        # as a def / class name, attribute, keyword, alias, handler or global name (a program may well call a function
        # `_a_`: in the pattern that IS a placeholder, and reusing it for another identifier is not a consistent renaming)
        if not allow_existing and (key in ids or any(
                key in (getattr(n, "id", None), getattr(n, "arg", None), getattr(n, "name", None), getattr(n, "attr", None),
                        getattr(n, "asname", None)) or key in (getattr(n, "names", None) or [])
                for n in ast.walk(frag) if not isinstance(n, ast.alias) or key in (n.name, n.asname))):
            return False
        for n in ast.walk(frag):
            if isinstance(n, ast.Name) and n.id == x:
                n.id = key
            elif isinstance(n, ast.arg) and n.arg == x:
                n.arg = key
        self.vars[key] = x
        self.steps.append("var")
        return True

    def bodies(self, at_least=2):
        out = []
        for n in ast.walk(self.frag):
            for field in ("body", "orelse", "finalbody"):
                v = getattr(n, field, None)
                if isinstance(v, list) and len(v) >= at_least and all(isinstance(s, ast.stmt) for s in v):
                    out.append(v)
        return out

    def step_drop(self):
        bodies = self.bodies()
        if not bodies:
            return False
        b = self.rng.choice(bodies)
        del b[self.rng.randrange(len(b))]
        self.steps.append("drop")
        return True

    def keep_subsequence(self, b, keep):
        """drop every statement of the list b whose index is not in `keep` (siblings before, BETWEEN and after
        the kept ones)"""
        for i in range(len(b) - 1, -1, -1):
            if i not in keep:
                del b[i]
                self.steps.append("drop")

    def finish(self):
        frag, work, tree, orig_of, opath = self.frag, self.work, self.tree, self.orig_of, self.opath
        # placeholders that no longer occur (their subtree was replaced / dropped later)
        present_names = {n.id for n in ast.walk(frag) if isinstance(n, ast.Name)} | \
                        {n.arg for n in ast.walk(frag) if isinstance(n, ast.arg)}
        exps = {k: v for k, v in self.exps.items() if k in present_names}
        vars_ = {k: v for k, v in self.vars.items() if k in present_names}
        try:
            pattern = ast.unparse(ast.fix_missing_locations(frag))
            reparsed = ast.parse(pattern)
        except Exception:
            return None
        # the text must denote the tree we built (unparse/parse is not always the identity, e.g. for
        # negative constants or implicit tuples): otherwise this is not a C11-derived pattern
        if ast.dump(reparsed) != ast.dump(frag):
            return None
        # which program node every pattern node stands for (the alignment the C11 theorem's checker is given)
        align = []
        try:
            if frag is work:
                align_trees(frag, tree, (), (), orig_of, self.placeholders, align)
            else:
                for i, st in enumerate(frag.body):
                    o = orig_of[id(st)]
                    align_trees(st, o, (i,), opath[id(o)], orig_of, self.placeholders, align)
        except (AlignError, KeyError):
            align = None
        return Derived(self.code, pattern, exps, vars_, self.steps, self.base, align)


def derive(rng, code, tree, whole=None, max_steps=4):
    """tree = ast.parse(code) (the ORIGINAL, nodes keep identity through a parallel deep copy).
    0..max_steps random steps: wildcard / __e__ replacement, consistent renaming, dropping one statement."""
    dv = _Deriver(rng, code, tree)
    stmts = dv.statements()
    if whole is None:
        whole = rng.random() < 0.3 or not stmts
    if not whole:
        st, _ = rng.choice(stmts)
        dv.take_statement(st)
    n_steps = rng.randint(0, max_steps)
    for _ in range(n_steps):
        k = rng.random()
        if k < 0.45:
            dv.step_wild()
        elif k < 0.80:
            dv.step_var()
        else:
            dv.step_drop()
    return dv.finish()


def derive_decoy(rng, code, tree, max_keep=4):
    """A derivation aimed at programs with DECOY statements: the fragment is the whole program or a compound
    statement with a long body; in every statement list a random SUBSEQUENCE is kept (siblings dropped before,
    between and after the kept ones), then most identifiers are replaced by placeholders (so a placeholder
    usually occurs in several kept statements), then 0-2 sub-expressions become ___ / __e__."""
    dv = _Deriver(rng, code, tree)
    long_ = [st for st, _ in dv.statements()
             if any(isinstance(getattr(st, f, None), list) and len(getattr(st, f)) >= 3 and
                    all(isinstance(s, ast.stmt) for s in getattr(st, f)) for f in ("body", "orelse", "finalbody"))]
    if long_ and rng.random() < 0.5:
        dv.take_statement(rng.choice(long_))
    done = set()
    while True:
        todo = [b for b in dv.bodies() if id(b) not in done]
        if not todo:
            break
        b = todo[0]
        done.add(id(b))
        if rng.random() < 0.85:
            k = rng.randint(1, min(len(b), max_keep))
            dv.keep_subsequence(b, set(rng.sample(range(len(b)), k)))
    ids = dv.identifiers()
    chosen = [x for x in ids if rng.random() < 0.6]
    if ids and not chosen:
        chosen = [rng.choice(ids)]
    for x in chosen:
        dv.step_var(x)
    for _ in range(rng.choice([0, 0, 0, 1, 1, 2])):
        dv.step_wild()
    return dv.finish()


def derive_focus(rng, code, tree):
    """The instructor's pattern for ONE of several look-alike instances: in the longest statement list of the
    fragment keep the statements that mention one chosen identifier (plus up to two statements that mention none
    of the rival identifiers), drop all other siblings, and replace the chosen identifier by a placeholder."""
    dv = _Deriver(rng, code, tree)
    long_ = [st for st, _ in dv.statements()
             if any(isinstance(getattr(st, f, None), list) and len(getattr(st, f)) >= 3 and
                    all(isinstance(s, ast.stmt) for s in getattr(st, f)) for f in ("body", "orelse", "finalbody"))]
    if long_ and rng.random() < 0.4:
        dv.take_statement(rng.choice(long_))
    bodies = dv.bodies(3)
    if not bodies:
        return None
    b = max(bodies, key=len)

    def mentions(st):
        return {n.id for n in ast.walk(st) if isinstance(n, ast.Name)}
    per = [mentions(st) for st in b]
    count = {}
    for m in per:
        for x in m:
            count[x] = count.get(x, 0) + 1
    rivals = sorted(x for x, n in count.items() if n >= 2 and not x.startswith("_"))
    if not rivals:
        return None
    v = rng.choice(rivals)
    others = set(rivals) - {v}
    keep = {i for i, m in enumerate(per) if v in m and (not (m & others) or rng.random() < 0.3)}
    neutral = [i for i, m in enumerate(per) if v not in m and not (m & others)]
    rng.shuffle(neutral)
    keep |= set(neutral[:rng.choice([0, 1, 1, 2])])
    if not keep:
        return None
    if len(keep) > 5:
        keep = set(sorted(keep)[:5])
    dv.keep_subsequence(b, keep)
    dv.step_var(v)
    if rng.random() < 0.3:
        dv.step_var()
    if rng.random() < 0.25:
        dv.step_wild()
    return dv.finish()


def derive_keep(code, tree, keep, names, rng=None):
    """deterministic derivation: in the longest statement list of the program keep the statements with index in
    `keep`, then replace the identifiers `names` by placeholders"""
    dv = _Deriver(rng, code, tree)
    bodies = dv.bodies(2)
    if not bodies:
        return None
    dv.keep_subsequence(max(bodies, key=len), set(keep))
    for x in names:
        dv.step_var(x)
    return dv.finish()


# --------------------------------------------------------------------------
# field scope: programs that visit the AST fields a sub-expression / identifier can stand in - above all the LIST
# fields that may hold None beside nodes (Dict.keys of a display with ** spreads, arguments.kw_defaults of keyword-only
# parameters without a default: the only two in CPython's grammar) - with EVERY sub-expression replaced in turn by an
# __expr__ placeholder and every identifier by a _var_ placeholder.

def _seqs(items, lo, hi):
    import itertools as _it
    for n in range(lo, hi + 1):
        for c in _it.product(items, repeat=n):
            yield c


def field_programs():
    """(program, tag).  Dict displays: every sequence of 1-3 items over {** spread, key: value}; keyword-only parameter
    lists: every sequence of 1-3 parameters over {no default, default}, after `*` / `*rest`, with and without
    positional parameters (with and without defaults) before, in def / async def / lambda."""
    out = []
    for seq in _seqs(("s", "p"), 1, 3):
        items, n = [], 0
        for it in seq:
            n += 1
            items.append("**d%d" % n if it == "s" else "%s: v%d" % (("k%d" % n, "'key%d'" % n, str(n))[n % 3], n))
        out.append(("t = {%s}" % ", ".join(items), "dict:" + "".join(seq)))
    out.append(("print({**d1, (a, b): [c], **f(x)})", "dict:sps-nested"))
    out.append(("t = {**{**d1, k: v}, j: {**d2, i: w}}", "dict:nested"))
    heads = [("def f({A}):\n    return {R}", "def"), ("async def f({A}):\n    return {R}", "asyncdef"),
             ("t = lambda {A}: {R}", "lambda")]
    pre = [("*", ""), ("*rest", ""), ("p, q=Z, *", "pq"), ("p, /, q=Z, *rest", "posonly")]
    count = 0
    for seq in _seqs(("n", "d"), 1, 3):
        params, n = [], 0
        for it in seq:
            n += 1
            params.append("k%d" % n if it == "n" else "k%d=%s" % (n, ("X%d" % n, "g(%d)" % n, "None")[n % 3]))
        for star, ptag in (pre if len(seq) <= 2 else pre[count % len(pre):][:1]):
            head, htag = heads[count % len(heads)]
            count += 1
            args = star + ", " + ", ".join(params) + (", **kw" if count % 4 == 0 else "")
            out.append((head.format(A=args, R="k1"), "kwonly:%s:%s:%s" % (htag, ptag or "bare", "".join(seq))))
    # the other places an expression can stand in (optional fields next to list fields)
    for src, tag in [
            ("t = f(a, *b, k=c, **d)", "call"), ("t = x[a:b:c]", "slice"), ("t = x[:b]", "slice"), ("t = x[a:, ::c]", "slice"),
            ("t = a < b <= c != d", "compare"), ("t = [a for b in c if d if e for g in h]", "comp"),
            ("t = {a: b for c in d}", "dictcomp"), ("t = f'{a}{b!r:>{c}}'", "fstring"), ("t = a if b else c", "ifexp"),
            ("with a as b, c, d as (e, g):\n    pass", "with"), ("raise a from b", "raise"), ("assert a, b", "assert"),
            ("try:\n    pass\nexcept a:\n    pass\nexcept (b, c) as e:\n    pass\nexcept:\n    pass", "try"),
            ("x: a = b", "annassign"), ("x: a", "annassign"), ("def f(a: b = c, *d: e, g: h = i, **j: k) -> m:\n    pass", "annotations"),
            ("@a\n@b(c)\nclass C(d, e=g, **h):\n    pass", "classdef"), ("@a\ndef f():\n    yield b\n    yield\n    return", "decorators"),
            ("del a, b[c]", "del"), ("a, *b = c", "starred"), ("a = b = c, d", "assign"), ("for a, b in c:\n    pass\nelse:\n    d", "for"),
            ("t = (a := b) + (yield)", "namedexpr"), ("global a, b", "global"), ("import a.b as c, d", "import"),
            ("from . import a as b", "importfrom"), ("t = a @ b // c ** d", "binop"), ("t = not a or -b and ~c", "boolop")]:
        out.append((src, "field:" + tag))
    return out


def field_scope(rng):
    """yields (program, Derived, tag): one placeholder per derived pattern - every candidate sub-expression -> __e0__,
    every identifier -> _var_; on the statement itself and, every third time, with an unrelated statement around."""
    for n, (src, tag) in enumerate(field_programs()):
        code = src + "\n"
        if n % 3 == 2:
            code = "z = 0\n" + code + "print(z)\n"
        try:
            tree = ast.parse(code)
        except SyntaxError:
            continue
        probe = _Deriver(rng, code, tree)
        if n % 3 == 2:
            probe.take_statement(probe.work.body[1])
        n_c, ids = len(probe.wild_candidates()), probe.identifiers()
        for i in range(n_c):
            dv = _Deriver(rng, code, tree)
            if n % 3 == 2:
                dv.take_statement(dv.work.body[1])
            if dv.step_wild(named=True, pick=i):
                d = dv.finish()
                if d is not None:
                    yield code, d, tag + ":exp"
        for x in ids:
            dv = _Deriver(rng, code, tree)
            if n % 3 == 2:
                dv.take_statement(dv.work.body[1])
            if dv.step_var(x, key="_%s_" % x):
                d = dv.finish()
                if d is not None:
                    yield code, d, tag + ":var"


# --------------------------------------------------------------------------
# identifier spellings around the placeholder syntax (_name_ / __expr__ / ___): every count 0-3 of leading and of
# trailing underscores around a core with and without an inner underscore, the pure-underscore names, dunder names -
# as CONCRETE names of programs and of patterns, in every position an identifier can stand in.  A concrete name must
# match only itself; which spellings are placeholders is decided by the Lean model / checkMatch, not here.

def boundary_spellings():
    out = []
    for core in ("a", "ab", "a_b"):
        for i in range(4):
            for j in range(4):
                out.append("_" * i + core + "_" * j)
    for i in range(3):
        for j in range(3):
            out.append("_" * i + "a__b" + "_" * j)          # a DOUBLE underscore inside
    out += ["_", "__", "___", "____", "_____", "__init__", "__name__", "_1", "_1_", "_total_count", "_load_data",
            "_\u00e9", "_\u00e9_", "x", "i"]
    return list(dict.fromkeys(out))


def spelling_class(name):
    """the reading of the property text (`_name_`, `__expr__`, `___`) - used only to keep placeholder-spelled names
    out of the random program vocabulary"""
    if name == "___":
        return "wild"
    if len(name) >= 4 and name.startswith("__") and name.endswith("__"):
        return "exp"
    if len(name) >= 3 and name[0] == "_" and name[1] != "_" and name.endswith("_"):
        return "var"
    return "plain"


def spelling_rivals(n):
    """other identifiers the program has where the pattern has n: one underscore more / less at either end, an inner
    underscore more / less, a plain name"""
    out = [n + "_", "_" + n, "x"]
    if n.endswith("_") and len(n) > 1:
        out.append(n[:-1])
    if n.startswith("_") and len(n) > 1:
        out.append(n[1:])
    if "_" in n.strip("_"):
        out.append(n.replace("_", "", n.count("_")) if False else n.strip("_").replace("_", "").join((n[:len(n) - len(n.lstrip("_"))], n[len(n.rstrip("_")):])))
    return [m for m in dict.fromkeys(out) if m != n and m.isidentifier()]


# (pattern with the concrete identifier {n}, program with {m} in the same place, position tag)
SPELL_TEMPLATES = [
    ("{n} = 0", "x = 1\n{m} = 0\n", "store"),
    ("print({n})", "print({m})\n", "load"),
    ("{n} = {n} + ___", "{m} = {m} + 1\n", "twice"),
    ("{n}(___)", "print({m}(5))\n", "call"),
    ("def {n}(___):\n    pass", "def {m}(a):\n    return a\n", "def"),
    ("def ___({n}):\n    pass", "def f({m}):\n    return {m}\n", "param"),
    ("class {n}:\n    pass", "class {m}:\n    x = 1\n", "class"),
    ("___.{n}", "print(box.{m})\n", "attr"),
    ("_acc_ = 0\n{n} = 2", "k = 0\n{m} = 2\n", "mixed"),
    ("for {n} in ___:\n    pass", "for {m} in xs:\n    print({m})\n", "for"),
    ("lambda {n}: ___", "t = lambda {m}: 0\n", "lambda"),
    ("f({n}=1)", "f({m}=1)\n", "keyword"),
    ("import {n}", "import {m}\n", "import"),
    ("def f():\n    global {n}", "def f():\n    global {m}\n", "global"),
    ("_v_ = {n}\nprint(_v_)", "k = {m}\nprint(k)\n", "with-var"),
    ("__e__ + {n}", "t = (a * b) + {m}\n", "with-exp"),
]


def spelling_scope(rng, tier):
    """yields (pattern, program, tag, is_self)"""
    names = boundary_spellings()
    shift = rng.randrange(2)
    for ti, (pt, st, pos) in enumerate(SPELL_TEMPLATES):
        for ni, n in enumerate(names):
            rivals = spelling_rivals(n)
            if tier == "quick":
                # half of the positions for every spelling (which half depends on the seed)
                if (ti + ni + shift) % 2:
                    continue
                # every spelling in every position against itself and two rivals (which two rotates with position and seed)
                k = (ti + ni + rng.randrange(len(rivals))) % len(rivals)
                rivals = [rivals[k]] + ([rivals[(k + 1) % len(rivals)]] if ni % 2 else [])
            try:
                pattern = pt.format(n=n)
                ast.parse(pattern)
            except SyntaxError:
                continue
            for m in [n] + rivals:
                code = st.format(m=m)
                try:
                    ast.parse(code)
                except SyntaxError:
                    continue
                yield pattern, code, "%s:%s" % (pos, "same" if m == n else "other"), False
            # the program's own text as the pattern (C11: a program matches itself, whatever its names look like)
            code = st.format(m=n)
            if tier == "quick" and (ti + ni) % 4 > 1:
                continue
            try:
                ast.parse(code)
                yield code, code, pos + ":self", True
            except SyntaxError:
                pass


def merges(seqs):
    """all interleavings of the sequences that keep each sequence's own order"""
    seqs = [s for s in seqs if s]
    if not seqs:
        yield []
        return
    for i, s in enumerate(seqs):
        rest = seqs[:i] + [s[1:]] + seqs[i + 1:]
        for tail in merges(rest):
            yield [s[0]] + tail


def decoy_scope(rng, n_templates, wraps=("{B}",)):
    """Small-scope EXHAUSTIVE arrangements: a template of slot statements, one instance per identifier, optional
    fixed statements; EVERY order-keeping interleaving is a program; for every instance the pattern that keeps this
    instance (and the fixed statements) with its identifier replaced by a placeholder, and the pattern that keeps
    everything with both identifiers replaced.  Yields (program, Derived)."""
    simple = [x for x in DECOY_SLOT if "\n" not in x and not x.startswith("return")]
    for t in range(n_templates):
        if t % 2 == 0:
            shapes, n_fixed, ids = rng.sample(simple, 2), 1, ["a", "b"]
        else:
            shapes, n_fixed, ids = rng.sample(simple, 3), 0, ["a", "b"]
        if t % 5 == 4:
            shapes, n_fixed, ids = rng.sample(simple, 2), 0, ["a", "b", "t"]
        w, k, f = rng.choice(["w", "a"]), rng.choice(["0", "1", "''"]), rng.choice(["f", "g"])
        inst = {v: [sh.format(v=v, w=w, k=k, f=f) for sh in shapes] for v in ids}
        fixed = [rng.choice(DECOY_FIXED[:5]) for _ in range(n_fixed)]
        wrap = wraps[t % len(wraps)]
        for order in merges([[(v, x) for x in inst[v]] for v in ids] + [[(None, x) for x in fixed]]):
            flat = "".join(x + "\n" for _, x in order)
            code = wrap.format(B=flat, I=_indent(flat, 1), II=_indent(flat, 2))
            try:
                tree = ast.parse(code)
            except SyntaxError:
                continue
            for v in ids:
                keep = [i for i, (o, _) in enumerate(order) if o in (v, None)]
                d = derive_keep(code, tree, keep, [v])
                if d is not None:
                    yield code, d
                if n_fixed and rng.random() < 0.3:
                    d = derive_keep(code, tree, [i for i, (o, _) in enumerate(order) if o == v], [v])
                    if d is not None:
                        yield code, d
            if rng.random() < 0.15:
                d = derive_keep(code, tree, range(len(order)), ids)
                if d is not None:
                    yield code, d


def mutate_pattern(rng, pattern):
    """A random edit of a pattern that usually destroys the match (so that rejecting is exercised)."""
    try:
        tree = ast.parse(pattern)
    except SyntaxError:
        return None
    nodes = list(ast.walk(tree))
    for _ in range(10):
        n = rng.choice(nodes)
        k = rng.random()
        if isinstance(n, ast.Constant) and k < 0.9:
            n.value = rng.choice([0, 1, 2, 1.0, True, None, "s", "zz", b"q", 3j, ...])
        elif isinstance(n, ast.Name) and k < 0.9:
            n.id = rng.choice(NAMES + ["_a_", "_b_", "___", "__e__", "zz"] + odd_plain_names()[:: max(1, len(odd_plain_names()) // 6)])
        elif isinstance(n, ast.BinOp) and k < 0.9:
            if rng.random() < 0.5:
                n.left, n.right = n.right, n.left
            else:
                n.op = rng.choice([ast.Add(), ast.Sub(), ast.Mult(), ast.Div()])
        elif isinstance(n, ast.Compare) and k < 0.9:
            n.ops = [rng.choice([ast.Lt(), ast.Eq(), ast.GtE(), ast.NotEq()]) for _ in n.ops]
        elif isinstance(n, ast.Attribute) and k < 0.9:
            n.attr = rng.choice(ATTRS + ["_m_", "zz"])
        elif isinstance(n, ast.arg) and k < 0.9:
            n.arg = rng.choice(NAMES + ["_a_"])
        elif isinstance(n, (ast.FunctionDef, ast.ClassDef)) and k < 0.9:
            n.name = rng.choice(["f", "g", "_f_", "___", "zz"])
        elif isinstance(n, ast.Call) and k < 0.9 and n.args:
            if rng.random() < 0.5:
                n.args.reverse()
            else:
                n.args.append(ast.Name(id=rng.choice(NAMES), ctx=ast.Load()))
        elif isinstance(n, (ast.Global, ast.Nonlocal)):
            n.names = n.names + [rng.choice(NAMES)] if rng.random() < 0.5 else n.names[:1]
        elif hasattr(n, "body") and isinstance(n.body, list) and len(n.body) >= 1 and k < 0.9:
            if len(n.body) >= 2 and rng.random() < 0.5:
                i = rng.randrange(len(n.body) - 1)
                n.body[i], n.body[i + 1] = n.body[i + 1], n.body[i]
            else:
                n.body.insert(rng.randrange(len(n.body) + 1),
                              ast.parse(rng.choice(["zz = 1", "pass", "___", "print(a)"])).body[0])
        else:
            continue
        try:
            out = ast.unparse(ast.fix_missing_locations(tree))
            ast.parse(out)
            return out
        except Exception:
            return None
    return None


# --------------------------------------------------------------------------
# C11 oracle

def c11_verdict(d, run):
    """None if the derived pattern `d` behaves as C11 demands on the real code, else a reason."""
    if run.exc is not None:
        return "raises " + run.exc
    if not run.raw:
        return "no match"
    want_exp = {k: (v[0], v[2]) for k, v in d.exps.items()}
    for m, cm in zip(run.raw, run.matches):
        ok = True
        for k, paths in want_exp.items():
            if cm["exps"].get(k) not in paths:
                ok = False
                break
        if ok:
            for k, x in d.vars.items():
                ids = [i for (t, kk), lst in cm["binds"].items() if kk == k for (i, _) in lst]
                if not ids or any(i != x for i in ids):
                    ok = False
                    break
                # what an instructor reads: match['_x_'].id
                try:
                    if m[k].id != x:
                        ok = False
                        break
                except Exception:
                    ok = False
                    break
        if ok:
            return None
    return "no match with the expected bindings"


# --------------------------------------------------------------------------
# histories: several questions on ONE report (the parse cache, cait['ast'] / ['success'], the Source tool's tree,
# set_source / restore_code, expire_cait_cache, two reports alternating).  The oracle is C10's / C11's own: every
# answer is judged against the program THAT WAS ASKED ABOUT in that step - a fresh ast.parse of its text, kept by the
# harness, never read back from the report.

class Ref:
    """What the harness knows about a program text independently of any report: a fresh parse, its dump with
    positions, the CaitNode tree pedal builds from it (on a throw-away report), the abstract tree for the driver."""

    def __init__(self, code):
        self.code = code
        try:
            self.ast = ast.parse(code)
        except (SyntaxError, ValueError, MemoryError, RecursionError):
            self.ast = None
        if self.ast is not None:
            self.dump = ast.dump(self.ast, include_attributes=True)
            self.root = CaitNode(ast.parse(code), report=Report())
            self.stree = tree_of(self.root, (), {})
            self.senc = enc_tree(self.stree)
            self.size = tree_size(self.stree)


_REFS = {}


def ref_of(code):
    r = _REFS.get(code)
    if r is None:
        if len(_REFS) > 4000:
            _REFS.clear()
        r = _REFS[code] = Ref(code)
    return r


def root_of(node):
    while node.parent is not None:
        node = node.parent
    return node


def student_nodes(m):
    """every student node an AstMap mentions"""
    out = list(m.mappings.values()) + list(m.exp_table.values())
    for attr in TBL.values():
        for lst in getattr(m, attr).values():
            out.extend(sym.astNode for sym in lst.my_list)
    if m.match_root is not None:
        out.append(m.match_root)
    return out


class HistoryReport:
    """One report of a history.  spec = {"setup": "none" | "submission" | "source", "main": text or None,
    "global": bool}; global = pedal's MAIN_REPORT, and every cait_api call leaves `report=` out."""

    MAIN = Program.MAIN

    def __init__(self, spec):
        from pedal.core.report import MAIN_REPORT
        self.is_global = bool(spec.get("global"))
        if self.is_global:
            MAIN_REPORT.clear()
            self.report = MAIN_REPORT
        else:
            self.report = Report()
        self.setup = spec["setup"]
        self.current = None          # the harness's own record of the submission's main code
        self.stack = []
        self.held = {}               # text -> the root parse_program returned for it first
        if self.setup != "none":
            from pedal.core.submission import Submission
            from pedal.core.commands import contextualize_report
            contextualize_report(Submission(files={self.MAIN: spec["main"], "answer.py": "zz_not_this = 0\n"},
                                            main_file=self.MAIN), report=self.report)
            self.current = spec["main"]
            if self.setup == "source":
                from pedal.source import verify
                verify(report=self.report)

    @property
    def kw(self):
        return {} if self.is_global else {"report": self.report}


class HistoryStep:
    """One judged question of a history; quacks like RealRun for the correspondence and the two searches."""

    anchor = ()
    use_previous = False
    parent = None
    first_differs = False
    compare_model = True

    def __init__(self, pattern, asked, api):
        self.pattern = pattern
        self.code = asked
        self.api = api
        self.exc = None
        self.raw = None
        self.matches = None
        self.foreign = None          # why the answer is not about the asked program at all
        self.ref = ref_of(asked)
        ptop = ast.parse(pattern)
        self.multi = len(ptop.body) != 1
        self.ptree = tree_of(CaitNode(ptop, "none", report=Report()), (), {})
        self.penc = enc_tree(self.ptree)
        if self.ref.ast is not None:
            self.stree, self.senc, self.size = self.ref.stree, self.ref.senc, self.ref.size
        else:
            # an unparsable text has no tree: CAIT must answer [] (it looks at an empty module)
            empty = ref_of("")
            self.stree, self.senc, self.size = empty.stree, empty.senc, 1
            # ... and there is nothing to ask the model about (the search still demands that nothing is returned)
            self.compare_model = False
            self.not_modelled = "unparsable-text-asked"

    def judge(self, raw):
        self.raw = raw
        if not raw:
            self.matches = []
            return
        k = next(iter(raw[0].mappings), None)
        if k is None:
            self.exc = "match-pairs-no-pattern-node"
            return
        while k.parent is not None:
            k = k.parent
        pindex = index_of(k)
        if len(pindex) != tree_size(self.ptree):
            raise RuntimeError("pattern tree rebuilt differently")
        roots = {}
        for m in raw:
            for n in student_nodes(m):
                r = root_of(n)
                roots[id(r)] = r
        sindex = {}
        if self.ref.ast is None:
            self.foreign = "the asked text does not parse, yet matches are returned"
        elif len(roots) != 1:
            self.foreign = "the matched nodes belong to %d different trees" % len(roots)
        else:
            root = next(iter(roots.values()))
            if not isinstance(root.astNode, ast.AST) or \
                    ast.dump(root.astNode, include_attributes=True) != self.ref.dump:
                self.foreign = "the matched nodes are not nodes of the asked program's tree"
                self.foreign_root = root
            else:
                sindex = index_of(root)
                if tree_of(root, (), {}) != self.stree:
                    self.exc = "student-tree-fields-not-restored"
        # nodes outside the asked program's tree get the path ("outside",): comparison and embedding check fail
        self.matches = [canon_real_match(m, pindex, sindex) for m in raw]

    def request(self):
        return "match " + self.penc + " " + self.senc

    def embed_matches(self):
        return self.matches

    def embed_request(self):
        ms = self.matches
        return ("embed " + self.penc + " " + self.senc + " " + str(len(ms)) + " " +
                " ".join(enc_match(m) for m in ms))


QUERY_OPS = ("find_matches", "find_match", "node", "held")
STATE_OPS = ("parse_program", "find_asts", "expire", "reset", "set_source", "restore")


def run_history(spec, notes=None):
    """spec = {"reports": [report spec, ...], "steps": [step, ...]}, JSON-able.
    step = {"r": report index, "op": one of QUERY_OPS + STATE_OPS, "target": "code" | "sub", "code": text,
            "pattern": text, "spell": "kw" | "pos" | "none", "kind": AST class name for find_asts}
    Returns one entry per step: a HistoryStep for a judged question, None otherwise (state-only steps, steps that do
    not apply - `sub` without a submission, `restore` with nothing to restore)."""
    from pedal.cait import cait_api
    from pedal.core.report import MAIN_REPORT

    def note(k):
        if notes is not None:
            notes[k] = notes.get(k, 0) + 1
    reports = [HistoryReport(r) for r in spec["reports"]]
    out = []
    try:
        for st in spec["steps"]:
            rep = reports[st.get("r", 0) % len(reports)]
            op = st["op"]
            kw = rep.kw
            if op == "expire":
                cait_api.expire_cait_cache(**kw)
                out.append(None)
                continue
            if op == "reset":
                cait_api.reset(**kw)
                out.append(None)
                continue
            if op == "set_source":
                from pedal.source import set_source
                had = rep.current is not None
                try:
                    set_source(st["code"], filename=rep.MAIN, **kw)
                except Exception as e:
                    note("history:set_source-raises-" + type(e).__name__)
                if had:
                    rep.stack.append(rep.current)
                rep.current = st["code"]
                out.append(None)
                continue
            if op == "restore":
                if rep.stack:
                    from pedal.source.source import restore_code
                    try:
                        restore_code(**kw)
                    except Exception as e:
                        note("history:restore-raises-" + type(e).__name__)
                    rep.current = rep.stack.pop()
                else:
                    note("history:skipped-restore-nothing-to-restore")
                out.append(None)
                continue
            if st.get("target") == "sub":
                if rep.current is None:
                    note("history:skipped-no-submission")
                    out.append(None)
                    continue
                asked = rep.current
                args, akw = (), ({"student_code": None} if st.get("spell") == "none" else {})
            else:
                asked = st["code"]
                args, akw = ((asked,), {}) if st.get("spell") == "pos" else ((), {"student_code": asked})
            akw = dict(akw, **kw)
            if op in ("parse_program", "find_asts"):
                try:
                    if op == "parse_program":
                        root = cait_api.parse_program(*args, **akw)
                        if ref_of(asked).ast is not None:
                            rep.held.setdefault(asked, root)
                    else:
                        cait_api.find_asts(st.get("kind", "Name"), *args, **akw)
                except Exception as e:
                    note("history:%s-raises-%s" % (op, type(e).__name__))
                out.append(None)
                continue
            pattern = st["pattern"]
            api = "node" if op == "held" else op
            step = HistoryStep(pattern, asked, api)
            try:
                if op == "find_matches":
                    raw = cait_api.find_matches(pattern, *args, **akw)
                elif op == "find_match":
                    m = cait_api.find_match(pattern, *args, **akw)
                    raw = [] if m is None else [m]
                else:
                    root = rep.held.get(asked) if op == "held" else None
                    if root is None:
                        root = cait_api.parse_program(*args, **akw)
                    if step.ref.ast is None:
                        # no program, no root node to ask: only the state change of the parse counts
                        note("history:skipped-node-route-on-unparsable-text")
                        out.append(None)
                        continue
                    rep.held.setdefault(asked, root)
                    raw = root.find_matches(pattern, is_mod=step.multi, use_previous=False)
            except RecursionError:
                raise
            except Exception as e:
                step.exc = type(e).__name__
                out.append(step)
                continue
            step.judge(raw)
            out.append(step)
    finally:
        if any(r.is_global for r in reports):
            MAIN_REPORT.clear()
    return out

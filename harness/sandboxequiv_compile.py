"""
C06: programs whose behaviour depends on HOW the source is compiled and on what the module they run as looks like.

The grammar-based generator writes statements whose meaning no compiler option changes and never looks at the
module it runs in (apart from `__name__`).  The sandbox, however, decides how the student's source is turned into
code: `compile()` inherits the `from __future__` features of the module that calls it unless told otherwise, takes an
`optimize` level (asserts, `__debug__`, docstrings) and a mode (`single` echoes expression statements), and the
namespace the code runs in is the sandbox's, not a fresh `__main__`.  Dimensions added here:

  * ANNOTATIONS of every kind (parameter, default parameter, *args/**kwargs, keyword-only, return, module variable
    with and without value, class attribute, method naming its own class, nested function, attribute / subscript
    target, inside loop / try / if, dataclass and NamedTuple fields, local variable) x what the annotation is
    (builtin type, subscripted, union, typing, string forward reference, a class defined earlier / later / being
    defined, a misspelt or undefined name, an expression with a side effect, an expression that raises, a value that
    is not a type, a name rebound later) x how the program uses it (not at all, stores `__annotations__`, prints names
    and kinds, typing.get_type_hints, inspect.signature, an isinstance-based run-time checker, calling the function,
    a follow-up call()).  Under postponed evaluation (PEP 563) every one of the middle dimension behaves differently.
  * every `from __future__` feature CPython knows (read from `__future__.all_feature_names` of the running
    interpreter), written by the STUDENT: first line, after the docstring, too late, unknown, with programs that
    behave differently under the feature (`<>` / `!=` for barry_as_FLUFL, annotations) - and the same programs
    without the import.
  * optimisation-level dependent constructs: assert (with / without message, in functions, caught), `__debug__`,
    docstrings of module / function / class / method read through `__doc__`.
  * compile-mode dependent constructs: bare expression statements at top level, in loops and in functions.
  * the module as the program sees it, where plain CPython and the sandbox agree on the unchanged tree: `__name__` at
    top level / in functions / in class bodies, `__module__`, `__qualname__`, `__doc__` of a module that has a
    docstring, `__annotations__`; decorators (plain, with arguments, stacked, functools.wraps, property, staticmethod,
    classmethod, class decorators, lru_cache, an undefined one, one that raises); class bodies reading enclosing
    names (module globals, function locals, earlier class attributes, comprehensions inside a class body); closures,
    nonlocal, generators, lambda defaults, walrus, match, with, star-unpacking, zero-argument super(), __slots__,
    metaclass keyword, __init_subclass__, __set_name__, enum, namedtuple.
  * source text details that only the compiler sees: leading blank lines / comments, no final newline, tabs, form
    feed, line continuation, semicolons, non-ASCII and NFKC-normalised identifiers, TabError / IndentationError /
    unterminated string at a given line.

`flag_sensitivity()` counts, per inheritable compiler flag and per optimisation level, how many generated programs
compile to DIFFERENT code under it: evidence that the dimension is really visited (a flag with zero sensitive
programs would be a hole).  The oracle is CPython (the differential search of c06.py); the reference compiles with
dont_inherit=True.
"""
import __future__
import marshal

FUTURE_FEATURES = list(__future__.all_feature_names)

# ----------------------------------------------------------------------------------------------------------------
# annotations

# position -> (template with {T}, name of the dict of annotations to look at or None, a call expression or None)
POSITIONS = {
    "param": ("def f(a: {T}, b=2):\n    return [a, b]\n", "f.__annotations__", "f(4)"),
    "param-default": ("def f(a: {T} = 5):\n    return a\n", "f.__annotations__", "f()"),
    "return": ("def f(a) -> {T}:\n    return a\n", "f.__annotations__", "f('r')"),
    "both": ("def f(a: {T}, b: {T} = None) -> {T}:\n    return a\n", "f.__annotations__", "f(1, 2)"),
    "varargs": ("def f(*rest: {T}, **opts: {T}):\n    return len(rest) + len(opts)\n", "f.__annotations__", "f(1, k=2)"),
    "kwonly": ("def f(a, *, key: {T} = None):\n    return (a, key)\n", "f.__annotations__", "f(1, key=2)"),
    "posonly": ("def f(a: {T}, /, b=0):\n    return a\n", "f.__annotations__", "f(3)"),
    "module-var": ("value: {T} = 3\n", "__annotations__", None),
    "module-bare": ("value: {T}\n", "__annotations__", None),
    "module-two": ("first: int = 1\nsecond: {T} = 2\nthird: str = 't'\n", "__annotations__", None),
    "class-attr": ("class Box:\n    size: {T} = 1\n    label: {T}\n", "Box.__annotations__", "Box().size"),
    "method": ("class Box:\n    def fit(self, other: {T}) -> {T}:\n        return other\n", "Box.fit.__annotations__",
               "Box().fit(2)"),
    "init": ("class Box:\n    def __init__(self, size: {T}):\n        self.size: {T} = size\n", "Box.__init__.__annotations__",
             "Box(3).size"),
    "local": ("def f(a):\n    tmp: {T} = a\n    other: {T}\n    return tmp\n", None, "f(4)"),
    "nested-def": ("def outer():\n    def inner(x: {T}):\n        return x\n    return inner\ninner = outer()\n",
                   "inner.__annotations__", "inner(5)"),
    "attribute-target": ("class Box:\n    pass\nbox = Box()\nbox.size: {T} = 4\n", None, "box.size"),
    "subscript-target": ("table = {{}}\ntable['k']: {T} = 4\n", None, "table['k']"),
    "in-loop": ("for i in range(2):\n    step: {T} = i\n", "__annotations__", None),
    "in-if": ("if len('ab') == 2:\n    chosen: {T} = 1\nelse:\n    other: {T} = 2\n", "__annotations__", None),
    "in-try": ("try:\n    def f(a: {T}):\n        return a\n    print('defined')\nexcept NameError as err:\n"
               "    print('caught', type(err).__name__)\nexcept ZeroDivisionError:\n    print('caught division')\n", None, None),
    "dataclass": ("from dataclasses import dataclass, fields\n@dataclass\nclass Box:\n    size: {T}\n    label: {T} = None\n",
                  "Box.__annotations__", "Box(1)"),
    "namedtuple": ("from typing import NamedTuple\nclass Box(NamedTuple):\n    size: {T}\n    label: {T} = None\n",
                   "Box.__annotations__", "Box(1)"),
    "lambda-default": ("def f(a, check=lambda v: v):\n    out: {T} = check(a)\n    return out\n", None, "f(6)"),
    "method-self-class": ("class Node:\n    def __init__(self, value):\n        self.value = value\n        self.next = None\n"
                          "    def link(self, other: {T}) -> {T}:\n        self.next = other\n        return other\n",
                          "Node.link.__annotations__", "Node(1).link(Node(2)).value"),
    "decorated": ("def keep(fn):\n    return fn\n@keep\ndef f(a: {T}) -> {T}:\n    return a\n", "f.__annotations__", "f(2)"),
    "staticmethod": ("class Box:\n    @staticmethod\n    def make(n: {T}) -> {T}:\n        return n\n", "Box.make.__annotations__",
                     "Box.make(2)"),
    "async-free-generator": ("def f(n: {T}):\n    yield n\n", "f.__annotations__", "list(f(2))"),
}

# what stands for {T}: (tag, expression, lines needed before, lines needed after)
TYPES = [
    ("int", "int", "", ""), ("str", "str", "", ""), ("float", "float", "", ""), ("list", "list", "", ""),
    ("none", "None", "", ""), ("bool", "bool", "", ""), ("object", "object", "", ""),
    ("generic-builtin", "list[int]", "", ""), ("generic-dict", "dict[str, int]", "", ""), ("tuple-ellipsis", "tuple[int, ...]", "", ""),
    ("union", "int | None", "", ""), ("union3", "int | str | float", "", ""),
    ("string", "'int'", "", ""), ("string-forward", "'Later'", "", "class Later:\n    pass\n"),
    ("string-undefined", "'Nowhere'", "", ""), ("string-odd", "'not a type at all!'", "", ""),
    ("typing-optional", "Optional[int]", "from typing import Optional\n", ""),
    ("typing-list", "List[int]", "from typing import List\n", ""),
    ("typing-any", "typing.Any", "import typing\n", ""), ("typing-callable", "Callable[[int], str]", "from typing import Callable\n", ""),
    ("own-class-earlier", "Animal", "class Animal:\n    pass\n", ""),
    ("own-class-later", "Later", "", "class Later:\n    pass\n"),
    ("own-class-being-defined", "Node", "", ""), ("own-class-box", "Box", "", ""),
    ("misspelt-integer", "integer", "", ""), ("misspelt-strng", "strng", "", ""), ("misspelt-case", "Int", "", ""),
    ("misspelt-string", "string", "", ""), ("misspelt-number", "number", "", ""), ("misspelt-boolean", "boolean", "", ""),
    ("typing-not-imported", "List[int]", "", ""), ("undefined-attribute", "typing.Lisst", "import typing\n", ""),
    ("module-not-imported", "math.pi", "", ""),
    ("side-effect", "note('seen')", "def note(tag):\n    print('evaluated', tag)\n    return int\n", ""),
    ("side-effect-counter", "tick()", "ticks = []\ndef tick():\n    ticks.append(len(ticks))\n    return str\n", "print(ticks)\n"),
    ("side-effect-input", "kinds[input('Kind? ')]", "kinds = {'i': int, 's': str}\n", ""),
    ("raises-zero-division", "(1 // 0)", "", ""), ("raises-index", "[int][1]", "", ""), ("raises-key", "{}['k']", "", ""),
    ("raises-value", "int('x')", "", ""), ("raises-type", "int['a'][0]['b']", "", ""), ("raises-custom", "fail()",
     "def fail():\n    raise RuntimeError('no such kind')\n", ""),
    ("number", "3", "", ""), ("tuple-of-types", "(int, str)", "", ""), ("list-of-type", "[int]", "", ""),
    ("call-value", "len('abc')", "", ""), ("conditional", "int if len('a') else str", "", ""), ("builtin-function", "max", "", ""),
    ("fstring", "f'{1 + 1}'", "", ""), ("string-concat", "'in' 't'", "", ""), ("bytes", "b'int'", "", ""),
    ("ellipsis", "...", "", ""), ("comparison", "1 < 2", "", ""), ("comparison-ne", "1 != 2", "", ""),
    ("alias-rebound-later", "Kind", "Kind = int\n", "Kind = str\n"),
    ("alias-deleted-later", "Kind", "Kind = float\n", "del Kind\n"),
    ("shadowed-builtin", "int", "int = str\n", "del int\n"),
    ("name-of-function", "helper", "def helper():\n    return 1\n", ""),
    ("comprehension", "[t for t in (int, str)][0]", "", ""), ("lambda-call", "(lambda: float)()", "", ""),
    ("dict-lookup", "KINDS['n']", "KINDS = {'n': int}\n", ""), ("dict-lookup-missing", "KINDS['zz']", "KINDS = {'n': int}\n", ""),
    ("attribute", "shapes.Circle", "class shapes:\n    class Circle:\n        pass\n", ""),
    ("starred-tuple", "tuple[int, str]", "", ""), ("nested-quotes", "\"list['Later']\"", "", "class Later:\n    pass\n"),
]

# how the program uses the annotations: (tag, text with {D} = the annotations dict, {C} = the call expression)
OBSERVERS = [
    ("none", "print('end')\n", False, False),
    ("store", "notes = dict({D})\n", True, False),
    ("names", "print(sorted({D}))\nprint(len({D}))\n", True, False),
    ("kinds", "print([type(v).__name__ for v in {D}.values()])\n", True, False),
    ("value-names", "print([getattr(v, '__name__', None) or str(v) for v in {D}.values()])\n", True, False),
    ("all-types", "print(all(isinstance(v, type) for v in {D}.values()))\n", True, False),
    ("all-strings", "print(any(isinstance(v, str) for v in {D}.values()))\n", True, False),
    ("print", "print(sorted((k, v if isinstance(v, (str, type)) else type(v).__name__) for k, v in {D}.items()))\n", True, False),
    ("hints", "import typing\ntry:\n    print(sorted(typing.get_type_hints({H}).items(), key=str))\nexcept Exception as err:\n"
              "    print('hints failed', type(err).__name__)\n", True, False),
    ("signature", "import inspect\nprint(inspect.signature({H}))\n", True, False),
    ("checker", "def check(value, kind):\n    if isinstance(kind, type) and not isinstance(value, kind):\n"
                "        return 'wrong'\n    if not isinstance(kind, type):\n        return 'not a type: ' + type(kind).__name__\n"
                "    return 'ok'\nprint([check(1, kind) for kind in {D}.values()])\n", True, False),
    ("strict-checker", "for name, kind in {D}.items():\n    print(name, isinstance(1, kind))\n", True, False),
    ("call", "print({C})\n", False, True),
    ("call-stored", "result = {C}\nprint(type(result).__name__)\n", False, True),
    ("call-then-names", "print({C})\nprint(sorted({D}))\n", True, True),
]


def annotation_program(pos, typ, obs):
    """-> (code, inputs, follow-up calls) or None when the combination makes no sense"""
    template, ann_dict, call_expr = POSITIONS[pos]
    tag, expr, before, after = typ
    otag, otext, needs_dict, needs_call = obs
    if needs_dict and ann_dict is None:
        return None
    if needs_call and call_expr is None:
        return None
    if tag == "own-class-being-defined" and "Node" not in template:
        return None
    if tag == "own-class-box" and "class Box" not in template:
        return None
    if tag == "name-of-function" and otag in ("hints", "signature"):
        return None         # the text would contain the address of the function object
    holder = (ann_dict or "").rsplit(".__annotations__", 1)[0]
    if otag in ("hints", "signature"):
        if ann_dict == "__annotations__":
            return None
        if otag == "signature" and holder in ("Box",) and pos in ("class-attr",):
            return None
        if otag == "hints" and holder == "Box" and "Later" in expr and ("'" in expr or '"' in expr):
            # typing.get_type_hints(<class>) resolves a STRING annotation through sys.modules[cls.__module__].__dict__,
            # i.e. sys.modules['__main__'] - the grader's own main module under the sandbox (for a function it uses
            # f.__globals__, which is the student's namespace).  Module plumbing the notes list as seen and deliberately
            # not generated (notes/C06.md section 7); 6 of the 26 325 combinations, first sampled in round 3.
            return None
    text = otext.replace("{D}", ann_dict or "").replace("{C}", call_expr or "").replace("{H}", holder)
    code = before + template.replace("{T}", expr).replace("{{", "{").replace("}}", "}") + after + text
    inputs = ["i", "s", "i", "s"] if "input(" in code else []
    calls = []
    if call_expr and call_expr.startswith("f(") and pos not in ("in-try",):
        args = call_expr[2:-1]
        if "=" not in args:
            calls.append({"fn": "f", "args": [a.strip() for a in args.split(",") if a.strip()], "kwargs": {}})
    return code, inputs, calls


# ----------------------------------------------------------------------------------------------------------------
# features: fixed programs (name, code[, inputs[, calls]])

def future_programs():
    out = []
    body_plain = "def area(w: int, h: Later) -> int:\n    return w * h\nclass Later:\n    pass\nprint(area(2, 3))\n"
    body_read = "def area(w: int, h: int = 2) -> int:\n    return w * h\nprint(area.__annotations__)\nprint(1 != 2)\n"
    body_ops = "print(1 != 2, 3 == 3)\nx = 5\nif x != 4:\n    print('different')\n"
    for feat in FUTURE_FEATURES:
        imp = "from __future__ import %s\n" % feat
        out.append(("future:%s:first-line" % feat, imp + body_read))
        out.append(("future:%s:forward-reference" % feat, imp + body_plain))
        out.append(("future:%s:operators" % feat, imp + body_ops))
        out.append(("future:%s:after-docstring" % feat, '"""Docstring first."""\n' + imp + body_read + "print(__doc__)\n"))
        out.append(("future:%s:after-comment" % feat, "# a comment\n\n" + imp + body_ops))
        out.append(("future:%s:too-late" % feat, "x = 1\n" + imp + body_ops))
        out.append(("future:%s:in-function" % feat, "def f():\n    " + imp + "    return 1\nprint(f())\n"))
        out.append(("future:%s:with-alias" % feat, "from __future__ import %s as feature\nprint(feature.optional[0])\n" % feat))
        out.append(("future:%s:twice" % feat, imp + imp + body_ops))
    out.append(("future:none:forward-reference", body_plain))
    out.append(("future:none:read", body_read))
    out.append(("future:flufl-operator", "print(1 <> 2)\n"))
    out.append(("future:flufl-operator-with-import", "from __future__ import barry_as_FLUFL\nprint(1 <> 2)\nprint(2 <> 2)\n"))
    out.append(("future:flufl-ne-with-import", "from __future__ import barry_as_FLUFL\nprint('before')\nprint(1 != 2)\n"))
    out.append(("future:unknown", "print('before')\nfrom __future__ import time_travel\nprint('after')\n"))
    out.append(("future:unknown-first", "from __future__ import time_travel\nprint('after')\n"))
    out.append(("future:braces", "from __future__ import braces\nprint('after')\n"))
    out.append(("future:star", "from __future__ import *\nprint('after')\n"))
    out.append(("future:several", "from __future__ import annotations, division, print_function\n"
                                  "def f(a: Nope) -> Nope:\n    return a / 2\nprint(f(3), f.__annotations__)\n"))
    out.append(("future:import-module", "import __future__\nprint(__future__.annotations.compiler_flag > 0)\n"
                                        "def f(a: Nope):\n    return a\n"))
    return out


OPTIMIZE = [
    ("assert-plain", "values = [1, 2]\nassert len(values) == 3\nprint('after')\n"),
    ("assert-message", "age = -1\nassert age >= 0, 'age must not be negative'\nprint('after')\n"),
    ("assert-in-function", "def check(n):\n    assert n > 0, n\n    return n\nprint(check(2))\nprint(check(0))\n"),
    ("assert-caught", "try:\n    assert 1 > 2, 'never'\n    print('passed')\nexcept AssertionError as err:\n    print('caught', err)\n"),
    ("assert-side-effect", "seen = []\ndef probe():\n    seen.append(1)\n    return True\nassert probe()\nprint(seen)\n"),
    ("assert-tuple", "assert (1 == 2, 'always true')\nprint('after')\n"),
    ("assert-passing", "assert 1 + 1 == 2\nassert True, 'fine'\nprint('after')\n"),
    ("debug-flag", "print(__debug__)\nif __debug__:\n    print('debugging')\nelse:\n    print('optimised')\n"),
    ("debug-in-function", "def mode():\n    return 'debug' if __debug__ else 'fast'\nprint(mode())\n"),
    ("docstring-module", '"""The module docstring."""\nprint(__doc__)\nprint(len(__doc__))\n'),
    ("docstring-module-single-quotes", "'single quoted docstring'\nprint(__doc__)\n"),
    ("docstring-after-comment", '# comment first\n\n"""Docstring after a comment."""\nprint(__doc__)\n'),
    ("docstring-function", 'def f():\n    """What f does."""\n    return 1\nprint(f.__doc__)\n'),
    ("docstring-function-only", 'def f():\n    """Only a docstring."""\nprint(f.__doc__, f())\n'),
    ("docstring-class", 'class A:\n    """About A."""\n    def m(self):\n        """About m."""\n        return 2\n'
                        'print(A.__doc__, A.m.__doc__, A().m.__doc__)\n'),
    ("docstring-none", "def f():\n    return 1\nclass A:\n    pass\nprint(f.__doc__, A.__doc__)\n"),
    ("docstring-multiline", 'def f():\n    """First line.\n\n    More text.\n    """\n    return 1\nprint(f.__doc__.splitlines())\n'),
    ("docstring-not-first", 'def f():\n    x = 1\n    """not a docstring"""\n    return x\nprint(f.__doc__)\n'),
    ("docstring-fstring", 'def f():\n    f"""not a docstring {1}"""\n    return 1\nprint(f.__doc__)\n'),
    ("docstring-used", 'def greet():\n    """Say hello."""\n    return greet.__doc__.upper()\nprint(greet())\n'),
    ("docstring-global", '"""Doc."""\ndoc = __doc__\n'),
]
OPTIMIZE_CALLS = {
    "assert-in-function": [{"fn": "check", "args": ["3"], "kwargs": {}}, {"fn": "check", "args": ["-1"], "kwargs": {}}],
    "docstring-used": [{"fn": "greet", "args": [], "kwargs": {}}],
    "debug-in-function": [{"fn": "mode", "args": [], "kwargs": {}}],
}

MODE = [
    ("expression-statements", "1 + 2\n'text'\n[1, 2]\nprint('only this')\n"),
    ("expression-call", "def f(n):\n    return n * 2\nf(3)\nf(4)\nprint('done')\n"),
    ("expression-in-loop", "for i in range(3):\n    i * 2\nprint('done')\n"),
    ("expression-in-function", "def f():\n    42\n    'ignored'\n    return None\nf()\nprint(f())\n"),
    ("expression-name", "x = 5\nx\nx == 5\nprint(x)\n"),
    ("expression-none", "None\n...\nprint('done')\n"),
    ("expression-underscore", "7 * 6\nprint('_' in dir())\n"),
    ("single-statement", "3 + 4"),
    ("single-statement-name", "x = 1\nx"),
    ("semicolons", "a = 1; b = 2; a + b\nprint(a, b)\n"),
    ("empty", ""), ("only-comment", "# nothing here\n"), ("only-newlines", "\n\n\n"), ("only-pass", "pass"),
    ("only-docstring", '"""just a docstring"""\n'),
]

MODULE_FACE = [
    ("name-top", "print(__name__)\nprint(__name__ == '__main__')\n"),
    ("name-guard", "def main():\n    print('running main')\n    return 3\nif __name__ == '__main__':\n    code = main()\nelse:\n    print('imported')\n"),
    ("name-in-function", "def where():\n    return __name__\nprint(where())\n"),
    ("name-in-class", "class A:\n    origin = __name__\n    def where(self):\n        return __name__\nprint(A.origin, A().where())\n"),
    ("name-stored", "me = __name__\n"),
    ("name-rebound", "__name__ = 'renamed'\nprint(__name__)\ndef f():\n    pass\nprint(f.__module__)\n"),
    ("module-of-function", "def f():\n    pass\nprint(f.__module__, f.__name__, f.__qualname__)\n"),
    ("module-of-class", "class A:\n    class B:\n        def m(self):\n            pass\nprint(A.__module__, A.B.__qualname__, A.B.m.__qualname__)\nprint(A, A.B)\n"),
    ("module-of-nested", "def outer():\n    def inner():\n        pass\n    class Local:\n        pass\n    return inner.__qualname__, Local.__qualname__, Local.__module__\nprint(outer())\n"),
    ("module-of-exception", "class Oops(Exception):\n    pass\ntry:\n    raise Oops('x')\nexcept Oops as err:\n    print(type(err).__module__, repr(err))\n"),
    ("module-of-lambda", "double = lambda v: v * 2\nprint(double.__name__, double.__qualname__, double.__module__)\n"),
    ("type-repr", "class A:\n    pass\nprint(type(A()), A, type(A).__name__)\n"),
    ("doc-and-name", '"""Doc."""\nprint(__doc__, __name__)\n'),
    ("annotations-empty", "x = 1\n"),
    ("annotations-module", "count: int = 0\nname: str\nprint(sorted(__annotations__))\nprint(__annotations__['count'] is int)\n"),
    ("defaults-evaluated-once", "def add(item, bucket=[]):\n    bucket.append(item)\n    return bucket\nprint(add(1), add(2))\nprint(add.__defaults__)\n"),
    ("kwdefaults", "def f(a, *, b=3):\n    return a + b\nprint(f.__kwdefaults__, f.__defaults__, f.__code__.co_varnames)\n"),
    ("code-facts", "def f(a, b=1, *c, d, **e):\n    x = 1\n    return x\nprint(f.__code__.co_argcount, f.__code__.co_kwonlyargcount, f.__code__.co_name, f.__code__.co_firstlineno)\n"),
    ("globals-of-function", "x = 3\ndef f():\n    return x\nprint('x' in f.__globals__, f.__globals__['x'], f.__globals__['__name__'])\n"),
    ("constants-folded", "big = 2 ** 10\ntext = 'ab' * 3\nprint(big, text, (1, 2) + (3,))\n"),
    ("string-identity", "a = 'hello'\nb = 'hello'\nprint(a == b)\n"),
]

DECORATORS = [
    ("plain", "def twice(fn):\n    def inner(*a):\n        return fn(*a) * 2\n    return inner\n@twice\ndef g(x):\n    return x + 1\nprint(g(3), g.__name__)\n"),
    ("with-arguments", "def times(n):\n    def wrap(fn):\n        def inner(*a):\n            return fn(*a) * n\n        return inner\n    return wrap\n@times(3)\ndef g(x):\n    return x\nprint(g(2))\n"),
    ("stacked", "def a(fn):\n    print('a applied')\n    return lambda: 'a' + fn()\ndef b(fn):\n    print('b applied')\n    return lambda: 'b' + fn()\n@a\n@b\ndef g():\n    return 'g'\nprint(g())\n"),
    ("wraps", "import functools\ndef logged(fn):\n    @functools.wraps(fn)\n    def inner(*a, **k):\n        print('calling', fn.__name__)\n        return fn(*a, **k)\n    return inner\n@logged\ndef area(w, h=2):\n    'area doc'\n    return w * h\nprint(area(3), area.__name__, area.__doc__, area.__wrapped__.__name__)\n"),
    ("property", "class T:\n    def __init__(self):\n        self._c = 1\n    @property\n    def c(self):\n        return self._c\n    @c.setter\n    def c(self, v):\n        if v < 0:\n            raise ValueError('negative')\n        self._c = v\nt = T()\nt.c = 5\nprint(t.c)\nt.c = -1\n"),
    ("static-and-class", "class M:\n    count = 0\n    @staticmethod\n    def add(a, b):\n        return a + b\n    @classmethod\n    def make(cls):\n        cls.count += 1\n        return cls()\nprint(M.add(1, 2), type(M.make()).__name__, M.count)\n"),
    ("class-decorator", "def register(cls):\n    cls.registered = True\n    return cls\n@register\nclass A:\n    pass\nprint(A.registered, A.__name__)\n"),
    ("lru-cache", "import functools\ncalls = []\n@functools.lru_cache(maxsize=None)\ndef fib(n):\n    calls.append(n)\n    return n if n < 2 else fib(n - 1) + fib(n - 2)\nprint(fib(12), len(calls))\n"),
    ("undefined", "print('before')\n@not_defined\ndef g():\n    return 1\nprint('after')\n"),
    ("undefined-second", "def ok(fn):\n    return fn\n@ok\n@missing_one\n@ok\ndef g():\n    return 1\n"),
    ("raises", "def broken(fn):\n    raise TypeError('cannot decorate')\nprint('before')\n@broken\ndef g():\n    return 1\n"),
    ("raises-multiline", "def need(n):\n    return [][n]\n@need(\n    2\n)\ndef g():\n    return 1\n"),
    ("returns-none", "def forget(fn):\n    pass\n@forget\ndef g():\n    return 1\nprint(g)\ng()\n"),
    ("not-callable", "@5\ndef g():\n    return 1\n"),
    ("method-decorator", "def shout(fn):\n    def inner(self):\n        return fn(self).upper()\n    return inner\nclass P:\n    @shout\n    def name(self):\n        return 'ada'\nprint(P().name())\n"),
    ("decorator-expression", "table = {'id': lambda fn: fn}\n@table['id']\ndef g():\n    return 1\nprint(g())\n@table['nope']\ndef h():\n    return 2\n"),
    ("dataclass-order", "from dataclasses import dataclass, field\n@dataclass(order=True)\nclass V:\n    major: int\n    minor: int = 0\n    tags: list = field(default_factory=list)\nprint(V(1, 2) < V(1, 3), V(2), V(1) == V(1, 0))\n"),
    ("dataclass-mutable-default", "from dataclasses import dataclass\n@dataclass\nclass V:\n    items: list = []\n"),
    ("total-ordering", "import functools\n@functools.total_ordering\nclass N:\n    def __init__(self, v):\n        self.v = v\n    def __eq__(self, o):\n        return self.v == o.v\n    def __lt__(self, o):\n        return self.v < o.v\nprint(N(1) >= N(0), N(1) <= N(0))\n"),
    ("contextmanager", "import contextlib\n@contextlib.contextmanager\ndef tag(name):\n    print('<' + name + '>')\n    yield name\n    print('</' + name + '>')\nwith tag('b') as t:\n    print(t)\n"),
]
DECORATOR_CALLS = {
    "plain": [{"fn": "g", "args": ["5"], "kwargs": {}}, {"fn": "twice", "args": ["len"], "kwargs": {}}],
    "with-arguments": [{"fn": "g", "args": ["'ab'"], "kwargs": {}}],
    "wraps": [{"fn": "area", "args": ["4"], "kwargs": {"h": "5"}}],
    "lru-cache": [{"fn": "fib", "args": ["12"], "kwargs": {}}, {"fn": "fib", "args": ["15"], "kwargs": {}}],
}

CLASS_BODIES = [
    ("reads-global", "RATE = 3\nclass Shop:\n    rate = RATE * 2\n    def price(self, n):\n        return n * self.rate + RATE\nprint(Shop.rate, Shop().price(2))\n"),
    ("reads-earlier-attribute", "class Grid:\n    width = 4\n    height = width * 2\n    area = width * height\nprint(Grid.area)\n"),
    ("comprehension-in-class", "class Grid:\n    width = 3\n    cells = [i for i in range(width)]\n    squares = [width * i for i in range(2)]\nprint(Grid.cells)\n"),
    ("method-reads-class-name", "class Counter:\n    made = 0\n    def __init__(self):\n        Counter.made += 1\nCounter(); Counter()\nprint(Counter.made)\n"),
    ("class-in-function", "def build(scale):\n    offset = 10\n    class Ruler:\n        unit = scale * 2\n        def measure(self, n):\n            return n * scale + offset\n    return Ruler\nR = build(3)\nprint(R.unit, R().measure(2), R.__qualname__)\n"),
    ("class-shadows-global", "size = 'global'\nclass Box:\n    print('in body', size)\n    size = 'class'\n    print('in body', size)\n    def get(self):\n        return size\nprint(Box.size, Box().get())\n"),
    ("class-body-error", "print('before')\nclass Broken:\n    first = 1\n    second = first / 0\n    third = 3\nprint('after')\n"),
    ("class-body-undefined", "class Broken:\n    value = missing_name + 1\n"),
    ("class-body-prints", "class Loud:\n    print('defining Loud')\n    for i in range(2):\n        print('step', i)\nprint(Loud.i)\n"),
    ("class-body-locals", "class K:\n    a = 1\n    names = sorted(n for n in locals() if not n.startswith('_'))\nprint(K.names)\n"),
    ("super-zero-arg", "class Base:\n    def hi(self):\n        return 'base'\nclass Child(Base):\n    def hi(self):\n        return 'child+' + super().hi()\nprint(Child().hi())\n"),
    ("super-class-cell", "class A:\n    def me(self):\n        return __class__.__name__\nclass B(A):\n    pass\nprint(B().me())\n"),
    ("slots", "class P:\n    __slots__ = ('x',)\n    def __init__(self):\n        self.x = 1\np = P()\nprint(p.x)\np.y = 2\n"),
    ("metaclass-keyword", "class Meta(type):\n    def __new__(m, name, bases, ns, **kw):\n        ns['tag'] = kw.get('tag', 'none')\n        return super().__new__(m, name, bases, ns)\nclass A(metaclass=Meta, tag='t'):\n    pass\nprint(A.tag, type(A).__name__)\n"),
    ("init-subclass", "class Plugin:\n    found = []\n    def __init_subclass__(cls, **kw):\n        Plugin.found.append(cls.__name__)\nclass One(Plugin):\n    pass\nclass Two(Plugin):\n    pass\nprint(Plugin.found)\n"),
    ("set-name", "class Field:\n    def __set_name__(self, owner, name):\n        self.label = owner.__name__ + '.' + name\nclass Form:\n    age = Field()\nprint(Form.age.label)\n"),
    ("enum", "import enum\nclass Color(enum.Enum):\n    RED = 1\n    BLUE = 2\nprint(Color.RED, Color(2).name, [c.value for c in Color], Color.RED.__class__.__module__)\n"),
    ("namedtuple", "from collections import namedtuple\nPoint = namedtuple('Point', 'x y')\np = Point(1, y=2)\nprint(p, p.x + p.y, Point.__module__, p._asdict())\n"),
    ("private-name-mangling", "class Safe:\n    def __init__(self):\n        self.__code = 7\n    def reveal(self):\n        return self.__code\ns = Safe()\nprint(s.reveal(), sorted(vars(s)))\nprint(s.__code)\n"),
    ("inheritance-mro", "class A:\n    def who(self):\n        return 'A'\nclass B(A):\n    pass\nclass C(A):\n    def who(self):\n        return 'C'\nclass D(B, C):\n    pass\nprint(D().who(), [k.__name__ for k in D.__mro__])\n"),
]

SCOPES = [
    ("closure", "def counter():\n    n = 0\n    def inc():\n        nonlocal n\n        n += 1\n        return n\n    return inc\nc = counter()\nprint(c(), c(), c.__closure__[0].cell_contents)\n"),
    ("late-binding", "fs = [lambda: i for i in range(3)]\nprint([f() for f in fs])\n"),
    ("unbound-local", "x = 1\ndef f():\n    print(x)\n    x = 2\nf()\n"),
    ("global-at-module-level", "global z\nz = 3\nprint(z)\n"),
    ("global-created-in-function", "def make():\n    global made\n    made = 'yes'\nmake()\nprint(made)\n"),
    ("nonlocal-missing", "def f():\n    nonlocal q\n    q = 1\n"),
    ("generator", "def gen(n):\n    for i in range(n):\n        got = yield i\n        if got:\n            print('got', got)\ng = gen(3)\nprint(next(g), g.send('x'), list(g))\n"),
    ("generator-expression", "total = sum(v * v for v in range(5) if v % 2)\nprint(total)\n"),
    ("walrus", "data = [1, 5, 9]\nif (n := len(data)) > 2:\n    print('long', n)\nprint([y for v in data if (y := v * 2) > 4], y)\n"),
    ("match", "def what(v):\n    match v:\n        case 0:\n            return 'zero'\n        case [a, b]:\n            return 'pair %s %s' % (a, b)\n        case {'k': k}:\n            return 'k=%s' % k\n        case str() as s:\n            return 'text ' + s\n        case _:\n            return 'other'\nprint(what(0), what([1, 2]), what({'k': 3}), what('t'), what(2.5))\n"),
    ("with", "class Res:\n    def __enter__(self):\n        print('enter')\n        return self\n    def __exit__(self, *exc):\n        print('exit', exc[0].__name__ if exc[0] else None)\n        return False\nwith Res() as r:\n    print('inside')\nwith Res():\n    1 / 0\n"),
    ("star-unpacking", "first, *rest = [1, 2, 3, 4]\nprint(first, rest, [*rest, *'ab'], {**{'a': 1}, 'b': 2})\na, b = 1, 2, 3\n"),
    ("comprehension-scope", "v = 'outer'\nsquares = [v * v for v in range(3)]\nprint(v, squares)\n"),
    ("try-finally-return", "def f():\n    try:\n        return 'try'\n    finally:\n        print('finally')\nprint(f())\n"),
    ("exception-name-cleared", "try:\n    1 / 0\nexcept ZeroDivisionError as err:\n    pass\nprint(err)\n"),
    ("exception-group", "try:\n    raise ExceptionGroup('many', [ValueError(1), TypeError(2)])\nexcept* ValueError as eg:\n    print('values', len(eg.exceptions))\nexcept* TypeError:\n    print('types')\n"),
    ("chained-comparison", "x = 5\nprint(1 < x < 10, 1 < x > 7, x == 5 != 4)\n"),
    ("positional-only", "def f(a, /, b, *, c):\n    return a + b + c\nprint(f(1, 2, c=3))\nprint(f(a=1, b=2, c=3))\n"),
    ("keyword-argument-errors", "def f(a, b=2):\n    return a + b\nprint(f(b=1, a=2))\nf(1, a=2)\n"),
    ("recursion-default-args", "def walk(n, seen=None):\n    seen = seen or []\n    seen.append(n)\n    return seen if n == 0 else walk(n - 1, seen)\nprint(walk(3))\n"),
    ("fstring-nesting", "w = 8\nv = 3.14159\nprint(f'{v:{w}.2f}|{v!r:>10}|{\"a\" + \"b\"}|{w=}')\n"),
    ("del-and-reuse", "x = [1]\ny = x\ndel x\nprint(y)\nprint(x)\n"),
    ("lambda-default", "make = lambda n, step=2: [n + i * step for i in range(3)]\nprint(make(1), make(1, step=0))\n"),
    ("async-def", "import asyncio\nasync def work(n):\n    await asyncio.sleep(0)\n    return n * 2\nprint(asyncio.run(work(4)))\n"),
]
SCOPE_CALLS = {
    "closure": [{"fn": "c", "args": [], "kwargs": {}}, {"fn": "c", "args": [], "kwargs": {}}],
    "match": [{"fn": "what", "args": ["[3, 4]"], "kwargs": {}}, {"fn": "what", "args": ["{'k': None}"], "kwargs": {}}],
    "unbound-local": [{"fn": "f", "args": [], "kwargs": {}}],
    "positional-only": [{"fn": "f", "args": ["1", "2"], "kwargs": {"c": "3"}}, {"fn": "f", "args": ["1"], "kwargs": {"b": "2", "c": "3"}}],
}

SOURCE_TEXT = [
    ("leading-blank-lines", "\n\n\nprint('line 4')\nboom = 1 // 0\n"),
    ("leading-comments", "# one\n# two\n\n# four\nvalue = int('five')\n"),
    ("no-final-newline", "print('a')\nboom = [][0]"),
    ("no-final-newline-in-block", "def f():\n    return 1\nif f():\n    print('yes')"),
    ("trailing-spaces", "x = 1   \nprint(x)    \n\n   \ny = x.nope\n"),
    ("tabs", "def f():\n\treturn 1\nif f():\n\tprint('tab')\n\tboom = f.nope\n"),
    ("tab-error", "print('before')\nif True:\n        a = 1\n\tb = 2\n"),
    ("indentation-error", "print('before')\ndef f():\nreturn 1\n"),
    ("unindent-error", "if True:\n        a = 1\n    b = 2\n"),
    ("unterminated-string", "print('ok')\ntext = 'never closed\nprint(text)\n"),
    ("unterminated-triple", "print('ok')\ntext = '''never\nclosed\n"),
    ("unclosed-bracket", "values = [1, 2,\nprint(values)\n"),
    ("form-feed", "x = 1\n\x0cy = 2\nprint(x + y)\nz = y.nope\n"),
    ("continuation", "total = 1 + \\\n    2 + \\\n    undefined_thing\n"),
    ("continuation-in-call", "print('a',\n      'b',\n      [][1],\n      'd')\n"),
    ("semicolon-error", "a = 1; b = a / 0; c = 3\n"),
    ("non-ascii-identifier", "größe = 3\nprint(größe * 2)\nнет = größe.bit_length()\n"),
    ("nfkc-identifier", "ﬁle = 1\nprint(file)\n"),
    ("non-ascii-comment-and-error", "# ünï ☃\ntext = 'ünï ☃'\nprint(text)\nboom = text.ñope\n"),
    ("long-expression", "value = (" + " + ".join(str(i) for i in range(60)) + ")\nprint(value)\nboom = value.nope\n"),
    ("invalid-character", "price = 5\nprint(price)\ncost = price × 2\n"),
    ("keyword-as-name", "class = 3\n"),
    ("assignment-to-literal", "print('before')\n5 = x\n"),
    ("return-outside", "print('before')\nreturn 5\n"),
    ("break-outside", "print('before')\nbreak\n"),
    ("crlf", "x = 1\r\nif x:\r\n    print('crlf')\r\ny = x.nope\r\n"),
    ("cr-only-in-string", "text = 'a\\rb'\nprint(len(text))\n"),
    ("zero-width-space", "x = 1\n\u200bprint(x)\n"),
    ("smart-quotes", "print(\u201chello\u201d)\n"),
    ("deep-nesting", "v = " + "[" * 40 + "1" + "]" * 40 + "\nprint(len(str(v)))\n"),
    ("print-statement", "print 'python 2'\n"),
    ("exec-statement-style", "x = 010\n"),
    ("walrus-in-annotation-free", "if (n := 3) > 2: print(n)\n"),
]

FAMILIES = [("optimize", OPTIMIZE, OPTIMIZE_CALLS), ("mode", MODE, {}), ("module", MODULE_FACE, {}),
            ("decorator", DECORATORS, DECORATOR_CALLS), ("class-body", CLASS_BODIES, {}), ("scope", SCOPES, SCOPE_CALLS),
            ("source", SOURCE_TEXT, {})]


# ----------------------------------------------------------------------------------------------------------------

def mk(code, calls, inputs, shape, rng):
    return {"code": code, "filename": rng.choice(["answer.py", "answer.py", "student.py", "hw 1.py"]),
            "inputs": list(inputs), "calls": [dict(c) for c in calls], "api": rng.choice(["commands", "sandbox"]),
            "shape": [shape]}


def fingerprint(code):
    """What the compiler made of the source, without the flags word itself (it records the feature even when the
    feature changed nothing)."""
    return (code.co_code, code.co_names, code.co_varnames, code.co_freevars, code.co_cellvars,
            tuple(fingerprint(c) if hasattr(c, "co_code") else (type(c).__name__, repr(c)) for c in code.co_consts))


def flag_sensitivity(cases):
    """Per inheritable compiler flag / optimisation level / mode: how many of the programs compile to different code
    (or stop compiling, or start compiling) under it.  Pure compilation in this process, nothing is executed."""
    def image(code, mode="exec", **kw):
        try:
            return fingerprint(compile(code, "answer.py", mode, dont_inherit=True, **kw))
        except Exception as e:      # noqa
            return "error:" + type(e).__name__
    out = {}
    variants = [("future:" + n, {"flags": getattr(__future__, n).compiler_flag}) for n in FUTURE_FEATURES] + \
               [("optimize:1", {"optimize": 1}), ("optimize:2", {"optimize": 2}), ("mode:single", {"mode": "single"})]
    base = [image(c["code"], optimize=0) for c in cases]
    for name, kw in variants:
        kw = dict({"optimize": 0}, **kw)
        out[name] = sum(1 for c, b in zip(cases, base) if image(c["code"], **kw) != b)
    return out


def compile_cases(rng, tier):
    """-> (cases, info)"""
    quick = tier == "quick"
    cases = []
    combos = []
    for pos in POSITIONS:
        for typ in TYPES:
            for obs in OBSERVERS:
                combos.append((pos, typ, obs))
    if quick:
        # every position, every kind of annotation and every observer at least once; the rest sampled
        chosen = []
        for pos in POSITIONS:
            chosen.append((pos, rng.choice(TYPES), rng.choice(OBSERVERS)))
        for typ in TYPES:
            chosen.append((rng.choice(list(POSITIONS)), typ, rng.choice(OBSERVERS)))
            chosen.append((rng.choice(["param", "return", "module-var", "class-attr", "method"]), typ, OBSERVERS[0]))
        for obs in OBSERVERS:
            chosen.append((rng.choice(list(POSITIONS)), rng.choice(TYPES), obs))
        chosen += rng.sample(combos, 140)
    else:
        chosen = rng.sample(combos, 2600)
    made = 0
    for pos, typ, obs in chosen:
        built = annotation_program(pos, typ, obs)
        if built is None:
            continue
        code, inputs, calls = built
        made += 1
        cases.append(mk(code, calls, inputs, "compile:annotation:%s:%s:%s" % (pos, typ[0], obs[0]), rng))
    for name, code in future_programs():
        cases.append(mk(code, [], [], "compile:" + name, rng))
    for fam, progs, calls in FAMILIES:
        for name, code in progs:
            cases.append(mk(code, calls.get(name, []), [], "compile:%s:%s" % (fam, name), rng))
    info = {"annotation_programs": made, "annotation_combinations": len(combos), "future_features_read": FUTURE_FEATURES,
            "cases": len(cases), "flag_sensitive_programs": flag_sensitivity(cases)}
    return cases, info

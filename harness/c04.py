"""C04 — student-code failures are contained and reported, never raised into the grader."""
import sys
import sandboxexec_check as sc

THEOREMS = [
    "Pedal.SandboxExec.c04_ladder_contains",
    "Pedal.SandboxExec.c04_import_transparent",
    "Pedal.SandboxExec.c04_tracers_let_failures_through",
    "Pedal.SandboxExec.c04_contained",
    "Pedal.SandboxExec.c04_exception_available",
    "Pedal.SandboxExec.c04_exactly_one_runtime_feedback",
    "Pedal.SandboxExec.c04_runtime_category",
    "Pedal.SandboxExec.c04_location_on_student_line",
    "Pedal.SandboxExec.c04_location_of_compile_failure",
    "Pedal.SandboxExec.c04_normal_run_reports_nothing",
    "Pedal.SandboxExec.c04_blocked_features_reported",
    "Pedal.SandboxExec.c04_history",
    "Pedal.SandboxExec.c04_contained_when_nested",
    "Pedal.SandboxExec.c04_contained_partial",
    "Pedal.SandboxExec.c04_contained_full_of_no_excluded",
    "Pedal.SandboxExec.c04_contained_counterexample",
    "Pedal.SandboxExec.c04_counterexample_applies",
]
NOTES = [
    "control flow of Sandbox._execute depends on the termination only through (normal/raised/compile failure, "
    "isinstance Exception, isinstance SystemExit, does recording it raise) and on the two stack depths; CPython's "
    "try/except/else/finally and `with` semantics are the model's (planTry)",
    "the handler ladder is read from the AST of Sandbox._execute BY MEANING (sandboxexec_ladder.py: locals followed, "
    "private helpers / local functions inlined, the non-threaded path selected by partial evaluation, an except "
    "clause over a tuple of classes - inline, class / module constant, local - and an isinstance dispatch inside "
    "`except BaseException` expanded into the equivalent sequence of clauses) and CROSS-CHECKED against the behaviour "
    "of the real _execute measured on an instrumented sandbox (17 scenarios: normal / Exception / SystemExit / both / "
    "neither / compile failure x recording succeeds / fails); a simple statement the reader cannot follow is taken "
    "from the measurement, a disagreement or anything left over is Act.unknown; _start_mocking/_stop_mocking/_stop_patches/"
    "_reset_builtins, the tracer styles, ExpandedTraceback.line_number (4 crafted tracebacks) and the exception-object "
    "hazards (6 probe programs through run()) are PROBED on the tree under test and enter the theorems as tables",
    "EXCEPTION_FF_MAP lookup is by exact class, modelled by class NAME: generated programs never define a class "
    "named like a builtin exception",
    "a failure inside an imported student file (Sandbox._import, no handlers of its own - c04_import_transparent, from "
    "its AST) is the termination of the importing execution with the imported file's frames innermost; the mocked "
    "__import__ that reaches _import is exercised, not modelled",
    "c04_history imports C05's stack invariant as the hypothesis StacksRestored (discharged in PedalProofs/C05.lean)",
    "section line offsets (Submission.line_offsets) are not modelled - C17 covers them; histories use no sections",
    "time limits are C14's. THREADED executions that end by themselves (sandbox.threaded = True, threaded=True "
    "passed, only the imports of student files threaded) are not modelled but SAMPLED: each is compared with the "
    "model's answer for the same history unthreaded and judged by the oracle (a BaseException that is neither "
    "Exception nor SystemExit is outside the statement and, in a worker thread, CPython's business: not compared)",
    "NESTED executions (started through an instructor hook while another execution is in progress on the same "
    "sandbox) are modelled (executeN / runN); c04_contained_when_nested: the call returns at any depth of the "
    "stacks (C05's depth independence of the ladder as the hypothesis DepthIndependent, discharged in C05.lean); exception slot and feedbacks of nested trees are compared through the driver (nhist), not proved; the "
    "sandbox has ONE exception slot: after an outer execution that ends normally it holds the failure of a nested "
    "one (modelled, and the oracle's 'no exception after a normal end' clause is skipped and counted there)",
    "odd exception OBJECTS: falsy / zero-length / equal-to-everything / unhashable instances are ordinary "
    "descriptors for the model (nothing in it tests an exception's truth or equality - that the code does not "
    "either is what the generator samples); an exception whose truth test RAISES is the hazard truthRaises, probed",
    "the traced exec (`with self.trace.as_filename(...): exec(...)`) is a TRANSPARENT step of the model: what the code "
    "raises is what the handlers of _execute see. That the tracer's context manager suppresses or replaces nothing is "
    "PROBED (c04_tracers_let_failures_through: every tracer style x every exception class named in pedal/sandbox, the "
    "traceback renderer and the library modules the tracer styles are built on, and all their bases, entered once and "
    "re-entered) and SAMPLED (sandboxexec_special.py: those classes raised exactly / as a subclass under every style "
    "and from every place); classes outside that table are only sampled by the builtin sweep with rotating style",
    "the model has no notion of the THREAD the grader runs on: its answer for a history is the same whether run / call "
    "/ evaluate are called from the main thread, a plain threading.Thread, a pool worker, a thread `threading` did not "
    "start or a Timer; that the real code is equally indifferent is SAMPLED (histories carrying `on`), not proved. A "
    "grader that itself runs inside pedal's own timeout() is a GATED input (fails on the unchanged tree, reported)",
    "the model has no notion of SIZE (inputs consumed, output printed, traceback depth, message / argument / source "
    "length) nor of the report's formatter: its answer depends on the termination descriptor only. That the real code "
    "is equally indifferent is SAMPLED by the size sweep of the correspondence / search (limits read from the tree "
    "under test), not proved - the text of the feedback message (format_contexts, format_traceback, Formatter) is "
    "not modelled",
    "WHICH REPORT is graded (MAIN_REPORT / a Report of its own through commands with report= / a Sandbox(report=...) "
    "object; MAIN_REPORT and a third report alive beside it, each with a healthy decoy program) and the EXECUTED TEXT "
    "differing from the text stored under the file name (lines appended / fewer lines / another student file / CR "
    "line ends) are not in the model: sampled (sandboxexec_where.py), the observations on the GRADED report are "
    "compared with the model's answer for the same history, and the oracle demands that no other live report gains a "
    "feedback or an exception (`feedback-on-another-report`); expected class / lines of the text histories come from "
    "CPython executing the text",
]


def refuted(info):
    if info.get("unguarded"):
        return [{"statement": "Pedal.SandboxExec.C04_Contained_Full",
                 "refuted_by": "Pedal.SandboxExec.c04_contained_counterexample",
                 "known_finding": {"c04": "escaped", "shape": "exception-attribute-read-raises"},
                 "unguarded_hazards": info.get("unguarded")}]
    return []


if __name__ == "__main__":
    sys.exit(sc.make("C04", THEOREMS, model_notes=NOTES, refuted_full=refuted)())

"""
The SIZE dimension of C04 / C05 histories.

Recording a failure is not only `_execute`'s handler ladder: `_capture_exception` builds the runtime feedback, and that
path (ExpandedTraceback.build_traceback / format_traceback / format_line, runtime_error.__init__, format_contexts,
the Formatter of the report, Sandbox._construct_call / _make_temporary for the text of a call) abbreviates what it
shows once something gets LARGE: more inputs consumed than INPUT_MAXIMUM_LINES, more traceback frames than
MAXIMUM_RELEVANT_FRAMES, an argument whose repr is longer than MAXIMUM_TEMPORARY_LENGTH, ...  Each of those branches
is code that runs only beyond a threshold, and an exception raised there escapes run() / call() / evaluate().

Nothing here hard-codes those thresholds: `discover_limits()` reads every UPPER_CASE integer constant (module level
and class level) and every integer literal used in a comparison, a slice or a parameter default from the modules of
the tree under test that take part in recording a failure; `boundary_values()` turns them into sizes just below, at,
just above, at twice and at half of each limit; every size dimension below is then swept over ALL of these values (a
limit may be applied to another quantity tomorrow), and the value just above a limit whose NAME says which dimension
it bounds is marked `essential` (always part of the quick tier).

The descriptor of every program is still written down by construction (class, flags, student frames); the Lean model
does not mention sizes at all - which is exactly the claim that is sampled here: the outcome of recording a failure
does not depend on how much the execution consumed, printed, nested or was given.
"""
import ast
import builtins
import importlib
import inspect
import io
import contextlib
import copy
import traceback

from common import use_repo
import sandboxexec_common as sx

use_repo()

# the modules that take part in recording a failure and rendering its feedback
RENDER_MODULES = [
    "pedal.sandbox.data", "pedal.sandbox.sandbox", "pedal.sandbox.feedbacks", "pedal.utilities.exceptions",
    "pedal.core.formatting", "pedal.utilities.text", "pedal.sandbox.commands", "pedal.sandbox.mocked",
    "pedal.sandbox.tracer", "pedal.sandbox.result", "pedal.core.feedback", "pedal.core.location",
    "pedal.core.report", "pedal.core.submission",
]

# which size dimension a NAMED limit talks about (by the words in its name); a named limit that matches no word is
# treated as essential for every dimension
DIM_WORDS = {
    "inputs": ("INPUT",),
    "depth": ("FRAME", "TRACEBACK", "STACK", "DEPTH", "LEVEL"),
    "callargs": ("TEMPORARY", "ARG", "REPR", "LITERAL"),
    "output": ("OUTPUT", "PRINT"),
    "message": ("MESSAGE", "TEXT", "WIDTH"),
    "source": ("SOURCE", "CODE", "COLUMN"),
}
DIMS = ["inputs", "depth", "callargs", "output", "message", "source"]
SMALL_MAX = 2000        # limits up to this size are swept in every dimension
LITERAL_MAX = 64        # bare integer literals in comparisons / slices only when this small
DECLARED_MAX = 512      # integer parameter defaults and local UPPER_CASE constants up to this size
HUGE_MAX = 300000       # a named limit up to this size is still reached once, in its own dimension


def _int_const(node):
    if isinstance(node, ast.Constant) and type(node.value) is int:
        return node.value
    if isinstance(node, ast.UnaryOp) and isinstance(node.op, ast.USub) and isinstance(node.operand, ast.Constant) \
            and type(node.operand.value) is int:
        return node.operand.value
    return None


def discover_limits():
    """-> (named: {qualified name: int}, literals: sorted list of int) read from the tree under test."""
    named, literals = {}, set()
    for modname in RENDER_MODULES:
        try:
            mod = importlib.import_module(modname)
        except Exception:
            continue
        for name, value in list(vars(mod).items()):
            if name.isupper() and type(value) is int:
                named["%s.%s" % (modname, name)] = value
            elif isinstance(value, type) and getattr(value, "__module__", None) == modname:
                for n2, v2 in list(vars(value).items()):
                    if n2.isupper() and type(v2) is int:
                        named["%s.%s.%s" % (modname, value.__name__, n2)] = v2
        try:
            tree = ast.parse(inspect.getsource(mod))
        except Exception:
            continue
        for node in ast.walk(tree):
            found = []
            if isinstance(node, ast.Compare):
                found = [node.left] + list(node.comparators)
            elif isinstance(node, ast.Slice):
                found = [node.lower, node.upper]
            elif isinstance(node, (ast.FunctionDef, ast.AsyncFunctionDef, ast.Lambda)):
                found = list(node.args.defaults) + [d for d in node.args.kw_defaults if d is not None]
            elif isinstance(node, ast.Assign) and any(isinstance(t, ast.Name) and t.id.isupper() for t in node.targets):
                # a local / nested UPPER_CASE constant (e.g. MIDWAY_POINT = N // 2 is not a literal, but X = 12 is)
                found = [node.value]
            declared = not isinstance(node, (ast.Compare, ast.Slice))     # a default / a constant: limit-like
            for sub in found:
                v = _int_const(sub) if sub is not None else None
                if v is not None and 2 <= abs(v) <= (DECLARED_MAX if declared else LITERAL_MAX):
                    literals.add(abs(v))
    return named, sorted(literals)


def dims_of(qualified_name):
    last = qualified_name.rsplit(".", 1)[-1]
    hit = [d for d in DIMS if any(w in last for w in DIM_WORDS[d])]
    return hit or list(DIMS)


def around(v):
    return {v - 1, v, v + 1, v + 2, 2 * v, 2 * v + 1, v // 2, v // 2 + 1}


def boundary_values(named, literals):
    """-> (values: sorted sizes to sweep in every dimension,
           essential: {dim: set of sizes just above a limit whose name points at that dimension},
           huge: {dim: set of sizes at a large named limit of that dimension})."""
    values = {0, 1, 2, 3}
    essential = {d: set() for d in DIMS}
    huge = {d: set() for d in DIMS}
    for qn, v in named.items():
        if v < 2:
            continue
        if v <= SMALL_MAX:
            values |= around(v)
            for d in dims_of(qn):
                essential[d].add(v + 1)
        elif v <= HUGE_MAX:
            for d in dims_of(qn):
                huge[d].add(v)
    for v in literals:
        values |= {v - 1, v, v + 1}
    return sorted(x for x in values if x >= 0), essential, huge


_CACHE = {}


def limits():
    if "v" not in _CACHE:
        named, literals = discover_limits()
        values, essential, huge = boundary_values(named, literals)
        _CACHE["v"] = {"named": named, "literals": literals, "values": values, "essential": essential, "huge": huge}
    return _CACHE["v"]


# --------------------------------------------------------------------------
# CPython as the oracle for the line a failure is on (only for the source-shape family, where "the failing line" of
# a statement that spans several lines is CPython's decision)


def cpython_frames(lines):
    """The snippet run alone by plain CPython: (class, [0-based line indexes of its frames, outermost first])."""
    src = "\n".join(lines) + "\n"
    name = "<verif-size-snippet>"
    try:
        with contextlib.redirect_stdout(io.StringIO()):
            exec(compile(src, name, "exec"), {"__name__": "__main__", "input": lambda *a: "0"})
    except BaseException as e:      # noqa
        own = [f.lineno - 1 for f in traceback.extract_tb(e.__traceback__) if f.filename == name]
        return type(e), own
    return None, []


# --------------------------------------------------------------------------
# sized snippets (same structure as sandboxexec_common.snip, plus `inputs`, `size`, `essential`, `run_only`)


def _sized(lines, fail_at, cls, flags, dim, n, *, shape, inner=(), tail=(), inputs=None, run_only=False, bases=None):
    # the shape (part of a failure's signature) names the DIMENSION only; which program and how large is in `size`
    sn = sx.snip(lines, fail_at, cls, flags, inner=inner, tail=tail, shape="size:" + dim, bases=bases)
    sn["size"] = {"dim": dim, "n": n, "kind": shape}
    if inputs is not None:
        sn["inputs"] = inputs
    if run_only:
        sn["run_only"] = True
    return sn


def inputs_snippets(n):
    out = []
    # (a) reads n inputs, then fails
    out.append(_sized(["count = 0", "while count < %d:" % n, "    text = input('value? ')", "    count += 1",
                       "number = int('done')"], 4, "ValueError", dict(exc=True), "inputs", n,
                      shape="inputs-then-fail", inputs=[str(i) for i in range(n)]))
    if n >= 1:
        # (b) fails ON the n-th input
        out.append(_sized(["total = 0", "while True:", "    text = input()", "    total += 10 // int(text)"], 3,
                          "ZeroDivisionError", dict(exc=True), "inputs", n, shape="inputs-last-fails",
                          inputs=[str(i + 1) for i in range(n - 1)] + ["0"]))
        # (c) the queue runs dry half way: pedal answers for the rest
        out.append(_sized(["seen = []", "for k in range(%d):" % n, "    seen.append(input('more: '))",
                           "seen[len(seen)]"], 3, "IndexError", dict(exc=True), "inputs", n,
                          shape="inputs-queue-runs-dry", inputs=["w%d" % i for i in range(n // 2)]))
        # (d) the instructor queued NON-STRING values (ints, a float, None, a bool): input() hands the student their
        # text, and the feedback for the failure that follows must still be built (round 5, seed C04_I)
        mixed = [7, 2.5, None, True, 0, -3]
        out.append(_sized(["count = 0", "while count < %d:" % n, "    text = input('value? ')", "    count += 1",
                           "number = int('done')"], 4, "ValueError", dict(exc=True), "inputs", n,
                          shape="inputs-not-strings-then-fail", inputs=[mixed[i % len(mixed)] for i in range(n)]))
    return out


def endless_input_snippet(n):
    """pedal itself gives up after MAXIMUM_INPUTS calls: an IOError raised inside pedal's input tracker.  The loop is
    bounded all the same (a little beyond n), so that a tree WITHOUT such a limit cannot hang the check; whether n
    really is that limit on this tree is probed first (`gives_up_at`)."""
    return _sized(["for k in range(%d):" % (n + 10), "    input()", "v = 1 / 0"], 1, "OSError", dict(exc=True),
                  "inputs", n, tail=["P"], shape="inputs-endless", inputs=[])


def gives_up_at(n):
    """Does the tree under test stop a program that asks for input n times?  (No: the program reaches its own
    `1 / 0` - then n is some other limit, and the program's end is not the one written in the descriptor.)"""
    key = ("gives-up", n)
    if key not in _CACHE:
        sn = endless_input_snippet(n)
        op = {"entry": "run", "style": "none", "inject": False, "code": "\n".join(sn["lines"]) + "\n",
              "term": ["R", sx.make_desc(sn, [["S", 2], ["P", 0]])], "shape": "probe", "inputs": []}
        try:
            o = sx.run_history([op])[0]
            _CACHE[key] = o["exc"] != "ZeroDivisionError"
        except Exception:
            _CACHE[key] = False
    return _CACHE[key]


def depth_snippets(k):
    out = []
    if k >= 1:
        lines = ["def d0():", "    return [][1]"]
        for i in range(1, k):
            lines += ["def d%d():" % i, "    return d%d()" % (i - 1)]
        lines.append("d%d()" % (k - 1))
        inner = [2 * i + 1 for i in range(k - 1, -1, -1)]
        out.append(_sized(lines, 2 * k, "IndexError", dict(exc=True), "depth", k, shape="depth-chain", inner=inner))
    out.append(_sized(["def down(n):", "    if n <= 0:", "        return {}['missing']", "    return down(n - 1)",
                       "down(%d)" % k], 4, "KeyError", dict(exc=True, keyerr=True), "depth", k,
                      shape="depth-recursion", inner=[3] * k + [2]))
    return out


def output_snippets(n):
    return [
        _sized(["for i in range(%d):" % n, "    print('line', i)", "v = 1 / 0"], 2, "ZeroDivisionError",
               dict(exc=True), "output", n, shape="output-lines"),
        _sized(["print('x' * %d)" % n, "v = undefined_name"], 1, "NameError", dict(exc=True), "output", n,
               shape="output-long-line"),
        _sized(["import sys", "sys.stdout.write('y' * %d)" % n, "v = (5).nothing"], 2, "AttributeError",
               dict(exc=True), "output", n, shape="output-no-newline"),
    ]


def message_snippets(n):
    return [
        _sized(["raise ValueError('m' * %d)" % n], 0, "ValueError", dict(exc=True), "message", n,
               shape="message-length"),
        _sized(["raise RuntimeError('line\\n' * %d)" % n], 0, "RuntimeError", dict(exc=True), "message", n,
               shape="message-lines"),
        _sized(["raise TypeError(*range(%d))" % n], 0, "TypeError", dict(exc=True), "message", n,
               shape="message-args"),
        _sized(["class %s(Exception):" % ("N" * max(n, 1)), "    pass", "raise %s('named')" % ("N" * max(n, 1))], 2,
               "N" * max(n, 1), dict(exc=True), "message", n, shape="message-class-name", bases=["Exception"]),
    ]


def source_snippets(n):
    out = [
        # a failing line that is n items long
        _sized(["v = [" + "0, " * n + "][%d]" % (n + 5)], 0, "IndexError", dict(exc=True), "source", n,
               shape="source-long-line"),
        # n lines of code before the failing one
        _sized(["x%d = %d" % (i, i) for i in range(n)] + ["v = 'a' + 1"], n, "TypeError", dict(exc=True), "source", n,
               shape="source-many-lines"),
    ]
    # a failing statement that spans n + 2 lines: which of them "the" line is, is CPython's decision
    for lines, cls, tag in (
            (["v = ["] + ["    %d," % i for i in range(n)] + ["][%d]" % (n + 5)], "IndexError", "subscript"),
            (["v = int("] + ["    # nothing"] * n + ["    'five')"], "ValueError", "call"),
            (["v = (1 +"] + ["     1 +"] * n + ["     'a')"], "TypeError", "binop")):
        got, frames = cpython_frames(lines)
        if got is None or got.__name__ != cls or len(frames) != 1:
            continue
        out.append(_sized(lines, frames[0], cls, dict(exc=True), "source", n, shape="source-multiline-" + tag))
    return out


# arguments of call(): Python source of each argument (evaluated by the runner), so that the op stays JSON


def callargs_cases(n):
    return [
        {"argsrc": ["'a' * %d" % max(n - 2, 0)], "tag": "callargs-str"},          # repr is n characters long
        {"argsrc": ["[0] * %d" % n], "tag": "callargs-list"},
        {"argsrc": ["%d" % i for i in range(n)], "tag": "callargs-count"},
        {"argsrc": [], "kwargsrc": {"k%d" % i: "%d" % i for i in range(min(n, 200))}, "tag": "callargs-kwcount"},
        {"argsrc": ["10 ** %d" % n], "kwargsrc": {"key": "'b' * %d" % n}, "tag": "callargs-int-and-kw"},
        {"argsrc": ["b'z' * %d" % n, "tuple(range(%d))" % n], "tag": "callargs-bytes-tuple"},
    ]


# values whose repr is NOT a literal that evaluates back (pedal passes them through a temporary variable)
UNFAITHFUL_ARGS = [
    ["float('inf')"], ["float('nan')", "-0.0"], ["range(3)"], ["object()"], ["lambda: 0"], ["set()"], ["{1, 2}"],
    ["..."], ["int"], ["[float('inf')]"], ["{'k': object()}"], ["''"], ["None", "True", "0"], ["'\\n\\r\\x00\\udc80'"],
    ["'{braces} {0}'"], ["1e400", "1j"], ["frozenset()"], ["bytearray(b'q')"],
]


# --------------------------------------------------------------------------
# not sizes, but the same blind spot: what the rendering is handed (message text, constructor arguments, class
# names, positions of a hand-made SyntaxError, exceptions that cannot be built without arguments)

MESSAGE_EXPRS = [
    "''", "' '", "'x'", "'\\n'", "'\\n\\nleading'", "'trailing\\n'", "'{0} {name} {'", "'}{'", "'%s %d %'",
    "'<b>&amp;</b>'", "'\\x00'", "'\\udc80'", "'\\xdf'", "'\\u01c6'", "'\\U0001F600' * 3", "'\\r'", "'\\x1b[31mred'",
    "'\\ttab'", "'\\u2028sep'", "None", "0", "b'bytes'", "['x'] * 300", "ValueError('inner')", "{'k': 1}", "''  , ''",
    "'a', 'b'", "()", "object", "1.5",
]
CLASS_NAMES = ["e", "q", "Q", "_", "_E", "E", "Ünicode", "aeiou", "Apple", "__", "x9", "Δ", "SHOUT"]
SYNTAX_POSITIONS = [
    "('answer.py', 999, 5, 'x')", "('answer.py', 0, 0, 'x')", "('answer.py', 1, 10 ** 6, 'x')",
    "('answer.py', 1, None, 'x')", "('answer.py', 1, 1, None)", "('answer.py', 1, 3, 'x', 1, 0)",
    "('answer.py', 1, 3, 'x', 1, -1)", "('answer.py', 1, 3, 'x', 99, 1)", "('answer.py', 1, 3, 'x', None, None)",
    "('answer.py', 1, 0, '')", "('helper.py', 1, 1, 'x')", "('', 1, 1, 'x')",
]
CONSTRUCTED = [
    (["b'\\xff'.decode('utf-8')"], 0, "UnicodeDecodeError", "c:unicode-decode"),
    (["'\\xff'.encode('ascii')"], 0, "UnicodeEncodeError", "c:unicode-encode"),
    (["raise UnicodeDecodeError('utf-8', b'\\xff' * 500, 0, 499, 'r' * 500)"], 0, "UnicodeDecodeError",
     "unicode-decode-long"),
    (["raise OSError(2, 'No such file', 'data.txt')"], 0, "FileNotFoundError", "oserror-errno"),
    (["raise OSError(13, 'm' * 400, 'f' * 400, 0, 'g' * 400)"], 0, "PermissionError", "oserror-long"),
    (["n = int('9' * 5000)"], 0, "ValueError", "c:int-too-long"),
    (["v = 2.0 ** 100000"], 0, "OverflowError", "c:overflow"),
    (["[].pop()"], 0, "IndexError", "c:pop-empty"),
    (["str(b'x', 'no-such-codec')"], 0, "LookupError", "c:lookup"),
    (["import json", "json.loads('[' * 5 + '1,' * 50)"], 1, "JSONDecodeError", "library:json-long"),
    (["raise ImportError('m', name='n' * 300, path='p' * 300)"], 0, "ImportError", "importerror-fields"),
    (["raise AttributeError('m', name='attr', obj=[0] * 500)"], 0, "AttributeError", "attributeerror-fields"),
    (["raise StopIteration([1] * 500)"], 0, "StopIteration", "stopiteration-value"),
    (["raise SystemExit('m' * 500)"], 0, "SystemExit", "systemexit-long"),
    (["raise SystemExit(['x'] * 50)"], 0, "SystemExit", "systemexit-list"),
    (["import sys", "sys.exit('')"], 1, "SystemExit", "systemexit-empty"),
    (["raise ExceptionGroup('several', [ValueError(1), TypeError('t' * 300)])"], 0, "ExceptionGroup",
     "exception-group"),
    (["try:", "    1 / 0", "except ZeroDivisionError as first:", "    raise ValueError('second') from first"], 3,
     "ValueError", "chained-cause"),
    (["try:", "    {}['k']", "except KeyError:", "    int('x')"], 3, "ValueError", "chained-context"),
    (["e = ValueError('noted')", "e.add_note('n' * 300)", "e.add_note('')", "raise e"], 3, "ValueError",
     "with-notes"),
    # every level converts the failure of the level below: the LAST exception has two frames and 12 causes
    (["def deep(n):", "    try:", "        return deep(n - 1) if n else 1 / 0", "    except Exception as z:",
      "        raise ValueError(n) from z", "deep(12)"], 5, "ValueError", "chain-of-causes"),
]


# the falsy / degenerate members of each family are always part of the quick tier (GENERATOR_LESSONS 1)
ESSENTIAL_RENDERING = {
    "message:''", "message:'{0} {name} {'", "message:'\\udc80'", "message:None", "message-user:''",
    "message-keyerror:''", "class-name:q", "class-name:_", "class-name:e",
    "syntaxerror-position:('answer.py', 999, 5, 'x')", "syntaxerror-position:('answer.py', 1, 10 ** 6, 'x')",
    "syntaxerror-position:('answer.py', 0, 0, 'x')", "syntaxerror-position:('answer.py', 1, 1, None)",
    "exception-group", "chain-of-causes", "with-notes", "c:int-too-long", "systemexit-empty",
    "class-name-empty", "syntaxerror-malformed-position:('answer.py', '3', 1, 'x')",
    "syntaxerror-malformed-position:('answer.py', -4, 1, 'x')",
    "syntaxerror-malformed-position:('answer.py', 1, 'a', 'x')", "syntaxerror-malformed-position:({}, 1, 2, 'x')",
}


def rendering_snippets():
    out = _rendering_snippets() + malformed_snippets()
    for sn in out:
        if sn["shape"] + ":" + sn.get("detail", "") in ESSENTIAL_RENDERING or sn["shape"] in ESSENTIAL_RENDERING:
            sn["essential"] = True
    return out


def _family(lines, fail_at, cls, flags, family, detail, **kw):
    """The shape (part of a failure's signature) names the FAMILY; the member is in `detail`."""
    sn = sx.snip(lines, fail_at, cls, flags, shape=family, **kw)
    sn["detail"] = detail
    return sn


def _rendering_snippets():
    out = []
    for expr in MESSAGE_EXPRS:
        out.append(_family(["raise ValueError(%s)" % expr], 0, "ValueError", dict(exc=True), "message", expr))
    for expr in MESSAGE_EXPRS[:12]:
        out.append(_family(["raise KeyError(%s)" % expr], 0, "KeyError", dict(exc=True, keyerr=True),
                           "message-keyerror", expr))
        out.append(_family(["class Mine(Exception):", "    pass", "raise Mine(%s)" % expr], 2, "Mine", dict(exc=True),
                           "message-user", expr, bases=["Exception"]))
    for name in CLASS_NAMES:
        out.append(_family(["class %s(Exception):" % name, "    pass", "raise %s('named')" % name], 2, name,
                           dict(exc=True), "class-name", name, bases=["Exception"]))
    for pos in SYNTAX_POSITIONS:
        sn = _family(["raise SyntaxError('made by hand', %s)" % pos], 0, "SyntaxError", dict(exc=True),
                     "syntaxerror-position", pos)
        sn["keep_main"] = True
        out.append(sn)
    for lines, fail_at, cls, shape in CONSTRUCTED:
        real = getattr(builtins, cls, None)
        if cls == "JSONDecodeError":
            flags, bases = dict(exc=True), ["ValueError"]
        elif real is None:
            continue
        else:
            flags, bases = sx.class_flags(real), None
        inner = [4] if shape == "chain-of-causes" else ()
        out.append(sx.snip(lines, fail_at, cls, flags, inner=inner, shape=shape, bases=bases))
    return out


# A SyntaxError made by hand whose position fields are not a position at all, and a class without a name: these
# made run() RAISE on /repo until the fix: commits of 2026-09-30 ("a SyntaxError raised by student code with a
# malformed position ...", "an exception class with an empty name ...")
MALFORMED_SYNTAX_POSITIONS = [
    "('answer.py', '3', 1, 'x')", "('answer.py', 1.5, 1, 'x')", "('answer.py', -4, 1, 'x')",
    "('answer.py', 1, 'a', 'x')", "('answer.py', 1, 1, 'x', 1, [])", "('answer.py', [], 2, 'x')",
    "({}, 1, 2, 'x')", "('answer.py', True, 1, 'x')", "('answer.py', 1, 1, 5, 'a', 'b')",
]


def malformed_snippets():
    out = []
    for pos in MALFORMED_SYNTAX_POSITIONS:
        sn = _family(["raise SyntaxError('made by hand', %s)" % pos], 0, "SyntaxError", dict(exc=True),
                     "syntaxerror-malformed-position", pos)
        sn["keep_main"] = True
        out.append(sn)
    out.append(_family(["raise type('', (Exception,), {})('no name')"], 0, "", dict(exc=True), "class-name-empty", "",
                       bases=["Exception"]))
    return out


# --------------------------------------------------------------------------
# histories

LARGE = {"inputs": 5000, "depth": 450, "output": 20000, "message": 100000, "source": 1200, "callargs": 100000}


def sized_snippets(rng=None):
    """Every sized snippet for every boundary value (flag `essential` where a named limit points at the dimension)."""
    lim = limits()
    out = []
    builders = {"inputs": inputs_snippets, "depth": depth_snippets, "output": output_snippets,
                "message": message_snippets, "source": source_snippets}
    caps = {"inputs": 10 ** 9, "depth": 450, "output": 10 ** 9, "message": 10 ** 9, "source": 1200}
    for dim, build in builders.items():
        for n in lim["values"]:
            if n > caps[dim]:
                continue
            for sn in build(n):
                if n in lim["essential"][dim]:
                    sn["essential"] = True
                out.append(sn)
    for n in sorted(lim["huge"]["inputs"]):
        if not gives_up_at(n):
            continue
        sn = endless_input_snippet(n)
        sn["essential"] = True
        sn["slow"] = True
        out.append(sn)
    # one LARGE representative per dimension, far beyond every limit found (or at a huge named limit of it)
    for dim, build in builders.items():
        for n in sorted(lim["huge"][dim] - lim["huge"]["inputs"]) or [min(LARGE[dim], caps[dim])]:
            for sn in build(n):
                sn["essential"] = True
                sn["slow"] = True
                out.append(sn)
    # the empty message / no constructor arguments: the size-0 boundary of what the feedback quotes
    for sn in out:
        if sn["size"]["dim"] == "message" and sn["size"]["n"] == 0:
            sn["essential"] = True
    return out


def callargs_ops(rng, style, n=None, case=None, unfaithful=None):
    """[setup run, failing call] where the call is given sized / unfaithful arguments."""
    pre = sx.filler(rng, rng.randint(0, 2))
    code = "\n".join(pre + ["def f(*args, **kwargs):", "    return [args, kwargs][2]"]) + "\n"
    setup = {"entry": "run", "style": rng.choice(sx.STYLES[:3]), "inject": False, "code": code, "term": ["N"],
             "shape": "defs"}
    d = sx.desc("IndexError", frames=[["I", 1], ["S", len(pre) + 2]])
    op = {"entry": "call", "style": style, "inject": False, "term": ["R", d]}
    if unfaithful is not None:
        op["argsrc"] = list(unfaithful)
        op["shape"] = "callargs-unfaithful"
    else:
        op["argsrc"] = list(case["argsrc"])
        if case.get("kwargsrc"):
            op["kwargsrc"] = dict(case["kwargsrc"])
        op["shape"] = "size:callargs"
        op["size"] = {"dim": "callargs", "n": n, "kind": case["tag"]}
    return [setup, op]


def grouped_history(rng, style, per_call, calls, fail_last=True):
    """A CommandBlock-like group of calls, each consuming `per_call` inputs: the feedback of the failing one shows the
    inputs of the WHOLE group (Sandbox.get_context), so the sizes add up across executions."""
    code = ("def f(*args, **kwargs):\n    for k in range(args[0]):\n        input('again? ')\n"
            "    return 10 // args[1]\n")
    ops = [{"entry": "run", "style": rng.choice(sx.STYLES[:3]), "inject": False, "code": code, "term": ["N"],
            "shape": "defs"}]
    for i in range(calls):
        last = i == calls - 1
        fails = last and fail_last
        op = {"entry": "call", "style": style, "inject": False,
              "argsrc": [str(per_call), "0" if fails else "1"],
              "inputs": ["g%d_%d" % (i, k) for k in range(per_call)],
              "term": ["R", sx.desc("ZeroDivisionError", frames=[["I", 1], ["S", 4]])] if fails else ["N"],
              "shape": "size:inputs" if fails else "ok-call"}
        if fails:
            op["size"] = {"dim": "inputs", "n": per_call * calls, "kind": "grouped-executions"}
        if i == 0:
            op["group"] = "start"
        if last:
            op["group"] = "stop" if i else "both"
        ops.append(op)
    return ops


def ops_for(rng, sn, entry, style, nest=None):
    if sn.get("run_only"):
        entry, nest = "run", None
    return sx.gen_ops_for_snippet(rng, sn, entry, style, False, nest)


def sized_histories(rng, tier):
    """The sweep of the size dimension.  quick: every `essential` size through run() and call(), a seeded sample of
    the rest; thorough: every size through run / call / evaluate, a third of them also inside an imported file."""
    lim = limits()
    hists = []
    k = 0
    quick = tier == "quick"
    for sn in sized_snippets(rng):
        ess = sn.get("essential")
        if quick and not ess and rng.random() >= 0.12:
            continue
        if quick and sn.get("slow"):
            entries = ["run"]
        elif quick and not ess:
            entries = [rng.choice(["run", "call", "eval"])]
        elif quick:
            entries = ["run", "call"]
        else:
            entries = ["run", "call", "eval"]
        for entry in entries:
            style = "none" if sn.get("slow") else sx.STYLES[k % len(sx.STYLES)]
            k += 1
            h = ops_for(rng, sn, entry, style)
            if ess:
                h[-1]["essential"] = True
            hists.append(h)
        if not sn.get("slow") and not sn.get("run_only") and (not quick and k % 3 == 0 or quick and ess and k % 2 == 0):
            hists.append(ops_for(rng, sn, rng.choice(["run", "call"]), sx.STYLES[k % len(sx.STYLES)], "inside"))
    # arguments of call()
    for n in lim["values"] + [LARGE["callargs"]]:
        ess = n in lim["essential"]["callargs"] or n == LARGE["callargs"]
        for case in callargs_cases(n):
            if n > 1200 and case["tag"] in ("callargs-count", "callargs-kwcount", "callargs-int-and-kw"):
                continue
            if quick and not ess and rng.random() >= 0.08:
                continue
            k += 1
            h = callargs_ops(rng, sx.STYLES[k % len(sx.STYLES)], n, case)
            if ess:
                h[-1]["essential"] = True
            hists.append(h)
    for args in UNFAITHFUL_ARGS:
        if quick and rng.random() >= 0.4:
            continue
        k += 1
        hists.append(callargs_ops(rng, sx.STYLES[k % len(sx.STYLES)], unfaithful=args))
    # groups of executions whose inputs add up
    for n in sorted(lim["essential"]["inputs"]):
        limit = n - 1
        for per_call, calls in ((limit // 3 + 1, 3), (limit // 2, 2), (limit // 2 + 1, 2), (1, limit + 1), (limit, 2)):
            if quick and (per_call, calls) not in ((limit // 3 + 1, 3), (limit // 2, 2)):
                continue
            k += 1
            h = grouped_history(rng, sx.STYLES[k % len(sx.STYLES)], per_call, calls)
            if per_call * calls > limit:
                h[-1]["essential"] = True
            hists.append(h)
    # programs that END NORMALLY after consuming / printing a lot (nothing to report, everything to restore)
    for n in ([LARGE["inputs"]] if quick else [v for v in lim["values"] if v >= 29] + [LARGE["inputs"]]):
        k += 1
        hists.append([{"entry": "run", "style": sx.STYLES[k % 3], "inject": False, "term": ["N"], "shape": "normal",
                       "code": "for k in range(%d):\n    print(input('q'), k)\n" % n,
                       "inputs": [str(i) for i in range(n // 2)], "size": {"dim": "inputs", "n": n, "kind": "normal"}}])
    # what the rendering is handed
    for sn in rendering_snippets():
        ess = sn.get("essential")
        if quick and not ess and rng.random() >= 0.3:
            continue
        for entry in (["run", "call", "eval"] if not quick else [rng.choice(["run", "call", "eval"])]):
            k += 1
            h = ops_for(rng, sn, entry, sx.STYLES[k % len(sx.STYLES)])
            if ess:
                h[-1]["essential"] = True
            hists.append(h)
    # the orthogonal API dimensions (main file, spelling of run, formatter of the report, how inputs are queued)
    forces = [{"main": sx.MAIN_FILE, "spell": "bare", "args": None, "fmt": None, "inputs_via": "set"},
              {"main": sx.MAIN_FILE, "spell": "bare", "args": None, "fmt": "html", "inputs_via": "param"},
              {"main": sx.OTHER_MAIN_FILES[0], "spell": "byname", "args": None, "fmt": None, "inputs_via": "param"},
              {"main": sx.MAIN_FILE, "spell": "explicit", "args": None, "fmt": "text", "inputs_via": "set"},
              {"main": sx.OTHER_MAIN_FILES[1], "spell": "bare", "args": None, "fmt": "html", "inputs_via": "set"}]
    for i, h in enumerate(hists):
        sx.vary(rng, h, forces[i % len(forces)])
    # the LARGE representatives under both kinds of formatter (two dimensions combined: a formatter that mishandles
    # long text shows only here)
    for h in list(hists):
        size = h[-1].get("size")
        if size and size["n"] >= LARGE.get(size["dim"], 10 ** 9) and h[-1].get("essential"):
            twin = copy.deepcopy(h)
            twin[0]["fmt"] = "html" if h[0].get("fmt") != "html" else "text"
            hists.append(twin)
    return hists


def describe_limits():
    lim = limits()
    return {"named": lim["named"], "literals": lim["literals"], "sizes": lim["values"],
            "essential": {d: sorted(v) for d, v in lim["essential"].items() if v},
            "huge": {d: sorted(v) for d, v in lim["huge"].items() if v}}


if __name__ == "__main__":
    import json
    import random
    print(json.dumps(describe_limits(), indent=1))
    # self-test: every sized snippet fails under plain CPython with the class and on the lines written down
    bad = 0
    sns = [s for s in sized_snippets() + rendering_snippets() if not s.get("slow")]
    for sn in sns:
        if sn["tail"] or sn["shape"].startswith("syntaxerror-position"):
            continue
        cls, frames = cpython_frames(sn["lines"])
        want = [sn["fail_at"]] + list(sn["inner"])
        if cls is None or cls.__name__ != sn["cls"] or frames != want:
            bad += 1
            print("MISMATCH", sn["shape"], sn.get("size"), cls, frames[:6], want[:6])
    print("snippets:", len(sns), "mismatches:", bad)
    for t in ("quick", "thorough"):
        print(t, "histories:", len(sized_histories(random.Random(0), t)))

"""
C14 — runs ONE timeout scenario on the real pedal in this (fresh) process and prints one JSON line.

    python timeout_scenario.py '{"program": "busy", "position": "after_return", "limit": 0.25}' [out.json]

A scenario = the student program of the threaded execution E1, and WHERE the abandoned student thread's
finalization (its exit from Sandbox._execute) is placed relative to the grader thread, forced through the
guarded hooks (pedal.sandbox.timeout._VERIF_SYNC):

  free           no forcing (whatever the GIL does), 0.3 s pause before the next execution
  before_handler the student thread finalizes between terminate() and the grader's TimeoutError handler
  after_return   ... after run(threaded=True) returned, before the next execution starts
  during_next    ... while the next execution E2 is running (E2 calls an injected _sync())
  after_next     ... after E2 finished
  claim_first    (gate_* programs) the student code ends just as the timer fires and reaches the end of
                 _stop_mocking before the grader looks at the thread
  lose_race      (gate_* programs) the student code ends just as the timer fires, is held at the ENTRY of
                 _stop_mocking while the grader gives up on it, and continues after run() returned

Everything the harness waits for has a cap, so a scenario never hangs.
"""
import json
import os
import sys
import threading
import time

PROGRAMS = {
    "busy": "while True:\n    pass\n",
    "prints": "i = 0\nwhile True:\n    i += 1\n    if i % 5000 == 0:\n        print('e1')\n",
    "swallow": "while True:\n    try:\n        while True:\n            x = 1\n    except BaseException:\n        pass\n",
    "swallowprint": ("i = 0\nwhile True:\n    try:\n        while True:\n            i += 1\n"
                     "            if i % 5000 == 0:\n                print('e1')\n    except BaseException:\n        pass\n"),
    "lock": "import threading\nl = threading.Lock()\nl.acquire()\nl.acquire()\n",
    "swallow_finish": "print('e1')\ntry:\n    while True:\n        x = 1\nexcept BaseException:\n    pass\ny = 2\n",
    "swallow_raise": "print('e1')\ntry:\n    while True:\n        x = 1\nexcept BaseException:\n    pass\nraise ValueError('late')\n",
    "gate_finish": "print('e1')\n_gate()\ny = 2\n",
    "gate_raise": "print('e1')\n_gate()\nraise ValueError('at the bell')\n",
}
CAP = 3.0


def abstract(text):
    """'e1\\ne1\\nnext\\n' -> 'T+N' (T = a line of E1, N = the line of E2, anything else verbatim)"""
    out = []
    for line in text.split("\n"):
        if line == "":
            continue
        tok = {"e1": "T+", "next": "N", "ne": "n", "xt": "x"}.get(line, "?" + line)
        if tok == "T+" and out and out[-1] == "T+":
            continue
        out.append(tok)
    return "".join(out)


def main():
    sc = json.loads(sys.argv[1])
    program, position, limit = sc["program"], sc["position"], float(sc.get("limit", 0.25))
    from pedal.core.commands import contextualize_report
    from pedal.core.report import MAIN_REPORT
    from pedal.sandbox import commands
    from pedal.sandbox import timeout as tmod
    real_stdout = sys.stdout

    st = {"thread": None}
    gate = threading.Event()
    t_at_enter = threading.Event()
    t_at_exit = threading.Event()
    release_t = threading.Event()
    notes = []

    def is_student():
        return type(threading.current_thread()).__name__ == "InterruptableThread"

    def sync(point, *info):
        if point == "grader:timer":
            st["thread"] = info[0]
            if position == "claim_first":
                gate.set()
                if not t_at_exit.wait(CAP):
                    notes.append("student thread never reached finalize:exit")
                threading.Timer(0.05, release_t.set).start()
            elif position == "lose_race":
                gate.set()
                if not t_at_enter.wait(CAP):
                    notes.append("student thread never reached finalize:enter")
        elif point == "grader:terminated":
            if position == "before_handler":
                info[0].join(CAP)
                if info[0].is_alive():
                    notes.append("student thread still alive after terminate (cap)")
        elif point == "finalize:enter" and is_student():
            t_at_enter.set()
            if position in ("after_return", "during_next", "after_next", "lose_race"):
                release_t.wait(CAP * 3)
        elif point == "finalize:exit" and is_student():
            t_at_exit.set()
            if position == "claim_first":
                release_t.wait(CAP)

    have_hooks = hasattr(tmod, "_VERIF_SYNC")
    if have_hooks:
        tmod._VERIF_SYNC = sync

    MAIN_REPORT.clear()
    contextualize_report(PROGRAMS[program])
    sb = commands.get_sandbox()
    sb.allowed_time = limit
    sb.data["_gate"] = lambda: gate.wait(CAP * 3)

    def snap():
        return {"exc": type(sb.exception).__name__ if sb.exception is not None else None,
                "patch_depth": len(sb._current_patches), "stdout_depth": len(sb._current_stdout),
                "sys_stdout_real": sys.stdout is real_stdout,
                "labels": [f.label for f in MAIN_REPORT.feedback],
                "next_id": sb._next_context_id}

    def settle_student():
        t = st["thread"]
        release_t.set()
        if t is not None:
            t.join(CAP)

    obs = {"scenario": sc, "have_hooks": have_hooks}
    t0 = time.time()
    escaped = None
    try:
        commands.run(threaded=True)
    except BaseException as e:      # nothing may escape run()
        escaped = type(e).__name__
        sys.stdout = real_stdout
    obs["elapsed"] = round(time.time() - t0, 3)
    obs["escaped"] = escaped
    obs["at_return"] = snap()
    n_e1 = len(sb._context)

    if position in ("after_return", "lose_race"):
        settle_student()
    elif position == "free":
        time.sleep(0.3)
    obs["before_next"] = snap()

    def _sync():
        if position == "during_next":
            settle_student()
        elif program == "swallowprint":
            threading.Event().wait(0.05)   # time.sleep is patched to a no-op during an execution
    sb.data["_sync"] = _sync
    e2_escaped = None
    try:
        commands.run("print('ne')\n_sync()\nprint('xt')\nx = 1\n", filename="answer.py")
    except BaseException as e:
        e2_escaped = type(e).__name__
        sys.stdout = real_stdout
    if position == "after_next":
        settle_student()
    elif position == "free":
        time.sleep(0.2)
    fin = snap()
    e2 = sb._context[-1] if len(sb._context) > n_e1 else None
    e1 = sb._context[n_e1 - 1] if n_e1 else None
    fin.update({"e2_escaped": e2_escaped,
                "e2_output": None if e2 is None else abstract(e2.output),
                "e1_output": None if e1 is None else abstract(e1.output),
                "e1_id": None if e1 is None else e1.context_id, "e2_id": None if e2 is None else e2.context_id,
                "raw": abstract(sb.raw_output), "lines": abstract("\n".join(sb.output)),
                "x": sb.data.get("x"), "n_contexts": len(sb._context),
                "student_alive": bool(st["thread"] is not None and st["thread"].is_alive())})
    obs["final"] = fin
    obs["notes"] = notes
    sys.stdout = real_stdout
    if len(sys.argv) > 2:
        with open(sys.argv[2], "w") as fh:
            json.dump(obs, fh)
    else:
        print("C14OBS " + json.dumps(obs))
        sys.stdout.flush()
    os._exit(0)     # do not wait for (or get killed by) abandoned threads


if __name__ == "__main__":
    main()

"""
C14 — runs ONE timeout scenario on the real pedal in this (fresh) process and writes one JSON observation.

    python timeout_scenario.py '{"program": "busy", "position": "after_return", "limit": 0.25}' [out.json]

A scenario = the student program of the threaded execution E1, and WHERE the abandoned student thread's
finalization (its exit from Sandbox._execute) is placed relative to the grader thread, forced through the
guarded hooks (pedal.sandbox.timeout._VERIF_SYNC):

  free           no forcing (whatever the GIL does), 0.3 s pause before the next execution
  before_handler the student thread finalizes between terminate() and the grader's TimeoutError handler
  after_return   ... after run(threaded=True) returned, before the next execution starts
  during_next    ... while the next execution E2 is running (E2 calls an injected _sync())
  after_next     ... after E2 finished
  claim_first    (gate_* programs) the student code ends just as the timer fires and reaches the end of
                 _stop_mocking before the grader looks at the thread
  lose_race      (gate_* programs) the student code ends just as the timer fires, is held at the ENTRY of
                 _stop_mocking while the grader gives up on it, and continues after run() returned
  ("e2": "threaded" in the scenario: the next execution is a threaded run as well - it ends by itself)
  dies_at_claim  (gate_* programs; needs the `grader:decided` hook) the student code ends, and its thread is gone,
                 between the grader's decision to give up on it and the terminate() call
  ("between": "clear" in the scenario: right after run(threaded=True) returned - before the abandoned thread is let
   go - the grader empties the sandbox's execution history, `Sandbox.clear_context()`, part of what `clear_sandbox()`
   does between two attempts.  Context ids restart then by design; the observation reports them continued (+ the
   id reached before), so that it reads like any other.  Whatever the abandoned thread uses to recognise "its"
   execution must survive that.)

NO VERDICT DEPENDS ON HOW FAST THIS MACHINE IS.  Every wait has a cap; a cap that expires, or a precondition of the
forcing that was not met because a thread was starved (the student's code had not got going when the time ran out),
is recorded in `notes` and makes the whole run INCONCLUSIVE (the harness skips it, it is never a failure).  "The call
returns within a bounded delay" is judged from samples, not from the clock: a watchdog thread looks every 0.1 s where
the two threads are, and counts the samples in which the grader thread is blocked on a threading primitive called
from pedal while the student thread is inside the student's code.  Waiting `limit` seconds accounts for limit/0.1
such samples; the run is `stuck` when more than (limit + 2.5 s)/0.1 + 1 were counted - samples are at least 0.1 s
apart and the watchdog needs the GIL as much as the grader does, so a loaded machine gives fewer samples, not more.
"""
import json
import os
import sys
import threading
import time

PROGRAMS = {
    "busy": "_mark()\nwhile True:\n    pass\n",
    "prints": "_mark()\ni = 0\nwhile True:\n    i += 1\n    if i % 5000 == 0:\n        print('e1')\n",
    "swallow": "while True:\n    try:\n        _mark()\n        while True:\n            x = 1\n    except BaseException:\n        pass\n",
    "swallowprint": ("i = 0\nwhile True:\n    try:\n        _mark()\n        while True:\n            i += 1\n"
                     "            if i % 5000 == 0:\n                print('e1')\n    except BaseException:\n        pass\n"),
    "swallowassign": "while True:\n    try:\n        _mark()\n        while True:\n            x = 2\n    except BaseException:\n        pass\n",
    # ordinary handlers (`except Exception`) must NOT be able to swallow the termination: these end like `busy`/`prints`
    "excloop": "while True:\n    try:\n        _mark()\n        while True:\n            x = 2\n    except Exception:\n        pass\n",
    "excloopprint": ("i = 0\nwhile True:\n    try:\n        _mark()\n        while True:\n            i += 1\n            x = 2\n"
                     "            if i % 5000 == 0:\n                print('e1')\n    except Exception:\n        pass\n"),
    "lock": "import threading\nl = threading.Lock()\nl.acquire()\n_mark()\nl.acquire()\n",
    "swallow_finish": "print('e1')\ntry:\n    _mark()\n    while True:\n        x = 1\nexcept BaseException:\n    pass\ny = 2\n",
    "swallow_raise": "print('e1')\ntry:\n    _mark()\n    while True:\n        x = 1\nexcept BaseException:\n    pass\nraise ValueError('late')\n",
    "gate_finish": "print('e1')\n_mark()\n_gate()\ny = 2\n",
    "gate_raise": "print('e1')\n_mark()\n_gate()\nraise ValueError('at the bell')\n",
}
PRINTS_FIRST = {"prints", "excloopprint", "swallowprint", "swallow_finish", "swallow_raise", "gate_finish", "gate_raise"}
CAP = 6.0       # cap of every wait (an expired cap => notes => inconclusive)
TICK = 0.1      # watchdog sampling period
GRACE = 2.5     # "bounded delay": blocked on student code for more than limit + GRACE


def abstract(text):
    """'e1\\ne1\\nnext\\n' -> 'T+N' (T = a line of E1, N = the line of E2, anything else verbatim)"""
    out = []
    for line in text.split("\n"):
        if line == "":
            continue
        tok = {"e1": "T+", "next": "N", "ne": "n", "xt": "x"}.get(line, "?" + line)
        if tok == "T+" and out and out[-1] == "T+":
            continue
        out.append(tok)
    return "".join(out)


def write_obs(obs):
    if len(sys.argv) > 2:
        tmp = sys.argv[2] + ".part"
        with open(tmp, "w") as fh:
            json.dump(obs, fh)
        os.replace(tmp, sys.argv[2])
    else:
        sys.__stdout__.write("C14OBS " + json.dumps(obs) + "\n")
        sys.__stdout__.flush()


def main():
    sc = json.loads(sys.argv[1])
    program, position, limit = sc["program"], sc["position"], float(sc.get("limit", 0.25))
    e2_threaded = sc.get("e2") == "threaded"
    clear_between = sc.get("between") == "clear"
    # hand the GIL over quickly: a surviving student loop would otherwise cost the grader thread 5 ms at every
    # blocking call (convoy effect); this changes how fast threads alternate, not what they do
    sys.setswitchinterval(0.0005)
    import pedal
    from pedal.core.commands import contextualize_report
    from pedal.core.report import MAIN_REPORT
    from pedal.sandbox import commands
    from pedal.sandbox import timeout as tmod
    real_stdout = sys.stdout
    pedal_dir = os.path.realpath(os.path.dirname(pedal.__file__)) + os.sep
    threading_file = os.path.realpath(threading.__file__)
    main_ident = threading.main_thread().ident

    st = {"thread": None, "phase": "init", "ticks": 0, "blocked_ticks": 0, "points": []}
    gate = threading.Event()
    marked = threading.Event()
    t_at_enter = threading.Event()
    t_at_exit = threading.Event()
    release_t = threading.Event()
    notes = []

    def is_student():
        """is this E1's student thread (the one the grader gave up on)?"""
        cur = threading.current_thread()
        return type(cur).__name__ == "InterruptableThread" and (st["thread"] is None or cur is st["thread"])

    def capped(event, what, cap=CAP):
        if not event.wait(cap):
            notes.append("cap expired: " + what)

    def join_student(thread, what):
        thread.join(CAP)
        if thread.is_alive():
            notes.append("cap expired: " + what)

    def sync(point, *info):
        if st["phase"] != "e1" and not is_student():
            return                  # the next execution (possibly threaded as well) is left alone
        if threading.current_thread() is threading.main_thread():
            st["points"].append(point)
        if point == "grader:timer":
            st["thread"] = info[0]
            # the model assumes the student's code is under way when the time runs out
            if not marked.is_set():
                notes.append("precondition: the student's code had not got going when the time ran out")
            elif program in PRINTS_FIRST and not (sb._current_stdout and "e1" in sb._current_stdout[-1].getvalue()):
                notes.append("precondition: the student's code had not printed when the time ran out")
            if position == "claim_first":
                gate.set()
                capped(t_at_exit, "student thread never reached finalize:exit")
                threading.Timer(0.05, release_t.set).start()
            elif position == "lose_race":
                gate.set()
                capped(t_at_enter, "student thread never reached finalize:enter")
        elif point == "grader:decided":
            if position == "dies_at_claim":
                gate.set()
                join_student(info[0], "student thread still alive after losing the claim")
        elif point == "grader:terminated":
            if position == "before_handler":
                join_student(info[0], "student thread still alive after terminate")
        elif point == "finalize:enter" and is_student():
            t_at_enter.set()
            if position in ("after_return", "during_next", "after_next", "lose_race"):
                capped(release_t, "student thread held at finalize:enter was never released", CAP * 3)
        elif point == "finalize:exit" and is_student():
            t_at_exit.set()
            if position == "claim_first":
                capped(release_t, "student thread held at finalize:exit was never released")

    have_hooks = hasattr(tmod, "_VERIF_SYNC")
    if have_hooks:
        tmod._VERIF_SYNC = sync
    if position == "dies_at_claim":
        import inspect
        # (the whole module: the give-up branch may live in a helper of timeout())
        if not have_hooks or "grader:decided" not in inspect.getsource(tmod):
            write_obs({"scenario": sc, "have_hooks": have_hooks, "no_hook": "grader:decided", "notes": []})
            os._exit(0)

    MAIN_REPORT.clear()
    contextualize_report(PROGRAMS[program])
    sb = commands.get_sandbox()
    sb.allowed_time = limit
    sb.data["_gate"] = lambda: gate.wait(CAP * 3)
    sb.data["_mark"] = marked.set

    # ---- watchdog: where are the two threads? (samples, not the clock)
    def in_student_code(frame):
        while frame is not None:
            if frame.f_code.co_filename == "answer.py":
                return True
            frame = frame.f_back
        return False

    def blocked_in_pedal(frame):
        """the thread's innermost frame is in threading.py and the code that called into threading is pedal's"""
        if frame is None or os.path.realpath(frame.f_code.co_filename) != threading_file:
            return None
        while frame is not None and os.path.realpath(frame.f_code.co_filename) == threading_file:
            frame = frame.f_back
        if frame is not None and os.path.realpath(frame.f_code.co_filename).startswith(pedal_dir):
            return "%s:%s" % (os.path.realpath(frame.f_code.co_filename)[len(pedal_dir):], frame.f_code.co_name)
        return None

    stuck_after = int((limit + GRACE) / TICK) + 1

    def watchdog():
        ev = threading.Event()
        while True:
            ev.wait(TICK)          # (time.sleep is patched to a no-op during an execution)
            st["ticks"] += 1
            if st["phase"] != "e1":
                continue
            t = st["thread"]
            if t is None:
                t = next((th for th in threading.enumerate() if type(th).__name__ == "InterruptableThread"), None)
            if t is None:
                continue
            frames = sys._current_frames()
            where = blocked_in_pedal(frames.get(main_ident))
            if where is not None and in_student_code(frames.get(t.ident)):
                st["blocked_ticks"] += 1
                if st["blocked_ticks"] > stuck_after:
                    write_obs({"scenario": sc, "have_hooks": have_hooks, "notes": notes,
                               "stuck": {"grader_blocked_in": where, "samples": st["blocked_ticks"],
                                         "sample_period": TICK, "limit": limit, "points": st["points"]}})
                    os._exit(0)

    wd = threading.Thread(target=watchdog, daemon=True)
    wd.start()

    ids = {"offset": 0}     # context ids restart when the history is cleared; reported continued

    def snap():
        return {"exc": type(sb.exception).__name__ if sb.exception is not None else None,
                "patch_depth": len(sb._current_patches), "stdout_depth": len(sb._current_stdout),
                "sys_stdout_real": sys.stdout is real_stdout,
                "labels": [f.label for f in MAIN_REPORT.feedback],
                "next_id": sb._next_context_id + ids["offset"]}

    def settle_student():
        t = st["thread"]
        release_t.set()
        if t is not None and program not in ("swallow", "swallowprint", "swallowassign", "lock"):
            join_student(t, "student thread did not end after it was released")

    obs = {"scenario": sc, "have_hooks": have_hooks}
    t0 = time.time()
    escaped = None
    st["phase"] = "e1"
    try:
        commands.run(threaded=True)
    except BaseException as e:      # nothing may escape run()
        escaped = type(e).__name__
        sys.stdout = real_stdout
    st["phase"] = "between"
    obs["elapsed"] = round(time.time() - t0, 3)
    obs["blocked_samples"] = st["blocked_ticks"]
    obs["escaped"] = escaped
    obs["at_return"] = snap()
    n_e1 = len(sb._context)
    e1 = sb._context[n_e1 - 1] if n_e1 else None
    e1_id = None if e1 is None else e1.context_id
    if clear_between:
        ids["offset"] = sb._next_context_id
        sb.clear_context()
        n_e1 = 0
    if st["thread"] is None:        # no hooks: find the thread anyway (it is a daemon thread of this process)
        st["thread"] = next((th for th in threading.enumerate() if type(th).__name__ == "InterruptableThread"), None)

    if position in ("after_return", "lose_race"):
        settle_student()
    elif position == "free":
        time.sleep(0.3)
    obs["before_next"] = snap()

    def _sync():
        if position == "during_next":
            settle_student()
        elif program == "swallowprint":
            threading.Event().wait(0.05)   # time.sleep is patched to a no-op during an execution
    sb.data["_sync"] = _sync
    e2_escaped = None
    st["phase"] = "e2"
    sb.allowed_time = 20.0      # E2 ends by itself; threaded or not, it must look the same
    try:
        commands.run("print('ne')\n_sync()\nprint('xt')\nx = 1\n", filename="answer.py", threaded=e2_threaded)
    except BaseException as e:
        e2_escaped = type(e).__name__
        sys.stdout = real_stdout
    st["phase"] = "after"
    if position == "after_next":
        settle_student()
    elif position == "free":
        time.sleep(0.2)
        # whether the thread has ENDED by now is a matter of scheduling; wait for it (the snapshot below is
        # what the property talks about: the sandbox after the abandoned thread did whatever it does)
        settle_student()
    fin = snap()
    e2 = sb._context[-1] if len(sb._context) > n_e1 else None
    fin.update({"e2_escaped": e2_escaped,
                "e2_output": None if e2 is None else abstract(e2.output),
                "e1_output": None if e1 is None else abstract(e1.output),
                "e1_id": e1_id, "e2_id": None if e2 is None else e2.context_id + ids["offset"],
                "raw": abstract(sb.raw_output), "lines": abstract("\n".join(sb.output)),
                "x": sb.data.get("x"), "n_contexts": len(sb._context),
                "student_alive": bool(st["thread"] is not None and st["thread"].is_alive())})
    obs["final"] = fin
    obs["notes"] = notes
    obs["points"] = st["points"]
    sys.stdout = real_stdout
    write_obs(obs)
    os._exit(0)     # do not wait for (or get killed by) abandoned threads


if __name__ == "__main__":
    main()

"""
C06 call HISTORIES: call() argument passing exercised as a sequence in ONE process.

The grammar-based generator and the limit sweeps pass literals (and values built from builtins only) to follow-up
calls, each call on its own.  Whole dimensions of `call()`'s argument marshalling are invisible to that:

  * values of DIFFERENT TYPES that share one repr TEXT (instances of student subclasses of list/dict/float/int/str/
    tuple/bytes/complex with the inherited __repr__, objects whose own __repr__ imitates a literal, with and without
    an __eq__ that agrees) or that compare EQUAL / hash equal (1, True, 1.0, Score(1); 0, False, 0.0, -0.0; the same
    inside containers and as dict keys) or that share an ADDRESS (fresh temporaries of the same size, one after the
    other) - passed one after the other, in both orders, to the same and to different functions;
  * the same object passed again after it was mutated, the same grader variable rebound to a value of another type;
  * the same call repeated after the FUNCTION changed (the program rebinds it; the process grades another program
    whose function of the same name does something else) and after the program was run again (new class objects
    with the old names);
  * all of it around the length at which call() switches from writing the repr into the call to a temporary variable
    (the constant is read from the tree under test).

Anything the sandbox remembers between calls under a key that says less than the value (its text, its value, its
id, the call's text) shows up as a function that receives something else than the grader passed.  The oracle is
CPython: the same steps in a fresh unmodified interpreter, `target = f(args)` for every call (sandboxequiv_ref.py).

Arguments are expressions evaluated in the student's namespace ("scope": "student"), so they can build instances of the
student's classes, exactly as a grader does with `student.data['Stack']([1, 2, 3])`; {"op": "let"} steps keep grader
variables alive over the history.
"""
import json
import os
import re

from common import REPO, VERIF

KIT = '''class Stack(list):
    def peek(self):
        return self[-1]
class Table(dict):
    def first(self):
        return sorted(self)[0]
class Celsius(float):
    def to_fahrenheit(self):
        return self * 9 / 5 + 32
class Score(int):
    def stars(self):
        return '*' * self
class Name(str):
    def initials(self):
        return self[:1].upper() + '.'
class Pair(tuple):
    def swap(self):
        return Pair((self[1], self[0]))
class Blob(bytes):
    def size(self):
        return len(self)
class Imag(complex):
    def flip(self):
        return self.conjugate()
class Fake:
    def __init__(self, text):
        self.text = text
    def __repr__(self):
        return self.text
class Same:
    def __init__(self, text):
        self.text = text
    def __repr__(self):
        return self.text
    def __eq__(self, other):
        return repr(other) == self.text
    def __hash__(self):
        return hash(self.text)
log = []
def kind(thing):
    return type(thing).__name__
def same(thing):
    return thing
def show(thing):
    return repr(thing) + ':' + type(thing).__name__
def special(thing):
    for name in ('peek', 'first', 'to_fahrenheit', 'stars', 'initials', 'swap', 'size', 'flip'):
        if hasattr(thing, name):
            return getattr(thing, name)()
    return thing.nothing_special
def kinds(*things, **named):
    return [type(t).__name__ for t in things] + sorted((n, type(t).__name__) for n, t in named.items())
def inner_kinds(things):
    if isinstance(things, dict):
        return [(type(k).__name__, type(v).__name__) for k, v in things.items()]
    return [type(t).__name__ for t in things]
def inner_special(things):
    values = things.values() if isinstance(things, dict) else things
    return [special(t) for t in values]
def remember(thing):
    log.append(thing)
    return [type(t).__name__ for t in log[-4:]]
def total(numbers):
    result = 0
    for number in numbers:
        result += number
    return result
def retarget():
    global kind
    kind = show
    return 'kind is now show'
'''
# the same names doing something else: "the function changed" between two equal calls
KIT_CHANGED = KIT.replace("def kind(thing):\n    return type(thing).__name__",
                          "def kind(thing):\n    return 'a ' + type(thing).__name__.lower()") \
                 .replace("def same(thing):\n    return thing", "def same(thing):\n    return [thing]") \
                 .replace("class Stack(list):", "class Stack(list):\n    changed = True")

# student classes NAMED like the builtin they derive from (the type's NAME says nothing either)
KIT_SHADOW = '''plain_list, plain_float, plain_str, plain_int = list, float, str, int
class list(list):
    def peek(self):
        return self[-1]
class float(float):
    def to_fahrenheit(self):
        return self * 9 / 5 + 32
class str(str):
    def initials(self):
        return self[:1].upper() + '.'
class int(int):
    def stars(self):
        return '*' * self
def kind(thing):
    return [type(thing).__name__, type(thing) in (plain_list, plain_float, plain_str, plain_int)]
def same(thing):
    return thing
def special(thing):
    for name in ('peek', 'to_fahrenheit', 'initials', 'stars'):
        if hasattr(thing, name):
            return getattr(thing, name)()
    return thing.nothing_special
'''
SHADOW_PAIRS = [("[1, 2, 3]", "list([1, 2, 3])"), ("21.5", "float(21.5)"), ("'abc'", "str('abc')"), ("7", "int(7)"),
                ("[]", "list()"), ("0.0", "float()"), ("''", "str()"), ("0", "int()")]

# values that share their repr text and/or compare equal and/or hash equal - and are of different types
GROUPS = {
    "list": ["[1, 2, 3]", "Stack([1, 2, 3])", "Fake('[1, 2, 3]')", "Same('[1, 2, 3]')"],
    "float": ["21.5", "Celsius(21.5)", "Fake('21.5')"],
    "int": ["7", "Score(7)", "7.0", "Celsius(7)", "Fake('7')", "Same('7')"],
    "one": ["1", "True", "1.0", "Score(1)", "Celsius(1)", "Imag(1)", "(1+0j)"],
    "zero": ["0", "False", "0.0", "-0.0", "Score(0)", "Celsius(-0.0)", "Celsius(0.0)"],
    "str": ["'abc'", "Name('abc')", "Fake(\"'abc'\")", "b'abc'", "Blob(b'abc')"],
    "tuple": ["(1, 2)", "Pair((1, 2))", "[1, 2]", "Stack([1, 2])", "Pair([1, 2])"],
    "dict": ["{'a': 1}", "Table({'a': 1})", "{'a': True}", "{'a': 1.0}", "Table(a=1)"],
    "bytes": ["b'ab'", "Blob(b'ab')", "bytearray(b'ab')"],
    "complex": ["(1+2j)", "Imag(1+2j)", "Imag(1, 2)"],
    "mixed-list": ["[1, True, 1.0]", "[1, 1, 1]", "[True, True, True]", "[1.0, 1.0, 1.0]", "[True, 1, 1.0]"],
    "signed-zero": ["[0.0]", "[-0.0]", "[0]", "[False]", "(0.0, -0.0)", "(-0.0, 0.0)"],
    "keys": ["{1: 'x'}", "{True: 'x'}", "{1.0: 'x'}", "{(1,): 'x'}", "{(True,): 'x'}"],
    "sets": ["{1, 2}", "frozenset({1, 2})", "{1.0, 2.0}", "{True, 2}"],
    "none": ["None", "Fake('None')", "Same('None')", "'None'"],
    "empty": ["[]", "Stack()", "()", "Pair()", "{}", "Table()", "''", "Name('')", "Fake('[]')", "Fake(\"''\")"],
    "bool": ["True", "Fake('True')", "Same('True')", "1"],
}
# an instance of a student subclass INSIDE a container argument
NESTED_GROUPS = {
    "nested-int": ["[7]", "[Score(7)]"],
    "nested-list": ["{'a': [1, 2]}", "{'a': Stack([1, 2])}"],
    "nested-float": ["(21.5,)", "(Celsius(21.5),)"],
    "nested-str": ["['abc', 'd']", "[Name('abc'), 'd']"],
    "nested-key": ["{'k': 1}", "{Name('k'): 1}"],
    "nested-deep": ["[[1, (2.5, 'x')]]", "[[1, (Celsius(2.5), 'x')]]"],
}
from sandboxequiv_common import NESTED_SIGNATURE        # noqa: E402
PROBES = ["kind", "same", "show", "special", "inner_kinds", "remember", "kinds"]


def nested_finding_registered():
    """The nested groups reproduce a defect of the UNCHANGED tree (see notes/C06.md section 7): they are generated once
    the main session has recorded it (an `open` record or a `fixed` one) under NESTED_SIGNATURE - until then the check
    says that they are withheld."""
    try:
        with open(os.path.join(VERIF, "KNOWN_FINDINGS.jsonl")) as fh:
            for line in fh:
                line = line.strip()
                if line and not line.startswith("#"):
                    try:
                        rec = json.loads(line)
                    except ValueError:
                        continue
                    if rec.get("property") == "C06" and rec.get("signature") == NESTED_SIGNATURE:
                        return True
    except (OSError, ValueError):
        pass
    return bool(os.environ.get("VERIF_C06_NESTED"))


def temporary_length(repo=REPO):
    """The length at which call() stops writing the repr into the call (read from the tree under test)."""
    try:
        with open(os.path.join(repo, "pedal", "sandbox", "sandbox.py"), encoding="utf-8") as fh:
            m = re.search(r"MAXIMUM_TEMPORARY_LENGTH\s*=\s*(\d+)", fh.read())
        return int(m.group(1)) if m else 200
    except OSError:
        return 200


def call(fn, args, kwargs=None, **extra):
    c = {"fn": fn, "args": list(args), "kwargs": dict(kwargs or {}), "scope": "student"}
    c.update(extra)
    return c


def let(stmt):
    return {"op": "let", "stmt": stmt}


def is_nested(expr):
    return any(expr in vals[1:] for vals in NESTED_GROUPS.values())


def mk(steps, shape, rng, code=KIT):
    tainted = set()         # grader variables holding a value with a subclass instance inside a container
    for s in steps:
        if s.get("op") == "let":
            var = s["stmt"].split("=")[0].strip()
            if any(n in s["stmt"] for vals in NESTED_GROUPS.values() for n in vals[1:]):
                tainted.add(var)
            elif re.match(r"^\w+ = ", s["stmt"]):
                tainted.discard(var)
        elif s.get("fn"):
            exprs = list(s["args"]) + list(s["kwargs"].values())
            if any(is_nested(a) or a in tainted for a in exprs):
                s["nested"] = True
    return {"code": code, "filename": rng.choice(["answer.py", "answer.py", "student.py"]), "inputs": [],
            "calls": steps, "api": rng.choice(["commands", "sandbox"]), "shape": ["history:" + shape]}


def fn_for(rng, expr):
    """a probe that makes sense for the value (all of them observe the TYPE of what arrived)"""
    pool = ["kind", "same", "show", "special", "remember"]
    if expr.startswith(("[", "(", "{", "Stack", "Pair", "Table", "frozenset")):
        pool += ["inner_kinds", "inner_kinds", "inner_special"]
    return rng.choice(pool)


def history_cases(rng, tier, repo=REPO):
    """-> (cases, info)"""
    quick = tier == "quick"
    cases = []
    groups = dict(GROUPS)
    withheld = 0
    if nested_finding_registered():
        groups.update(NESTED_GROUPS)
    else:
        withheld = len(NESTED_GROUPS)
    n_len = temporary_length(repo)
    # the same pairs at the length where the repr stops being written into the call (repr of 'x' * n has n + 2 characters)
    for d in (-3, -2, -1, 0, 1):
        n = max(1, n_len + d - 2)
        groups["str-at-%d%+d" % (n_len, d)] = ["'x' * %d" % n, "Name('x' * %d)" % n, "Fake(repr('x' * %d))" % n]
    k = max(1, (n_len - 2) // 3)
    groups["list-at-limit"] = ["[1] * %d" % k, "Stack([1] * %d)" % k, "[1] * %d" % (k + 1), "Stack([1] * %d)" % (k + 1),
                               "[True] + [1] * %d" % (k - 1)]

    names = sorted(groups)
    # 1. every ordered pair of a group, one after the other: same function, then different functions
    for g in names:
        vals = groups[g]
        pairs = [(a, b) for a in vals for b in vals if a != b]
        if quick:
            # the plain value first and each look-alike second is the order that a text-keyed memo gets wrong: always;
            # the rest sampled
            must = [(vals[0], b) for b in vals[1:]]
            rest = [p for p in pairs if p not in must]
            pairs = must + rng.sample(rest, min(len(rest), 3))
        for a, b in pairs:
            f1 = fn_for(rng, a)
            f2 = f1 if rng.random() < 0.6 else fn_for(rng, b)
            steps = [call(f1, [a]), call(f2, [b])]
            if rng.random() < 0.5:
                steps.append(call(f1, [a]))                 # and back again
            if rng.random() < 0.3:
                steps.insert(1, call("total", ["[4, 5]"]))   # something else in between
            cases.append(mk(steps, "pair:%s" % g, rng))
    # 2. a whole group in one history, in a random order, each value seen by `kind` and by one more probe;
    #    positional and keyword; several look-alikes in ONE call
    for g in names:
        for _ in range(1 if quick else 4):
            vals = list(groups[g])
            rng.shuffle(vals)
            steps = []
            for v in vals:
                steps.append(call("kind", [v]))
                if rng.random() < 0.5:
                    steps.append(call(fn_for(rng, v), [v], target=rng.choice(["_", "res", "answer"])))
            steps.append(call("kinds", vals[:4]))
            steps.append(call("kinds", [], {"k%d" % i: v for i, v in enumerate(vals[:3])}))
            steps.append(call("kinds", vals[:2], {"named": vals[-1]}))
            cases.append(mk(steps, "group:%s" % g, rng))
    # 3. the same OBJECT again: after it was mutated, after the grader's variable was rebound to a look-alike
    mutations = [("v = [1, 2, 3]", "v.append(4)"), ("v = Stack([1, 2, 3])", "v.append(4)"), ("v = {'a': 1}", "v['b'] = 2"),
                 ("v = Table({'a': 1})", "v['a'] = True"), ("v = [1, 2, 3]", "v[0] = True"), ("v = [0.0]", "v[0] = -0.0"),
                 ("v = Fake('[1, 2, 3]')", "v.text = '7'"), ("v = Same('7')", "v.text = '[1, 2, 3]'"),
                 ("v = bytearray(b'ab')", "v.extend(b'c')"), ("v = [[1], [2]]", "v[0].append(9)"),
                 ("v = [1] * %d" % k, "v.append(1)"), ("v = Stack([1] * %d)" % (k + 1), "v.pop()")]
    for first, change in (rng.sample(mutations, 6) if quick else mutations):
        f = fn_for(rng, first[4:])
        steps = [let(first), call(f, ["v"]), call("same", ["v"]), let(change), call(f, ["v"]), call("same", ["v"]),
                 call("show", ["v"], target="res")]
        cases.append(mk(steps, "mutated", rng))
    for g in (rng.sample(names, 8) if quick else names):
        vals = groups[g]
        steps = []
        for v in (vals if not quick else vals[:4]):
            steps += [let("v = %s" % v), call("kind", ["v"]), call("remember", ["v"])]
        steps += [let("v = %s" % vals[0]), call("show", ["v"])]
        cases.append(mk(steps, "rebound:%s" % g, rng))
    # 4. the same call after the function changed / after the program was run again / after another program was graded
    for g in (rng.sample(names, 8) if quick else names):
        vals = groups[g]
        a, b = vals[0], vals[1]
        if True:
            cases.append(mk([call("kind", [a]), call("kind", [b]), call("retarget", []), call("kind", [a]), call("kind", [b])],
                            "function-rebound:%s" % g, rng))
            cases.append(mk([call("kind", [a]), call("same", [b]), {"op": "rerun"}, call("kind", [b]), call("same", [a]),
                             call("special", [b])], "rerun:%s" % g, rng))
            cases.append(mk([call("kind", [a]), call("same", [a]), call("same", [b]), {"op": "rerun", "code": KIT_CHANGED},
                             call("kind", [a]), call("same", [a]), call("same", [b]), call("kind", [b])],
                            "other-program:%s" % g, rng))
            # an instance made BEFORE the re-run (of the old class object) passed to the new program
            cases.append(mk([let("old = %s" % b), call("kind", ["old"]), {"op": "rerun"}, let("new = %s" % b),
                             call("kind", ["new"]), call("kind", ["old"]), call("special", ["old"]), call("kinds", ["old", "new", a])],
                            "old-instance:%s" % g, rng))
    # 4b. student classes named like their builtin base
    for a, b in (rng.sample(SHADOW_PAIRS, 4) if quick else SHADOW_PAIRS):
        for x, y in ((a, b), (b, a)):
            f = rng.choice(["kind", "same", "special"])
            cases.append(mk([call(f, [x]), call(f, [y]), call("kind", [x]), call("special", [y])],
                            "shadowed-builtin-name", rng, code=KIT_SHADOW))
    # 5. fresh temporaries of the same size one after the other (an address is reused), long ones too
    for width in ([3] if quick else [1, 3, 8]) + [k + 2]:
        steps = []
        for i in range(6):
            ctor = ["list", "Stack", "tuple", "Pair", "Stack", "list"][i]
            steps.append(call(rng.choice(["kind", "same", "inner_kinds"]), ["%s(range(%d, %d))" % (ctor, i, i + width)]))
        cases.append(mk(steps, "fresh-temporaries:%d" % width, rng))
    info = {"groups": len(groups), "cases": len(cases), "temporary_length_read_from_tree": n_len,
            "nested_groups_withheld": withheld}
    if withheld:
        info["nested_groups_note"] = ("a subclass instance inside a container argument is flattened to the builtin on the "
                                      "unchanged tree; generated once KNOWN_FINDINGS has a C06 record with signature %s"
                                      % json.dumps(NESTED_SIGNATURE, sort_keys=True))
    return cases, info

"""
C06 reference side: what an UNMODIFIED CPython does with a student program.

This file is executed in a fresh interpreter that never imports pedal:

    python sandboxequiv_ref.py <jobs.json> <results.json>

Each job {"code", "filename", "inputs": [...], "pad": null | "0", "calls": [{"fn", "args": [expr...],
"kwargs": {k: expr}, "fkw": {k: expr} (keyword arguments the grader hands over through function_kwargs=),
"args_locals": [expr | null], "kwargs_locals": {k: expr} (expressions over the program's namespace)} |
{"op": "evaluate", "expr", "target"} | {"op": "clear_output"} | {"op": "let"} | {"op": "rerun"}]} is executed as `__main__` (a fresh module object installed in sys.modules, exactly what
runpy does), with sys.stdin holding the inputs and sys.stdout recorded.  Reported per job:

  out      the text written to standard output
  events   [["out", text] | ["inp", prompt-or-null, reply-or-null]] in order (reply null = EOF)
  globals  canonical description of every global the program defined (see `describe`)
  outcome  null | [exception class name, line in the program file of the innermost frame in that file]
  calls    per call: ["ret", canonical value] | ["exc", class name], plus its output and events

Tracing replaces builtins.input by a wrapper that records the prompt and the reply and calls the real input;
`python prog.py` (truly untouched, see sandboxequiv_common.run_pure) is used to cross-check that the
traced run printed the same text and ended the same way.
"""
import builtins
import io
import json
import sys
import traceback
import types

DATA_TYPES = (int, float, str, bool, type(None), complex, bytes)
FRESH_MAIN = {"__name__", "__doc__", "__package__", "__loader__", "__spec__", "__builtins__", "__file__",
              "__cached__"}
# `__annotations__` is a global the PROGRAM makes (variable annotations at module level): it is compared, see globals_of
BUILTIN_BASES = (bool, int, float, complex, str, bytes, bytearray, list, tuple, dict, set, frozenset)


def describe(v, depth=0, seen=None):
    """A canonical, address-free description of a value.  Data is described exactly (type + repr of leaves);
    anything else by what kind of thing it is."""
    if seen is None:
        seen = set()
    if depth > 6:
        return ["deep"]
    t = type(v)
    if t in DATA_TYPES:
        return [t.__name__, repr(v)]
    if id(v) in seen:
        return ["cycle"]
    seen = seen | {id(v)}
    if t in (list, tuple):
        return [t.__name__, [describe(x, depth + 1, seen) for x in v]]
    if t in (set, frozenset):
        return [t.__name__, sorted((describe(x, depth + 1, seen) for x in v), key=json.dumps)]
    if t is dict:
        return ["dict", [[describe(k, depth + 1, seen), describe(x, depth + 1, seen)] for k, x in v.items()]]
    if t is range:
        return ["range", repr(v)]
    if isinstance(v, types.ModuleType):
        return ["module", v.__name__]
    if isinstance(v, type):
        return ["class", getattr(v, "__module__", "?"), v.__qualname__, [b.__name__ for b in v.__bases__]]
    if isinstance(v, (types.FunctionType, types.BuiltinFunctionType, types.MethodType)):
        return ["function", getattr(v, "__module__", None), getattr(v, "__qualname__", "?")]
    if isinstance(v, BaseException):
        return ["exception", t.__name__, describe(v.args, depth + 1, seen)]
    for base in BUILTIN_BASES:
        if isinstance(v, base):
            # an instance of a (student) subclass of a builtin type: the class AND the content (a plain list is not a
            # Stack, whatever its repr says)
            try:
                plain = base(v)
                attrs = sorted([k, describe(x, depth + 1, seen)] for k, x in getattr(v, "__dict__", {}).items())
            except Exception:       # noqa
                break
            return ["subclass-instance", getattr(t, "__module__", "?"), t.__qualname__, describe(plain, depth + 1, seen), attrs]
    try:
        attrs = vars(v)
    except TypeError:
        return ["object", getattr(t, "__module__", "?"), t.__qualname__]
    return ["instance", getattr(t, "__module__", "?"), t.__qualname__,
            sorted([k, describe(x, depth + 1, seen)] for k, x in attrs.items())]


class JobTimeout(BaseException):
    """The reference gave up on a program (the generator promises termination; this is a safety net)."""


class PaddedStdin(io.TextIOBase):
    """stdin holding the queued inputs; after them either EOF (pad None) or `pad` forever."""

    def __init__(self, inputs, pad, limit=None):
        self.items = list(inputs)
        self.pad = pad
        self.limit = limit          # the sandbox's MAXIMUM_INPUTS (only with pad: the sandbox's own path)
        self.reads = 0
        self.last = None

    def readable(self):
        return True

    def readline(self, *a):
        self.reads += 1
        if self.items:
            self.last = self.items.pop(0)
        elif self.pad is None:
            self.last = None
            return ""
        else:
            self.last = self.pad
        if self.limit is not None and self.limit <= self.reads:
            raise OSError("Asked for user input too many times")
        return self.last + "\n"

    def read(self, *a):
        out = "".join(x + "\n" for x in self.items)
        self.items = []
        return out


class Recorder(io.StringIO):
    pass


def innermost_line(exc, filename):
    """Line, in the program's own file, of the innermost frame of the traceback that lies in that file;
    for a program that does not compile, the line the parser reports."""
    own = [fr.lineno for fr in traceback.extract_tb(exc.__traceback__) if fr.filename == filename]
    if own:
        return own[-1]
    if isinstance(exc, SyntaxError) and exc.filename == filename:
        return exc.lineno
    return None


class Tracer:
    def __init__(self, inputs, pad, limit=None):
        self.out = Recorder()
        self.stdin = PaddedStdin(inputs, pad, limit)
        self.events = []
        self.mark = 0

    def flush_out(self):
        text = self.out.getvalue()
        if len(text) > self.mark:
            self.events.append(["out", text[self.mark:]])
        self.mark = len(text)

    def traced_input(self, *args):
        real_input = self.real_input
        self.flush_out()
        try:
            reply = real_input(*args)
        except EOFError:
            self.mark = len(self.out.getvalue())      # the prompt was written by input() itself
            self.events.append(["inp", str(args[0]) if args else None, None])
            raise
        except OSError:
            self.mark = len(self.out.getvalue())
            self.events.append(["inp", str(args[0]) if args else None, ["too-many", self.stdin.last]])
            raise
        self.mark = len(self.out.getvalue())
        self.events.append(["inp", str(args[0]) if args else None, reply])
        return reply

    def __enter__(self):
        self.saved = (sys.stdout, sys.stdin, builtins.input)
        self.real_input = builtins.input
        sys.stdout, sys.stdin, builtins.input = self.out, self.stdin, self.traced_input
        return self

    def __exit__(self, *a):
        sys.stdout, sys.stdin, builtins.input = self.saved
        self.flush_out()

    def take(self):
        """Events and text since the last take()."""
        self.flush_out()
        ev, self.events = self.events, []
        return ev


def exec_program(code, filename, res_into=None):
    """Run `code` as a fresh `__main__` module (what runpy does).  The source is compiled with dont_inherit=True:
    no compiler flag of THIS file (a `from __future__` import here would be one) reaches the student's program.
    -> (globals, outcome, mro)"""
    mod = types.ModuleType("__main__")
    g = mod.__dict__
    g["__builtins__"] = builtins
    g["__file__"] = filename
    g["__annotations__"] = {}       # as in the real __main__ of `python file.py`
    sys.modules["__main__"] = mod
    outcome, mro = None, []
    try:
        exec(compile(code, filename, "exec", dont_inherit=True), g)
    except JobTimeout:
        raise
    except BaseException as e:      # noqa  (SystemExit included: it is an outcome of the program)
        outcome = [type(e).__name__, innermost_line(e, filename)]
        mro = [k.__name__ for k in type(e).__mro__]
    return g, outcome, mro


def student_env(g):
    """What a grader's expression sees when it builds an argument from the student's own classes: the program's
    globals over the real builtins."""
    env = dict((k, v) for k, v in g.items() if k != "__builtins__")
    env["__builtins__"] = builtins
    return env


def run_job(job):
    filename = job.get("filename", "answer.py")
    code = job["code"]
    saved_main = sys.modules["__main__"]
    res = {"outcome": None, "calls": []}
    tr = Tracer(job.get("inputs", []), job.get("pad"), job.get("limit"))
    hv = {}         # the grader's own variables (steps {"op": "let"}), alive over the whole history
    try:
        with tr:
            g, res["outcome"], mro = exec_program(code, filename)
            if res["outcome"]:
                res["outcome_mro"] = mro
            res["events"] = tr.take()
            res["globals"] = globals_of(g)
            for c in job.get("calls", []):
                op = c.get("op", "call")
                if op == "let":
                    try:
                        exec(c["stmt"], student_env(g), hv)
                        res["calls"].append({"op": "let", "result": ["let"], "events": tr.take()})
                    except JobTimeout:
                        raise
                    except BaseException as e:      # noqa
                        res["calls"].append({"op": "let", "result": ["harness", type(e).__name__], "events": tr.take()})
                    continue
                if op == "rerun":
                    # the same process grades again (the same or another program): a fresh interpreter state for the
                    # program is a fresh __main__ module
                    tr.stdin.items = list(c.get("inputs", []))
                    g, outcome, mro = exec_program(c.get("code", code), filename)
                    res["calls"].append({"op": "rerun", "result": ["rerun", outcome], "outcome": outcome, "outcome_mro": mro,
                                         "events": tr.take(), "globals": globals_of(g)})
                    continue
                if op == "clear_output":
                    # the grader forgets what was printed so far: nothing happens in the interpreter
                    res["calls"].append({"op": "clear_output", "result": ["cleared"], "events": tr.take()})
                    continue
                if op == "evaluate":
                    # evaluate(expr, target=t): the direct counterpart is the statement `t = <expr>` in the program's
                    # namespace
                    mro, line = [], None
                    try:
                        value = eval(compile(c["expr"], "<grader>", "eval", dont_inherit=True), g)
                        g[c.get("target", "_")] = value
                        r = ["ret", describe(value)]
                    except JobTimeout:
                        raise
                    except BaseException as e:  # noqa
                        r = ["exc", type(e).__name__]
                        mro = [k.__name__ for k in type(e).__mro__]
                        line = innermost_line(e, filename)
                    res["calls"].append({"op": "evaluate", "result": r, "events": tr.take(), "mro": mro, "line": line})
                    continue
                env = student_env(g) if c.get("scope") == "student" else {"__builtins__": builtins}
                try:
                    args = [eval(a, env, hv) for a in c.get("args", [])]
                    kwargs = {k: eval(a, env, hv) for k, a in c.get("kwargs", {}).items()}
                    # keyword arguments handed over through function_kwargs= are keyword arguments of the student's
                    # function like any other (the documented way for names the grader's call() uses itself)
                    kwargs.update({k: eval(a, env, hv) for k, a in c.get("fkw", {}).items()})
                except Exception as e:      # noqa
                    res["calls"].append({"result": ["harness", type(e).__name__], "events": []})
                    continue
                if "inputs" in c:       # call(..., inputs=[...]) replaces the queue; otherwise what is left stays
                    tr.stdin.items = list(c["inputs"])
                mro, line = [], None
                if not callable(g.get(c["fn"])):
                    res["calls"].append({"result": ["nofn"], "events": tr.take()})
                    continue
                try:
                    fn = g[c["fn"]]
                    # args_locals / kwargs_locals: the argument is an expression over the program's own namespace,
                    # evaluated when the call is made (a failure there is the call's failure)
                    for i, expr in enumerate(c.get("args_locals", [])):
                        if expr is not None:
                            got = eval(compile(expr, "<grader>", "eval", dont_inherit=True), g)
                            if i < len(args):
                                args[i] = got
                            else:
                                args.append(got)
                    for k, expr in c.get("kwargs_locals", {}).items():
                        kwargs[k] = eval(compile(expr, "<grader>", "eval", dont_inherit=True), g)
                    value = fn(*args, **kwargs)
                    # call() is documented to assign the result to `target` (default "_"): the direct
                    # counterpart of call(fn, *args, target=t) is the statement `t = fn(*args)`
                    g[c.get("target", "_")] = value
                    r = ["ret", describe(value)]
                except JobTimeout:
                    raise
                except BaseException as e:  # noqa
                    r = ["exc", type(e).__name__]
                    mro = [k.__name__ for k in type(e).__mro__]
                    line = innermost_line(e, filename)      # None: raised by the call itself (e.g. wrong arity)
                res["calls"].append({"result": r, "events": tr.take(), "mro": mro, "line": line})
    finally:
        sys.modules["__main__"] = saved_main
    return res


def globals_of(g, skip=FRESH_MAIN):
    out = {}
    for k, v in g.items():
        if k in skip:
            continue
        if k == "__annotations__" and not v:
            continue        # CPython makes the (empty) dict in some situations only; an empty one says nothing
        out[k] = describe(v)
    return out


def main(argv):
    with open(argv[1]) as fh:
        jobs = json.load(fh)
    results = []
    import signal

    def on_alarm(*a):
        raise JobTimeout()
    signal.signal(signal.SIGALRM, on_alarm)
    for job in jobs:
        try:
            signal.alarm(int(job.get("time_limit", 10)))
            results.append(run_job(job))
        except JobTimeout:
            results.append({"timeout": True})
        except BaseException as e:       # noqa
            results.append({"harness_error": "%s: %s" % (type(e).__name__, e)})
        finally:
            signal.alarm(0)
    with open(argv[2], "w") as fh:
        json.dump(results, fh)
    return 0


if __name__ == "__main__":
    sys.exit(main(sys.argv))
